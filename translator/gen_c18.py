#!/venv/bin/python
"""C18 / C04 translator: what coq/Model/Tokenizer.v (the model of the installed standard-library tokenizer) was
written against, read from the running interpreter at every run -> coq/Gen/T_C18.v.

* tok_pattern_pins  — for every compiled regular expression the tokenizer uses (html.parser and _markupbase module
  level, plus the one set_cdata_mode compiles for each CDATA_CONTENT_ELEMENTS name): name -> first 16 hex digits of
  sha256(flags, pattern string).  Model/TokenizerPins.v holds the values the hand-written scanners were written for;
  Props/C18.v proves the two tables equal, so a changed pattern breaks a proof (fail closed).
* tok_source_pins   — the same for the source text of every method the model follows (goahead, parse_starttag,
  check_for_whole_start_tag, parse_endtag, parse_html_declaration, parse_bogus_comment, parse_pi, set_cdata_mode,
  clear_cdata_mode, feed, close, reset; ParserBase.reset, getpos, updatepos, parse_marked_section, parse_comment,
  _scan_name).
* cdata_elems_measured = HTMLParser.CDATA_CONTENT_ELEMENTS.
* re_space_measured — every code point c with re.match(r"\\s", chr(c)); checked here to be str.isspace() and what
  str.strip() strips.
* ci_measured — for every ASCII letter p: the code points other than p's two ASCII cases that re.IGNORECASE lets p match.
* lower_to_ascii_measured — non-ASCII code points whose str.lower() contains an ASCII character (the model lower-cases
  ASCII letters only; the tokenizer *compares* lower-cased text with script/style/<!doctype and the marked-section
  keywords; checked here that none of these characters can take part).
Fail-closed checks on the repository side: BeautifulSoupHTMLParser overrides none of the modelled methods;
HTMLParserTreeBuilder passes convert_charrefs=False and calls parser.feed(markup) then parser.close().
"""
import os, sys, re, hashlib, inspect
from gen_tables import REPO, OUT, coqstr, lstN, chunked_list, write_if_changed, comment
sys.path.insert(0, REPO)

HP_PATTERNS = ["interesting_normal", "incomplete", "entityref", "charref", "starttagopen", "piclose", "commentclose",
               "tagfind_tolerant", "attrfind_tolerant", "locatestarttagend_tolerant", "endendtag", "endtagfind"]
MB_PATTERNS = ["_declname_match", "_declstringlit_match", "_commentclose", "_markedsectionclose", "_msmarkedsectionclose"]
HP_METHODS = ["reset", "feed", "close", "set_cdata_mode", "clear_cdata_mode", "goahead", "parse_html_declaration",
              "parse_bogus_comment", "parse_pi", "parse_starttag", "check_for_whole_start_tag", "parse_endtag",
              "handle_startendtag"]
MB_METHODS = ["reset", "getpos", "updatepos", "parse_marked_section", "parse_comment", "_scan_name"]


def pin(*parts):
    h = hashlib.sha256()
    for p in parts:
        h.update(repr(p).encode("utf-8"))
        h.update(b"\0")
    return h.hexdigest()[:16]


def measure():
    import html.parser as HP
    import _markupbase as MB
    pats = []
    for n in HP_PATTERNS:
        r = getattr(HP, n)
        pats.append(("html.parser." + n, pin(r.flags, r.pattern)))
    for n in MB_PATTERNS:
        r = getattr(MB, n)
        r = getattr(r, "__self__", r)            # the *_match names are bound methods of the compiled pattern
        pats.append(("_markupbase." + n, pin(r.flags, r.pattern)))
    cdata = tuple(HP.HTMLParser.CDATA_CONTENT_ELEMENTS)
    if not all(isinstance(x, str) and x.isascii() and x.isalpha() and x == x.lower() for x in cdata):
        raise RuntimeError("CDATA_CONTENT_ELEMENTS is not a tuple of lower-case ASCII words: %r" % (cdata,))
    for e in cdata:
        p = HP.HTMLParser(convert_charrefs=False)
        p.set_cdata_mode(e)
        if p.cdata_elem != e:
            raise RuntimeError("set_cdata_mode(%r) stores %r" % (e, p.cdata_elem))
        pats.append(("set_cdata_mode(%s).interesting" % e, pin(p.interesting.flags, p.interesting.pattern.replace(e, "%s"))))
    srcs = []
    for n in HP_METHODS:
        srcs.append(("HTMLParser." + n, pin(inspect.getsource(HP.HTMLParser.__dict__[n]))))
    for n in MB_METHODS:
        srcs.append(("ParserBase." + n, pin(inspect.getsource(MB.ParserBase.__dict__[n]))))
    ws = re.compile(r"\s")
    space = [c for c in range(0x110000) if ws.match(chr(c))]
    if space != [c for c in range(0x110000) if chr(c).isspace()]:
        raise RuntimeError(r"\s and str.isspace() differ")
    if any(("x" + chr(c) + "x").strip("x") != chr(c) or (chr(c) + "x" + chr(c)).strip() != "x" for c in space):
        raise RuntimeError("str.strip() does not strip exactly str.isspace()")
    ci = []
    any_letter = re.compile("[a-z]", re.I)
    folded = [c for c in range(128, 0x110000) if any_letter.match(chr(c))]     # non-ASCII characters some letter matches
    for p in "abcdefghijklmnopqrstuvwxyz":
        rx = re.compile(p, re.I)
        if not (rx.match(p) and rx.match(p.upper())):
            raise RuntimeError("re.I does not match ASCII cases of %r" % p)
        if [c for c in range(128) if rx.match(chr(c))] != [ord(p.upper()), ord(p)]:
            raise RuntimeError("re.I folds ASCII unexpectedly for %r" % p)
        extra = [c for c in folded if rx.match(chr(c))]
        if extra:
            ci.append((ord(p), extra))
    if sorted(c for _, e in ci for c in e) != folded:
        raise RuntimeError("a non-ASCII character matches [a-z] under re.I but no single letter")
    low = []
    for c in range(128, 0x110000):
        l = chr(c).lower()
        if any(ord(x) < 128 for x in l):
            low.append((c, [ord(x) for x in l]))
    compared = set("scriptstyle" + "doctype" + "tempcdataignoreincludercdataifelseendif" + "".join(cdata))
    for c, l in low:
        if len(l) == 1 and chr(l[0]) in compared:
            raise RuntimeError("U+%04X lower-cases to %r: the ASCII model of the tokenizer's comparisons is not exact" % (c, chr(l[0])))
    # a context-dependent lower() (final sigma) must not produce ASCII either
    if any(ord(x) < 128 for x in "aΣ".lower()[1:] + "Σa".lower()[:1]):
        raise RuntimeError("context-dependent lower() produces ASCII")
    return pats, srcs, cdata, space, ci, low


def check_repo():
    import html.parser as HP
    import _markupbase as MB
    from bs4.builder import _htmlparser as B
    P = B.BeautifulSoupHTMLParser
    modelled = set(HP_METHODS + MB_METHODS + ["getpos", "rawdata", "interesting", "cdata_elem", "CDATA_CONTENT_ELEMENTS",
                                                "get_starttag_text", "parse_declaration", "error"]) - {"handle_startendtag"}
    for klass in P.__mro__:
        if klass in (HP.HTMLParser, MB.ParserBase, object):
            continue
        bad = sorted((modelled - {"error"}) & set(klass.__dict__))
        if bad:
            raise RuntimeError("%s overrides tokenizer internals %r: Model/Tokenizer.v does not describe it" % (klass.__name__, bad))
    if HP.HTMLParser not in P.__mro__:
        raise RuntimeError("BeautifulSoupHTMLParser is not an html.parser.HTMLParser")
    feed = inspect.getsource(B.HTMLParserTreeBuilder.feed)
    i, j = feed.find("parser.feed(markup)"), feed.find("parser.close()")
    if not (0 <= i < j):
        raise RuntimeError("HTMLParserTreeBuilder.feed does not call parser.feed(markup) then parser.close()")
    b = B.HTMLParserTreeBuilder()
    if b.parser_args[1].get("convert_charrefs") is not False:
        raise RuntimeError("HTMLParserTreeBuilder does not pass convert_charrefs=False")
    b2 = B.HTMLParserTreeBuilder(parser_kwargs={"convert_charrefs": True})
    if b2.parser_args[1].get("convert_charrefs") is not False:
        raise RuntimeError("parser_kwargs can switch convert_charrefs on")


def pins_table(name, rows):
    return "Definition %s : list (list N * list N) := %s." % (
        name, chunked_list(["(%s, %s)" % (coqstr(k), coqstr(v)) for k, v in rows], 1))


def main():
    pats, srcs, cdata, space, ci, low = measure()
    check_repo()
    out = ["(* GENERATED by translator/gen_c18.py — do not edit *)",
           "From Coq Require Import List NArith.",
           "From BS Require Import Base.Sexp.",
           "Import ListNotations.",
           "Open Scope N_scope.",
           "",
           comment("interpreter: Python %d.%d.%d; names: %s" % (sys.version_info[:3] + (", ".join(k for k, _ in pats + srcs),))),
           pins_table("tok_pattern_pins", pats),
           pins_table("tok_source_pins", srcs),
           comment("HTMLParser.CDATA_CONTENT_ELEMENTS"),
           "Definition cdata_elems_measured : list (list N) := [%s]." % "; ".join(coqstr(x) for x in cdata),
           comment("code points matched by \\s (= str.isspace() = stripped by str.strip())"),
           "Definition re_space_measured : list N := %s." % lstN(space),
           comment("re.IGNORECASE: ASCII letter -> other code points it matches"),
           "Definition ci_measured : list (N * list N) := [%s]." % "; ".join("(%d, %s)" % (p, lstN(e)) for p, e in ci),
           comment("non-ASCII code points whose lower() contains ASCII"),
           "Definition lower_to_ascii_measured : list (N * list N) := [%s]." % "; ".join("(%d, %s)" % (c, lstN(l)) for c, l in low),
           ""]
    text = "\n".join(out) + "\n"
    changed = write_if_changed(os.path.join(OUT, "T_C18.v"), text)
    print("T_C18.v", "changed" if changed else "unchanged", hashlib.sha256(text.encode()).hexdigest()[:16])
    return pats, srcs


if __name__ == "__main__":
    pats, srcs = main()
    if "--pins" in sys.argv:          # prints the body of Model/TokenizerPins.v for the installed interpreter
        for nm, rows in (("pinned_patterns", pats), ("pinned_sources", srcs)):
            print("Definition %s : list (str * str) := [" % nm)
            print(";\n".join('  (lit "%s", lit "%s")' % (k, v) for k, v in rows))
            print("].")
