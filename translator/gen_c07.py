#!/venv/bin/python
"""C07 translator: reads the *shape and constants* of the encoding-detection code out of the
source (AST) of bs4/dammit.py in VERIF_REPO and prints them as Gallina data (coq/Gen/T_C07.v):

  * bom_rules            -- the if/elif chain of EncodingDetector.strip_byte_order_mark, one tuple per
                            branch: (minimum length, (n, mark) for `data[:n] == mark`,
                            optional (lo, hi, x) for `data[lo:hi] != x`, encoding name, bytes stripped)
  * encodings_stage_order-- the order of the yielding statements of EncodingDetector.encodings
                            (0 known_definite, 1 sniffed (BOM), 2 user, 3 declared, 4 chardet, 5 constant tuple)
  * last_ditch_encodings -- that constant tuple
  * replace_pass_skips   -- the name compared with `!=` in the replace pass of UnicodeDammit.__init__
  * charset_aliases      -- UnicodeDammit.CHARSET_ALIASES, and whether the interpreter knows each target

Model/Dammit.v *interprets* these (it does not restate them), and Props/C07.v pins them to the
documented values, so an edited constant or a re-ordered generator breaks a kernel-checked obligation.
Fail-closed: any statement of a shape not listed here raises.
"""
import ast, codecs, inspect, os, sys, textwrap

from gen_tables import OUT, coqstr, comment, write_if_changed, REPO  # noqa: E402


def lstN_(xs):
    return "[" + "; ".join(str(int(x)) for x in xs) + "]"


class Shape(RuntimeError):
    pass


def _fn_ast(fn):
    src = textwrap.dedent(inspect.getsource(fn))
    mod = ast.parse(src)
    f = mod.body[0]
    if not isinstance(f, ast.FunctionDef):
        raise Shape("not a function definition: %r" % fn)
    return f


def _is_name(n, name):
    return isinstance(n, ast.Name) and n.id == name


def _self_attr(n):
    if isinstance(n, ast.Attribute) and _is_name(n.value, "self"):
        return n.attr
    return None


def _const(n, typ):
    if isinstance(n, ast.Constant) and type(n.value) is typ:
        return n.value
    raise Shape("expected a %s literal, got %s" % (typ.__name__, ast.dump(n)))


def _strip_doc(body):
    if body and isinstance(body[0], ast.Expr) and isinstance(body[0].value, ast.Constant) \
            and isinstance(body[0].value.value, str):
        return body[1:]
    return body


# ------------------------------------------------------------------ strip_byte_order_mark
def _bom_conjunct(c, rule):
    if not (isinstance(c, ast.Compare) and len(c.ops) == 1 and len(c.comparators) == 1):
        raise Shape("BOM test: unexpected conjunct " + ast.dump(c))
    op, rhs, lhs = c.ops[0], c.comparators[0], c.left
    if isinstance(lhs, ast.Call) and _is_name(lhs.func, "len") and len(lhs.args) == 1 and _is_name(lhs.args[0], "data"):
        if not isinstance(op, ast.GtE):
            raise Shape("BOM test: len(data) compared with something other than >=")
        if "minlen" in rule:
            raise Shape("BOM test: two length guards")
        rule["minlen"] = _const(rhs, int)
        return
    if isinstance(lhs, ast.Subscript) and _is_name(lhs.value, "data") and isinstance(lhs.slice, ast.Slice) \
            and lhs.slice.step is None:
        lo, hi = lhs.slice.lower, lhs.slice.upper
        if hi is None:
            raise Shape("BOM test: open-ended slice")
        hi = _const(hi, int)
        lo = 0 if lo is None else _const(lo, int)
        val = _const(rhs, bytes)
        if isinstance(op, ast.Eq):
            if lo != 0 or "prefix" in rule:
                raise Shape("BOM test: `==` on a slice that is not a single prefix")
            rule["prefix"] = (hi, val)
            return
        if isinstance(op, ast.NotEq):
            if "neq" in rule:
                raise Shape("BOM test: two `!=` guards")
            rule["neq"] = (lo, hi, val)
            return
    raise Shape("BOM test: unexpected conjunct " + ast.dump(c))


def _bom_chain(node, rules):
    if not isinstance(node, ast.If):
        raise Shape("BOM chain: expected if/elif, got " + ast.dump(node))
    rule = {}
    t = node.test
    if isinstance(t, ast.BoolOp) and isinstance(t.op, ast.And):
        for c in t.values:
            _bom_conjunct(c, rule)
    else:
        _bom_conjunct(t, rule)
    if "prefix" not in rule:
        raise Shape("BOM branch without a prefix comparison")
    if len(node.body) != 2:
        raise Shape("BOM branch body is not two assignments")
    for st in node.body:
        if not (isinstance(st, ast.Assign) and len(st.targets) == 1 and isinstance(st.targets[0], ast.Name)):
            raise Shape("BOM branch: unexpected statement " + ast.dump(st))
        tgt = st.targets[0].id
        if tgt == "encoding":
            rule["name"] = _const(st.value, str)
        elif tgt == "data":
            v = st.value
            if not (isinstance(v, ast.Subscript) and _is_name(v.value, "data") and isinstance(v.slice, ast.Slice)
                    and v.slice.upper is None and v.slice.step is None and v.slice.lower is not None):
                raise Shape("BOM branch: data is not re-bound to data[k:]")
            rule["strip"] = _const(v.slice.lower, int)
        else:
            raise Shape("BOM branch assigns " + tgt)
    if "name" not in rule or "strip" not in rule:
        raise Shape("BOM branch lacks the encoding or the strip")
    rules.append(rule)
    if node.orelse:
        if len(node.orelse) != 1:
            raise Shape("BOM chain: else branch is not a single elif")
        _bom_chain(node.orelse[0], rules)


def read_bom_rules(EncodingDetector):
    f = _fn_ast(EncodingDetector.strip_byte_order_mark.__func__)
    body = _strip_doc(f.body)
    # encoding = None ; if isinstance(data, str): return data, encoding ; <chain> ; return data, encoding
    if len(body) != 4:
        raise Shape("strip_byte_order_mark: expected 4 statements after the docstring, got %d" % len(body))
    a, guard, chain, ret = body
    if not (isinstance(a, ast.Assign) and _is_name(a.targets[0], "encoding")
            and isinstance(a.value, ast.Constant) and a.value.value is None):
        raise Shape("strip_byte_order_mark: does not start with encoding = None")
    if not (isinstance(guard, ast.If) and isinstance(guard.test, ast.Call) and _is_name(guard.test.func, "isinstance")
            and _is_name(guard.test.args[0], "data") and _is_name(guard.test.args[1], "str")
            and len(guard.body) == 1 and isinstance(guard.body[0], ast.Return) and not guard.orelse):
        raise Shape("strip_byte_order_mark: the str guard has changed")
    for r in (guard.body[0], ret):
        v = r.value
        if not (isinstance(r, ast.Return) and isinstance(v, ast.Tuple) and len(v.elts) == 2
                and _is_name(v.elts[0], "data") and _is_name(v.elts[1], "encoding")):
            raise Shape("strip_byte_order_mark: does not return (data, encoding)")
    rules = []
    _bom_chain(chain, rules)
    return rules


# ------------------------------------------------------------------ EncodingDetector.encodings
STAGE = {"known_definite_encodings": 0, "sniffed_encoding": 1, "user_encodings": 2,
         "declared_encoding": 3, "chardet_encoding": 4}


def _usable_call(n, what):
    """self._usable(<what>, tried)"""
    return (isinstance(n, ast.Call) and _self_attr(n.func) == "_usable" and len(n.args) == 2 and not n.keywords
            and what(n.args[0]) and _is_name(n.args[1], "tried"))


def _yields(body, what):
    return (len(body) == 1 and isinstance(body[0], ast.Expr) and isinstance(body[0].value, ast.Yield)
            and body[0].value.value is not None and what(body[0].value.value))


def read_encodings(EncodingDetector):
    f = _fn_ast(EncodingDetector.encodings.fget)
    body = _strip_doc(f.body)
    order, tup, lazy = [], None, {}
    first = body[0]
    if not (isinstance(first, (ast.Assign, ast.AnnAssign))
            and _is_name(first.targets[0] if isinstance(first, ast.Assign) else first.target, "tried")
            and isinstance(first.value, ast.Call) and _is_name(first.value.func, "set") and not first.value.args):
        raise Shape("encodings: does not start with tried = set()")
    for st in body[1:]:
        if isinstance(st, ast.For):
            if not (_is_name(st.target, "e") and not st.orelse and len(st.body) == 1 and isinstance(st.body[0], ast.If)
                    and _usable_call(st.body[0].test, lambda a: _is_name(a, "e")) and not st.body[0].orelse
                    and _yields(st.body[0].body, lambda a: _is_name(a, "e"))):
                raise Shape("encodings: for-loop of unexpected shape " + ast.dump(st)[:300])
            attr = _self_attr(st.iter)
            if attr is not None:
                if attr not in ("known_definite_encodings", "user_encodings"):
                    raise Shape("encodings: loop over self." + attr)
                order.append(STAGE[attr])
            elif isinstance(st.iter, ast.Tuple):
                if tup is not None:
                    raise Shape("encodings: two constant tuples")
                tup = [_const(x, str) for x in st.iter.elts]
                order.append(5)
            else:
                raise Shape("encodings: loop over " + ast.dump(st.iter))
        elif isinstance(st, ast.If):
            t = st.test
            # lazy initialisation: if self.X is None: self.X = f(...)
            if isinstance(t, ast.Compare) and _self_attr(t.left) and len(t.ops) == 1 and isinstance(t.ops[0], ast.Is) \
                    and isinstance(t.comparators[0], ast.Constant) and t.comparators[0].value is None:
                x = _self_attr(t.left)
                if not (len(st.body) == 1 and isinstance(st.body[0], ast.Assign) and not st.orelse
                        and _self_attr(st.body[0].targets[0]) == x and isinstance(st.body[0].value, ast.Call)):
                    raise Shape("encodings: lazy initialisation of unexpected shape")
                call = st.body[0].value
                fn = _self_attr(call.func) or (call.func.id if isinstance(call.func, ast.Name) else None)
                args = [_self_attr(a) for a in call.args]
                if call.keywords or None in args or fn is None:
                    raise Shape("encodings: lazy initialisation calls something unexpected")
                lazy[x] = (fn, args)
                continue
            # if self.X is not None and self._usable(self.X, tried): yield self.X
            if not (isinstance(t, ast.BoolOp) and isinstance(t.op, ast.And) and len(t.values) == 2 and not st.orelse):
                raise Shape("encodings: if of unexpected shape " + ast.dump(st)[:300])
            c, u = t.values
            x = _self_attr(c.left) if isinstance(c, ast.Compare) else None
            if not (x in ("sniffed_encoding", "declared_encoding", "chardet_encoding") and len(c.ops) == 1
                    and isinstance(c.ops[0], ast.IsNot) and isinstance(c.comparators[0], ast.Constant)
                    and c.comparators[0].value is None
                    and _usable_call(u, lambda a: _self_attr(a) == x) and _yields(st.body, lambda a: _self_attr(a) == x)):
                raise Shape("encodings: optional stage of unexpected shape " + ast.dump(st)[:300])
            if x in ("declared_encoding", "chardet_encoding") and x not in lazy:
                raise Shape("encodings: %s used before its lazy initialisation" % x)
            order.append(STAGE[x])
        else:
            raise Shape("encodings: unexpected statement " + ast.dump(st)[:300])
    if tup is None:
        raise Shape("encodings: no constant tuple of last-resort encodings")
    if len(set(order)) != len(order):
        raise Shape("encodings: a source is consulted twice")
    # what the two lazily computed sources are computed from (the model passes exactly these)
    if lazy.get("declared_encoding") != ("find_declared_encoding", ["markup", "is_html"]):
        raise Shape("encodings: declared_encoding is no longer find_declared_encoding(self.markup, self.is_html)")
    if lazy.get("chardet_encoding") != ("_chardet_dammit", ["markup"]):
        raise Shape("encodings: chardet_encoding is no longer _chardet_dammit(self.markup)")
    return order, tup


# ------------------------------------------------------------------ UnicodeDammit.__init__
def read_replace_skip(UnicodeDammit):
    f = _fn_ast(UnicodeDammit.__init__)
    found = []
    for n in ast.walk(f):
        if isinstance(n, ast.Compare) and _is_name(n.left, "encoding") and len(n.ops) == 1 \
                and isinstance(n.comparators[0], ast.Constant) and isinstance(n.comparators[0].value, str):
            if not isinstance(n.ops[0], ast.NotEq):
                raise Shape("UnicodeDammit.__init__: `encoding` compared to a literal with something other than !=")
            found.append(n.comparators[0].value)
    if len(found) != 1:
        raise Shape("UnicodeDammit.__init__: expected exactly one `encoding != <literal>`, found %r" % found)
    return found[0]



# ------------------------------------------------------------------ find_declared_encoding (the sniffer)
def read_sniff_patterns(dammit_mod):
    """The two pattern texts, and for the four compiled objects of encoding_res: (input kind, which, pattern, flags)."""
    import re
    xml_t, html_t = dammit_mod.xml_encoding, dammit_mod.html_meta
    if not (isinstance(xml_t, str) and isinstance(html_t, str)):
        raise Shape("xml_encoding / html_meta are not str")
    res = dammit_mod.encoding_res
    if set(res.keys()) != {bytes, str}:
        raise Shape("encoding_res does not have exactly the keys bytes and str")
    rows = []
    for ki, kind in ((0, bytes), (1, str)):
        d = res[kind]
        if set(d.keys()) != {"xml", "html"}:
            raise Shape("encoding_res[%s] does not have exactly the keys xml and html" % kind.__name__)
        for wi, which in ((0, "xml"), (1, "html")):
            pat = d[which]
            if not isinstance(pat, re.Pattern) or not isinstance(pat.pattern, kind):
                raise Shape("encoding_res[%s][%s] is not a compiled %s pattern" % (kind.__name__, which, kind.__name__))
            if pat.groups != 1:
                raise Shape("encoding_res[%s][%s] does not have exactly one group" % (kind.__name__, which))
            rows.append((ki, wi, pat.pattern, int(pat.flags)))
    return xml_t, html_t, rows


def read_sniff_windows(EncodingDetector):
    """xml_endpos / html_endpos of find_declared_encoding and the shape of what is done with the two searches."""
    from fractions import Fraction
    f = _fn_ast(EncodingDetector.find_declared_encoding.__func__)
    argnames = [a.arg for a in f.args.args]
    if argnames != ["cls", "markup", "is_html", "search_entire_document"]:
        raise Shape("find_declared_encoding: arguments are %r" % argnames)
    defaults = [d.value for d in f.args.defaults if isinstance(d, ast.Constant)]
    if defaults != [False, False]:
        raise Shape("find_declared_encoding: defaults of is_html / search_entire_document are not False, False")
    body = _strip_doc(f.body)
    first = body[0]
    if not (isinstance(first, ast.If) and _is_name(first.test, "search_entire_document")
            and len(first.body) == 1 and len(first.orelse) == 2):
        raise Shape("find_declared_encoding: does not start with `if search_entire_document:` / else two assignments")
    a = first.body[0]
    if not (isinstance(a, ast.Assign) and sorted(t.id for t in a.targets if isinstance(t, ast.Name)) == ["html_endpos", "xml_endpos"]
            and isinstance(a.value, ast.Call) and _is_name(a.value.func, "len") and _is_name(a.value.args[0], "markup")):
        raise Shape("find_declared_encoding: search_entire_document does not set both end positions to len(markup)")
    x, h = first.orelse
    if not (isinstance(x, ast.Assign) and len(x.targets) == 1 and _is_name(x.targets[0], "xml_endpos")):
        raise Shape("find_declared_encoding: xml_endpos assignment not found")
    xml_window = _const(x.value, int)
    if not (isinstance(h, ast.Assign) and len(h.targets) == 1 and _is_name(h.targets[0], "html_endpos")
            and isinstance(h.value, ast.Call) and _is_name(h.value.func, "max") and len(h.value.args) == 2):
        raise Shape("find_declared_encoding: html_endpos is not max(<int>, ...)")
    html_min = _const(h.value.args[0], int)
    frac = h.value.args[1]
    if not (isinstance(frac, ast.Call) and _is_name(frac.func, "int") and len(frac.args) == 1
            and isinstance(frac.args[0], ast.BinOp) and isinstance(frac.args[0].op, ast.Mult)
            and isinstance(frac.args[0].left, ast.Call) and _is_name(frac.args[0].left.func, "len")
            and _is_name(frac.args[0].left.args[0], "markup")):
        raise Shape("find_declared_encoding: html_endpos is not max(<int>, int(len(markup) * <float>))")
    fl = _const(frac.args[0].right, float)
    fr = Fraction(fl).limit_denominator(1000)
    if fr <= 0 or float(fr.numerator) / float(fr.denominator) != fl:
        raise Shape("find_declared_encoding: the fraction %r is not a small rational" % fl)
    # int(n * fl) must be floor(n * num / den): measured on every length up to 300 000 and around powers of two
    ns = list(range(0, 300001)) + [2 ** k + d for k in range(19, 40) for d in (-1, 0, 1)] + [20 * k for k in range(15000, 400000, 997)]
    for n in ns:
        if int(n * fl) != (n * fr.numerator) // fr.denominator:
            raise Shape("int(n * %r) differs from floor(n * %s) at n = %d" % (fl, fr, n))
    # the rest of the function: which pattern is searched with which end position, the is_html gate,
    # the ascii/replace decoding of a bytes group and the final lower()
    src = ast.unparse(ast.Module(body=body[1:], type_ignores=[]))
    want = [
        "xml_re = res['xml']", "html_re = res['html']",
        "declared_encoding_match = xml_re.search(markup, endpos=xml_endpos)",
        "if not declared_encoding_match and is_html:\n    declared_encoding_match = html_re.search(markup, endpos=html_endpos)",
        "if declared_encoding_match is not None:\n    declared_encoding = declared_encoding_match.groups()[0]",
        "if declared_encoding:\n    if isinstance(declared_encoding, bytes):\n        declared_encoding = declared_encoding.decode('ascii', 'replace')\n    return declared_encoding.lower()\nreturn None",
        "if isinstance(markup, bytes):\n    res = encoding_res[bytes]\nelse:\n    res = encoding_res[str]",
    ]
    for w in want:
        if w not in src:
            raise Shape("find_declared_encoding: statement not found (code changed?): " + w.split("\n")[0])
    n_search = sum(1 for n in ast.walk(f) if isinstance(n, ast.Attribute) and n.attr == "search")
    if n_search != 2:
        raise Shape("find_declared_encoding: %d .search calls, expected 2" % n_search)
    return xml_window, html_min, fr.numerator, fr.denominator


def read_re_semantics():
    """Interpreter oracle about `re` (not about bs4): which characters \\s matches, which characters `.` does
    not match, and which characters match each letter of the three keywords under re.I - for bytes and str."""
    import re
    letters = sorted(set("encoding" + "meta" + "charset"))
    allb = bytes(range(256))
    alls = "".join(chr(c) for c in range(0x110000))
    out = {}
    out["ws_bytes"] = sorted(m[0] for m in re.compile(rb"\s").findall(allb))
    out["ws_str"] = sorted(ord(m) for m in re.compile(r"\s").findall(alls))
    out["dot_bytes"] = sorted(set(range(256)) - {m[0] for m in re.compile(rb".").findall(allb)})
    dots = set(re.compile(r".").findall(alls))
    out["dot_str"] = sorted(c for c in range(0x110000) if chr(c) not in dots)
    out["ci_bytes"] = [(ord(l), sorted(m[0] for m in re.compile(l.encode(), re.I).findall(allb))) for l in letters]
    out["ci_str"] = [(ord(l), sorted(ord(m) for m in re.compile(l, re.I).findall(alls))) for l in letters]
    for k in ("ws_bytes", "ws_str"):
        if not out[k]:
            raise Shape("no whitespace?")
    return out


def _known_to_interpreter(name):
    try:
        codecs.lookup(name)
        return True
    except (LookupError, ValueError):
        return False


def main():
    if REPO not in sys.path:
        sys.path.insert(0, REPO)
    from bs4.dammit import EncodingDetector, UnicodeDammit
    rules = read_bom_rules(EncodingDetector)
    order, tup = read_encodings(EncodingDetector)
    skip = read_replace_skip(UnicodeDammit)
    import bs4.dammit as dammit_mod
    xml_t, html_t, compiled = read_sniff_patterns(dammit_mod)
    xml_window, html_min, fnum, fden = read_sniff_windows(EncodingDetector)
    resem = read_re_semantics()
    aliases = UnicodeDammit.CHARSET_ALIASES
    if not isinstance(aliases, dict) or not all(isinstance(k, str) and isinstance(v, str) for k, v in aliases.items()):
        raise Shape("CHARSET_ALIASES is not a str->str dict")
    o = ["(* GENERATED by translator/gen_c07.py from the library working tree - do not edit *)",
         "From Coq Require Import List NArith.",
         "From BS Require Import Base.Sexp Base.Types.",
         "Import ListNotations.",
         "Open Scope N_scope.",
         "",
         comment("EncodingDetector.strip_byte_order_mark: (min length, (n, mark) for data[:n] == mark, "
                 "optional (lo, hi, x) for data[lo:hi] != x, encoding, bytes stripped), in if/elif order"),
         "Definition bom_rules : list (nat * (nat * list N) * option (nat * nat * list N) * list N * nat) := ["]
    lines = []
    for r in rules:
        neq = "None" if "neq" not in r else "Some (%d%%nat, %d%%nat, %s)" % (r["neq"][0], r["neq"][1], coqstr(r["neq"][2]))
        lines.append("  (%d%%nat, (%d%%nat, %s), %s, %s, %d%%nat)  %s" % (
            r.get("minlen", 0), r["prefix"][0], coqstr(r["prefix"][1]), neq, coqstr(r["name"]), r["strip"],
            comment(r["name"])))
    o.append(";\n".join(lines))
    o.append("].")
    o.append("")
    o.append(comment("EncodingDetector.encodings: order of the yielding statements; 0 known_definite_encodings, "
                     "1 sniffed_encoding, 2 user_encodings, 3 declared_encoding, 4 chardet_encoding, 5 the constant tuple"))
    o.append("Definition encodings_stage_order : list N := [" + "; ".join(str(x) for x in order) + "].")
    o.append("Definition last_ditch_encodings : list (list N) := [" + "; ".join(coqstr(x) for x in tup) + "].  "
             + comment(", ".join(tup)))
    o.append("")
    o.append(comment("UnicodeDammit.__init__, replace pass: `if encoding != %r`" % skip))
    o.append("Definition replace_pass_skips : list N := %s." % coqstr(skip))
    o.append("")
    o.append(comment("UnicodeDammit.CHARSET_ALIASES (key, target), and (interpreter oracle) whether codecs.lookup knows the target"))
    o.append("Definition charset_aliases : list (list N * list N) := [" + "; ".join(
        "(%s, %s)" % (coqstr(k), coqstr(v)) for k, v in sorted(aliases.items())) + "].")
    o.append("Definition charset_alias_target_known : list (list N * bool) := [" + "; ".join(
        "(%s, %s)" % (coqstr(v), "true" if _known_to_interpreter(v) else "false")
        for k, v in sorted(aliases.items())) + "].")
    o.append("")
    o.append(comment("find_declared_encoding: the two pattern texts (module constants xml_encoding, html_meta)"))
    o.append("Definition xml_pattern_text : list N := %s." % coqstr(xml_t))
    o.append("Definition html_pattern_text : list N := %s." % coqstr(html_t))
    o.append(comment("encoding_res: (0 bytes | 1 str, 0 xml | 1 html, .pattern, .flags) of the four compiled patterns; "
                     "re.IGNORECASE = 2, re.UNICODE = 32"))
    o.append("Definition sniff_compiled : list (N * N * list N * N) := [\n" + ";\n".join(
        "  (%d, %d, %s, %d)" % (k, w, coqstr(p), fl) for k, w, p, fl in compiled) + "\n].")
    o.append(comment("find_declared_encoding: xml_endpos, and html_endpos = max(min, int(len * num / den)) "
                     "(the float literal is num/den; int(n * literal) = floor(n * num / den) measured by the translator)"))
    o.append("Definition sniff_xml_window : N := %d." % xml_window)
    o.append("Definition sniff_html_window_min : N := %d." % html_min)
    o.append("Definition sniff_html_window_num : N := %d." % fnum)
    o.append("Definition sniff_html_window_den : N := %d." % fden)
    o.append(comment("interpreter oracle about `re`: what \\s matches, what `.` does not match, and what matches each letter "
                     "of encoding / meta / charset under re.I, for bytes patterns and for str patterns"))
    o.append("Definition re_ws_bytes : list N := %s." % lstN_(resem["ws_bytes"]))
    o.append("Definition re_ws_str : list N := %s." % lstN_(resem["ws_str"]))
    o.append("Definition re_dot_excludes_bytes : list N := %s." % lstN_(resem["dot_bytes"]))
    o.append("Definition re_dot_excludes_str : list N := %s." % lstN_(resem["dot_str"]))
    o.append("Definition re_ci_bytes : list (N * list N) := [" + "; ".join(
        "(%d, %s)" % (l, lstN_(cs)) for l, cs in resem["ci_bytes"]) + "].")
    o.append("Definition re_ci_str : list (N * list N) := [" + "; ".join(
        "(%d, %s)" % (l, lstN_(cs)) for l, cs in resem["ci_str"]) + "].")
    o.append("")
    text = "\n".join(o) + "\n"
    changed = write_if_changed(os.path.join(OUT, "T_C07.v"), text)
    import hashlib
    print("T_C07.v", "changed" if changed else "unchanged", hashlib.sha256(text.encode()).hexdigest()[:16])


if __name__ == "__main__":
    main()
