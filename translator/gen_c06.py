#!/venv/bin/python
"""C06 translator: constants and exception structure of the constructor path, read from the *source*
of VERIF_REPO (AST, not the imported module) and from the interpreter, written to coq/Gen/T_C06.v.

What is read:
  * BeautifulSoupHTMLParser.handle_charref: the hexadecimal prefixes, the decimal guard
    (`len(digits) > K` -> sentinel) or its absence (plain `int(name)`), the single-byte threshold, the
    fallback encoding, the replacement character, and the exception classes its two `try` blocks catch;
  * HTMLParserTreeBuilder.feed: the exception classes it maps to ParserRejectedMarkup;
  * BeautifulSoup.__init__: the short-markup threshold and the two characters that switch the heuristics
    off, and the exception class the retry loop catches;
  * BeautifulSoup._markup_is_url / _markup_resembles_filename: every literal they test, and the error
    handler of the str -> bytes conversion;
  * UnicodeDammit._convert_from / _codec: the exception classes caught around the codec calls;
  * every `raise` statement of the functions the constructor can reach (REACHABLE below);
  * sys.get_int_max_str_digits() of the interpreter that runs the implementation.
Fail-closed: any shape this reader does not recognise raises (the caller reports a broken tie).
"""
import ast, os, sys

from gen_tables import write_if_changed, coqstr, lstN, comment, REPO, OUT

EXC_ID = {"ParserRejectedMarkup": 0, "FeatureNotFound": 1, "TypeError": 2, "ValueError": 3, "AssertionError": 4,
          "OverflowError": 5, "UnicodeDecodeError": 6, "LookupError": 7, "Exception": 8, "NotImplementedError": 9,
          "ImportError": 10, "UnicodeEncodeError": 11, "UnicodeError": 12, "BaseException": 13, "KeyError": 14,
          "IndexError": 15, "AttributeError": 16, "RuntimeError": 17, "StopIteration": 18}

# functions the constructor can reach with the html.parser builder (class.function per file)
REACHABLE = {
    "bs4/__init__.py": ["BeautifulSoup.__init__", "BeautifulSoup._markup_is_url", "BeautifulSoup._markup_resembles_filename",
                        "BeautifulSoup._feed", "BeautifulSoup.reset", "BeautifulSoup.string_container",
                        "BeautifulSoup.popTag", "BeautifulSoup.pushTag", "BeautifulSoup.endData",
                        "BeautifulSoup.object_was_parsed", "BeautifulSoup._linkage_fixer", "BeautifulSoup._popToTag",
                        "BeautifulSoup.handle_starttag", "BeautifulSoup.handle_endtag", "BeautifulSoup.handle_data"],
    "bs4/builder/_htmlparser.py": ["BeautifulSoupHTMLParser.__init__", "BeautifulSoupHTMLParser.error",
                                   "BeautifulSoupHTMLParser.handle_startendtag", "BeautifulSoupHTMLParser.handle_starttag",
                                   "BeautifulSoupHTMLParser.handle_endtag", "BeautifulSoupHTMLParser.handle_data",
                                   "BeautifulSoupHTMLParser.handle_charref", "BeautifulSoupHTMLParser.handle_entityref",
                                   "BeautifulSoupHTMLParser.handle_comment", "BeautifulSoupHTMLParser.handle_decl",
                                   "BeautifulSoupHTMLParser.unknown_decl", "BeautifulSoupHTMLParser.handle_pi",
                                   "HTMLParserTreeBuilder.__init__", "HTMLParserTreeBuilder.prepare_markup",
                                   "HTMLParserTreeBuilder.feed"],
    "bs4/dammit.py": ["EncodingDetector.__init__", "EncodingDetector._usable", "EncodingDetector.encodings",
                      "EncodingDetector.strip_byte_order_mark", "EncodingDetector.find_declared_encoding",
                      "UnicodeDammit.__init__", "UnicodeDammit._convert_from", "UnicodeDammit._to_unicode",
                      "UnicodeDammit.find_codec", "UnicodeDammit._codec"],
    "bs4/builder/__init__.py": ["TreeBuilder.__init__", "TreeBuilder.initialize_soup", "TreeBuilder.reset",
                                "TreeBuilder.can_be_empty_element", "TreeBuilder._replace_cdata_list_attribute_values",
                                "TreeBuilder.set_up_substitutions", "HTMLTreeBuilder.set_up_substitutions",
                                "DetectsXMLParsedAsHTML._initialize_xml_detector",
                                "DetectsXMLParsedAsHTML._document_might_be_xml",
                                "DetectsXMLParsedAsHTML._root_tag_encountered"],
}


class Broken(RuntimeError):
    pass


def need(cond, what):
    if not cond:
        raise Broken("gen_c06: cannot read " + what)


def parse(rel):
    path = os.path.join(REPO, rel)
    return ast.parse(open(path, encoding="utf-8").read(), filename=path)


def functions(tree):
    """{ 'Class.func' : FunctionDef } for the top-level classes of a module."""
    out = {}
    for node in tree.body:
        if isinstance(node, ast.ClassDef):
            for sub in node.body:
                if isinstance(sub, (ast.FunctionDef, ast.AsyncFunctionDef)):
                    out[node.name + "." + sub.name] = sub
    return out


def exc_name(node):
    """Exception class named by the expression of a `raise` / `except`."""
    if node is None:
        return "(re-raise)"
    if isinstance(node, ast.Call):
        node = node.func
    if isinstance(node, ast.Name):
        return node.id
    if isinstance(node, ast.Attribute):
        return node.attr
    raise Broken("gen_c06: unrecognised exception expression " + ast.dump(node)[:80])


def exc_id(name):
    need(name in EXC_ID, "exception class %r (not in the translator's numbering)" % name)
    return EXC_ID[name]


def handler_names(h):
    if h.type is None:
        return ["BaseException"]
    if isinstance(h.type, ast.Tuple):
        return [exc_name(e) for e in h.type.elts]
    return [exc_name(h.type)]


def const(node, typ=None):
    need(isinstance(node, ast.Constant) and (typ is None or isinstance(node.value, typ)), "a literal at line %s" % getattr(node, "lineno", "?"))
    return node.value


def is_call(node, attr=None, name=None):
    if not isinstance(node, ast.Call):
        return False
    if attr is not None:
        return isinstance(node.func, ast.Attribute) and node.func.attr == attr
    return isinstance(node.func, ast.Name) and node.func.id == name


def int_value(node):
    """An int literal, possibly negated."""
    if isinstance(node, ast.UnaryOp) and isinstance(node.op, ast.USub):
        return -const(node.operand, int)
    return const(node, int)


# ------------------------------------------------------------------------------------------ handle_charref
def read_charref(fn):
    body = [s for s in fn.body if not (isinstance(s, ast.Expr) and isinstance(s.value, ast.Constant))]  # drop the docstring
    need(body and isinstance(body[0], ast.If), "handle_charref: the prefix if-chain")
    prefixes = []
    node = body[0]
    while True:
        t = node.test
        need(is_call(t, attr="startswith") and isinstance(t.func.value, ast.Name) and len(t.args) == 1,
             "handle_charref: name.startswith(<prefix>)")
        p = const(t.args[0], str)
        need(len(node.body) == 1 and isinstance(node.body[0], ast.Assign), "handle_charref: hex branch assignment")
        v = node.body[0].value
        need(is_call(v, name="int") and len(v.args) == 2 and const(v.args[1], int) == 16
             and is_call(v.args[0], attr="lstrip") and const(v.args[0].args[0], str) == p and len(p) == 1,
             "handle_charref: int(name.lstrip(%r), 16)" % p)
        prefixes.append(ord(p))
        need(len(node.orelse) >= 1, "handle_charref: decimal branch")
        if len(node.orelse) == 1 and isinstance(node.orelse[0], ast.If) and is_call(node.orelse[0].test, attr="startswith"):
            node = node.orelse[0]
            continue
        dec = node.orelse
        break
    # decimal branch: either `real_name = int(name)` or the guarded form
    guard = None
    if len(dec) == 1 and isinstance(dec[0], ast.Assign) and is_call(dec[0].value, name="int") and len(dec[0].value.args) == 1 \
            and isinstance(dec[0].value.args[0], ast.Name):
        guard = None
    else:
        need(len(dec) == 2 and isinstance(dec[0], ast.Assign) and is_call(dec[0].value, attr="lstrip")
             and const(dec[0].value.args[0], str) == "0" and isinstance(dec[1], ast.If),
             "handle_charref: digits = name.lstrip('0'); if len(digits) > K: ... else: ...")
        dn = dec[0].targets[0].id
        t = dec[1].test
        need(isinstance(t, ast.Compare) and len(t.ops) == 1 and isinstance(t.ops[0], ast.Gt) and is_call(t.left, name="len")
             and isinstance(t.left.args[0], ast.Name) and t.left.args[0].id == dn, "handle_charref: len(digits) > K")
        k = const(t.comparators[0], int)
        need(len(dec[1].body) == 1 and isinstance(dec[1].body[0], ast.Assign), "handle_charref: sentinel assignment")
        sent = const(dec[1].body[0].value, int)
        e = dec[1].orelse
        need(len(e) == 1 and isinstance(e[0], ast.Assign) and is_call(e[0].value, name="int") and len(e[0].value.args) == 1,
             "handle_charref: int(digits or '0')")
        a = e[0].value.args[0]
        need(isinstance(a, ast.BoolOp) and isinstance(a.op, ast.Or) and isinstance(a.values[0], ast.Name) and a.values[0].id == dn
             and const(a.values[1], str) == "0", "handle_charref: int(digits or '0')")
        need(k >= 0 and sent >= 0, "handle_charref: guard constants")
        guard = (k, sent)
    # the rest
    limit = None
    fallback = None
    repl = None
    catches = []
    for n in ast.walk(fn):
        if isinstance(n, ast.If) and isinstance(n.test, ast.Compare) and isinstance(n.test.left, ast.Name) \
                and n.test.left.id == "real_name" and len(n.test.ops) == 1:
            need(isinstance(n.test.ops[0], ast.Lt) and limit is None, "handle_charref: real_name < N")
            limit = const(n.test.comparators[0], int)
        if isinstance(n, ast.For) and isinstance(n.iter, ast.Tuple):
            need(len(n.iter.elts) == 2 and fallback is None, "handle_charref: (original_encoding, fallback) tuple")
            need(isinstance(n.iter.elts[0], ast.Attribute) and n.iter.elts[0].attr == "original_encoding",
                 "handle_charref: first encoding is soup.original_encoding")
            fallback = const(n.iter.elts[1], str)
        if isinstance(n, ast.BoolOp) and isinstance(n.op, ast.Or) and len(n.values) == 2 and isinstance(n.values[1], ast.Constant) \
                and isinstance(n.values[1].value, str) and n.values[1].value != "0":
            need(repl is None and len(n.values[1].value) == 1, "handle_charref: data or <replacement>")
            repl = ord(n.values[1].value)
        if isinstance(n, ast.Try):
            need(len(n.handlers) == 1 and not n.orelse and not n.finalbody, "handle_charref: try/except shape")
            catches.append((n.lineno, sorted(exc_id(x) for x in handler_names(n.handlers[0]))))
    catches = [c for _, c in sorted(catches)]     # source order: the single-byte decode, then chr()
    need(limit is not None and fallback is not None and repl is not None and len(catches) == 2, "handle_charref: constants")
    need(fallback == "windows-1252", "handle_charref: fallback encoding other than windows-1252 (the model uses the cp1252 table)")
    return {"prefixes": prefixes, "guard": guard, "limit": limit, "repl": repl, "catch_decode": catches[0], "catch_chr": catches[1]}


# ------------------------------------------------------------------------------------------ feed
def read_feed(fn):
    tries = [n for n in ast.walk(fn) if isinstance(n, ast.Try)]
    need(len(tries) == 1 and len(tries[0].handlers) == 1, "HTMLParserTreeBuilder.feed: one try with one handler")
    h = tries[0].handlers[0]
    need(len(h.body) == 1 and isinstance(h.body[0], ast.Raise) and exc_name(h.body[0].exc) == "ParserRejectedMarkup",
         "HTMLParserTreeBuilder.feed: the handler raises ParserRejectedMarkup")
    calls = []
    for s in tries[0].body:
        need(isinstance(s, ast.Expr) and isinstance(s.value, ast.Call) and isinstance(s.value.func, ast.Attribute),
             "HTMLParserTreeBuilder.feed: try body statements are method calls")
        calls.append(s.value.func.attr)
    need(calls == ["feed", "close"], "HTMLParserTreeBuilder.feed: try body is parser.feed(); parser.close()")
    return sorted(exc_id(x) for x in handler_names(h))


# ------------------------------------------------------------------------------------------ constructor
def read_ctor(fn):
    limit = None
    incl = None
    chars_b, chars_s = [], []
    for n in ast.walk(fn):
        if isinstance(n, ast.Compare) and is_call(n.left, name="len") and isinstance(n.left.args[0], ast.Name) \
                and n.left.args[0].id == "markup" and len(n.ops) == 1 and isinstance(n.comparators[0], ast.Constant):
            need(limit is None and isinstance(n.ops[0], (ast.LtE, ast.Lt)), "constructor: len(markup) <= N")
            limit = const(n.comparators[0], int)
            incl = isinstance(n.ops[0], ast.LtE)
        if isinstance(n, ast.Compare) and len(n.ops) == 1 and isinstance(n.ops[0], ast.NotIn) and isinstance(n.left, ast.Constant) \
                and isinstance(n.comparators[0], ast.Name) and n.comparators[0].id == "markup":
            v = n.left.value
            need(isinstance(v, (bytes, str)) and len(v) == 1, "constructor: single-character `not in markup` tests")
            (chars_b if isinstance(v, bytes) else chars_s).append(v[0] if isinstance(v, bytes) else ord(v))
    need(limit is not None and chars_b and sorted(chars_b) == sorted(chars_s), "constructor: short-markup condition")
    # the retry loop: for ... in prepare_markup(...): reset(); initialize_soup(); try: _feed(); success; break except X
    loops = [n for n in ast.walk(fn) if isinstance(n, ast.For) and is_call(n.iter, attr="prepare_markup")]
    need(len(loops) == 1, "constructor: the loop over prepare_markup()")
    lp = loops[0]
    need(isinstance(lp.target, ast.Tuple) and [getattr(e, "attr", None) for e in lp.target.elts] ==
         ["markup", "original_encoding", "declared_html_encoding", "contains_replacement_characters"],
         "constructor: the four attributes assigned by the loop")
    need(len(lp.body) == 3 and is_call(getattr(lp.body[0], "value", None), attr="reset")
         and is_call(getattr(lp.body[1], "value", None), attr="initialize_soup") and isinstance(lp.body[2], ast.Try),
         "constructor: reset(); initialize_soup(); try")
    tr = lp.body[2]
    need(len(tr.handlers) == 1 and is_call(getattr(tr.body[0], "value", None), attr="_feed")
         and isinstance(tr.body[-1], ast.Break), "constructor: try: _feed() ... break")
    hb = [s for s in tr.handlers[0].body if not isinstance(s, ast.Pass)]
    need(len(hb) == 1 and is_call(getattr(hb[0], "value", None), attr="append"), "constructor: the handler collects the rejection")
    catch = sorted(exc_id(x) for x in handler_names(tr.handlers[0]))
    return {"limit": limit, "incl": incl, "chars": sorted(chars_b), "catch": catch}


def read_is_url(fn):
    tb, ts = [], []
    sp_b = sp_s = None
    for n in ast.walk(fn):
        if isinstance(n, ast.Tuple) and n.elts and all(isinstance(e, ast.Constant) for e in n.elts):
            vals = [e.value for e in n.elts]
            if all(isinstance(v, bytes) for v in vals):
                tb.append(vals)
            elif all(isinstance(v, str) for v in vals):
                ts.append(vals)
        if isinstance(n, ast.Compare) and len(n.ops) == 1 and isinstance(n.ops[0], ast.NotIn) and isinstance(n.left, ast.Constant):
            if isinstance(n.left.value, bytes):
                sp_b = n.left.value
            elif isinstance(n.left.value, str):
                sp_s = n.left.value
    need(len(tb) == 1 and len(ts) == 1 and sp_b is not None and sp_s is not None, "_markup_is_url: prefix tuples and separator")
    need([list(x) for x in tb[0]] == [[ord(c) for c in x] for x in ts[0]] and list(sp_b) == [ord(c) for c in sp_s],
         "_markup_is_url: the bytes and str branches test the same literals")
    return {"prefixes": [list(x) for x in tb[0]], "sep": list(sp_b)}


def read_filename(fn):
    enc = None
    exts = None
    special = None
    subs = []
    starts = None
    rfind = None
    allowed = None
    for n in ast.walk(fn):
        if is_call(n, attr="encode"):
            need(enc is None and 1 <= len(n.args) <= 2 and not n.keywords, "_markup_resembles_filename: markup.encode(...)")
            codec = const(n.args[0], str)
            need(codec.lower().replace("-", "").replace("_", "") == "utf8", "_markup_resembles_filename: encodes to UTF-8")
            enc = const(n.args[1], str) if len(n.args) == 2 else "strict"
        if isinstance(n, ast.Assign) and isinstance(n.value, ast.List) and n.value.elts and all(
                isinstance(e, ast.Constant) and isinstance(e.value, bytes) for e in n.value.elts):
            need(exts is None, "_markup_resembles_filename: one extension list")
            exts = [list(e.value) for e in n.value.elts]
        if isinstance(n, ast.Compare) and len(n.ops) == 1 and isinstance(n.ops[0], ast.In) and isinstance(n.comparators[0], ast.Constant) \
                and isinstance(n.comparators[0].value, bytes) and isinstance(n.left, ast.Name):
            need(special is None, "_markup_resembles_filename: one special-character set")
            special = list(n.comparators[0].value)
        if isinstance(n, ast.Compare) and len(n.ops) == 1 and isinstance(n.ops[0], ast.In) and isinstance(n.left, ast.Constant) \
                and isinstance(n.left.value, bytes):
            subs.append((n.lineno, list(n.left.value)))
        if is_call(n, attr="startswith") and n.args and isinstance(n.args[0], ast.Constant) and isinstance(n.args[0].value, bytes):
            need(starts is None, "_markup_resembles_filename: one startswith test")
            starts = list(n.args[0].value)
        if is_call(n, attr="rfind"):
            need(rfind is None, "_markup_resembles_filename: one rfind")
            rfind = list(const(n.args[0], bytes))
        if isinstance(n, ast.Compare) and len(n.ops) == 1 and isinstance(n.ops[0], ast.NotIn) and isinstance(n.comparators[0], ast.Tuple):
            need(allowed is None, "_markup_resembles_filename: one position tuple")
            allowed = [int_value(e) for e in n.comparators[0].elts]
    need(None not in (enc, exts, special, starts, rfind, allowed) and subs, "_markup_resembles_filename: literals")
    need(len(rfind) == 1 and all(a >= -1 for a in allowed), "_markup_resembles_filename: rfind of one byte")
    ident = {"strict": 0, "surrogatepass": 1, "replace": 2, "ignore": 3}
    need(enc in ident, "_markup_resembles_filename: error handler %r" % enc)
    return {"errors": ident[enc], "exts": exts, "special": special, "subs": [s for _, s in sorted(subs)], "starts": starts,
            "rfind": rfind[0], "allowed": allowed}


def read_catches(fn, what):
    tries = [n for n in ast.walk(fn) if isinstance(n, ast.Try)]
    need(len(tries) == 1 and len(tries[0].handlers) == 1, what + ": one try with one handler")
    return sorted(exc_id(x) for x in handler_names(tries[0].handlers[0]))


def main():
    trees = {rel: parse(rel) for rel in REACHABLE}
    funcs = {rel: functions(t) for rel, t in trees.items()}
    sites = []
    for rel, names in REACHABLE.items():
        for name in names:
            need(name in funcs[rel], "function %s in %s" % (name, rel))
            found = []
            for n in ast.walk(funcs[rel][name]):
                if isinstance(n, ast.Raise):
                    need(n.exc is not None, "a bare re-raise in %s" % name)
                    found.append((n.lineno, name, exc_id(exc_name(n.exc))))
            sites += [(f, e) for _, f, e in sorted(found)]
    hp = funcs["bs4/builder/_htmlparser.py"]
    top = funcs["bs4/__init__.py"]
    dm = funcs["bs4/dammit.py"]
    ch = read_charref(hp["BeautifulSoupHTMLParser.handle_charref"])
    feed = read_feed(hp["HTMLParserTreeBuilder.feed"])
    ctor = read_ctor(top["BeautifulSoup.__init__"])
    url = read_is_url(top["BeautifulSoup._markup_is_url"])
    fnm = read_filename(top["BeautifulSoup._markup_resembles_filename"])
    conv = read_catches(dm["UnicodeDammit._convert_from"], "UnicodeDammit._convert_from")
    codec = read_catches(dm["UnicodeDammit._codec"], "UnicodeDammit._codec")
    digits = sys.get_int_max_str_digits() if hasattr(sys, "get_int_max_str_digits") else 0

    o = ["(* GENERATED by translator/gen_c06.py from the library working tree - do not edit *)",
         "From Coq Require Import List NArith ZArith.",
         "From BS Require Import Base.Sexp Base.Types.",
         "Import ListNotations.",
         "Open Scope N_scope.",
         "",
         comment("exception classes: " + ", ".join("%d=%s" % (v, k) for k, v in sorted(EXC_ID.items(), key=lambda kv: kv[1]))),
         comment("every `raise` statement of the functions the constructor reaches with the html.parser builder: (function, class)"),
         "Definition c06_raise_sites : list (list N * N) := [" + ";\n  ".join(
             "(%s, %d)" % (coqstr(f), e) for f, e in sites) + "].",
         comment("readable form: " + "; ".join("%s->%d" % (f, e) for f, e in sites)),
         "",
         comment("the exception classes caught: by the constructor's retry loop; by HTMLParserTreeBuilder.feed (mapped to ParserRejectedMarkup); "
                 "around the codec call in UnicodeDammit._convert_from; around codecs.lookup in UnicodeDammit._codec; "
                 "around the single-byte decode and around chr() in handle_charref"),
         "Definition c06_ctor_catches : list N := %s." % lstN(ctor["catch"]),
         "Definition c06_feed_maps : list N := %s." % lstN(feed),
         "Definition c06_convert_from_catches : list N := %s." % lstN(conv),
         "Definition c06_codec_catches : list N := %s." % lstN(codec),
         "Definition c06_charref_decode_catches : list N := %s." % lstN(ch["catch_decode"]),
         "Definition c06_charref_chr_catches : list N := %s." % lstN(ch["catch_chr"]),
         "",
         comment("handle_charref: hexadecimal prefixes; decimal guard (Some (K, sentinel): more than K significant digits -> sentinel, "
                 "None: plain int(name)); values below the limit are first decoded as single bytes; replacement character"),
         "Definition c06_charref_hex_prefixes : list N := %s." % lstN(ch["prefixes"]),
         "Definition c06_charref_guard : option (nat * N) := %s." % (
             "None" if ch["guard"] is None else "Some (%d%%nat, %d)" % ch["guard"]),
         "Definition c06_charref_byte_limit : N := %d." % ch["limit"],
         "Definition c06_replacement_char : N := %d." % ch["repl"],
         comment("sys.get_int_max_str_digits() of the interpreter running the implementation (0 = no limit)"),
         "Definition c06_int_max_str_digits : nat := %d%%nat." % digits,
         "",
         comment("constructor: the heuristics run when len(markup) <= / < limit and none of these characters occurs"),
         "Definition c06_short_markup_limit : nat := %d%%nat." % ctor["limit"],
         "Definition c06_short_markup_inclusive : bool := %s." % ("true" if ctor["incl"] else "false"),
         "Definition c06_short_markup_excluded : list N := %s." % lstN(ctor["chars"]),
         comment("_markup_is_url: prefixes, and the character that must be absent"),
         "Definition c06_url_prefixes : list (list N) := [%s]." % "; ".join(lstN(p) for p in url["prefixes"]),
         "Definition c06_url_separator : list N := %s." % lstN(url["sep"]),
         comment("_markup_resembles_filename: error handler of markup.encode('utf8', ...) (0 strict, 1 surrogatepass, 2 replace, 3 ignore); "
                 "extensions; special bytes; forbidden substrings; forbidden prefix; the byte searched from the right and its allowed positions (-1 = absent)"),
         "Definition c06_filename_encode_errors : N := %d." % fnm["errors"],
         "Definition c06_filename_extensions : list (list N) := [%s]." % "; ".join(lstN(p) for p in fnm["exts"]),
         "Definition c06_filename_special : list N := %s." % lstN(fnm["special"]),
         "Definition c06_filename_forbidden_substrings : list (list N) := [%s]." % "; ".join(lstN(p) for p in fnm["subs"]),
         "Definition c06_filename_forbidden_prefix : list N := %s." % lstN(fnm["starts"]),
         "Definition c06_filename_rfind_byte : N := %d." % fnm["rfind"],
         "Definition c06_filename_rfind_allowed : list Z := [%s]." % "; ".join("(%d)%%Z" % a for a in fnm["allowed"]),
         ""]
    text = "\n".join(o) + "\n"
    import hashlib
    changed = write_if_changed(os.path.join(OUT, "T_C06.v"), text)
    print("T_C06.v", "changed" if changed else "unchanged", hashlib.sha256(text.encode()).hexdigest()[:16])


if __name__ == "__main__":
    main()
