#!/venv/bin/python
"""Translator (data half of the tie): import bs4 from /repo's working tree and print every
table / constant the Coq theorems depend on as Gallina literals (coq/Gen/Tables.v), plus
oracle data about the interpreter's standard library (coq/Gen/Stdlib.v).

Fail-closed: anything that cannot be read raises, the caller treats that as a broken tie.
Files are rewritten only when their content changes (so `make` re-proves only then).
"""
import os, sys, hashlib

REPO = os.environ.get("VERIF_REPO", "/repo")
sys.path.insert(0, REPO)
OUT = os.path.join(os.path.dirname(os.path.abspath(__file__)), "..", "coq", "Gen")


def N(n):
    assert isinstance(n, int) and n >= 0
    return str(n)


def lstN(xs):
    return "[" + "; ".join(N(x) for x in xs) + "]"


def s2l(s):
    """str -> list of code points; bytes -> list of byte values."""
    if isinstance(s, bytes):
        return list(s)
    return [ord(c) for c in s]


def coqstr(s):
    return lstN(s2l(s))


def comment(s):
    return "(* " + s.replace("*)", "* )").replace("(*", "( *") + " *)"


def chunked_list(items, per_line=4):
    lines = []
    for i in range(0, len(items), per_line):
        lines.append("  " + "; ".join(items[i:i + per_line]))
    return "[\n" + ";\n".join(lines) + "\n]"


def write_if_changed(path, text):
    old = None
    if os.path.exists(path):
        old = open(path, encoding="utf-8").read()
    if old != text:
        with open(path, "w", encoding="utf-8") as f:
            f.write(text)
        return True
    return False


# ------------------------------------------------------------------------------------------
def gen_registry(out):
    import bs4
    from bs4.builder import builder_registry
    from bs4.builder._htmlparser import HTMLParserTreeBuilder
    builders_newest_first = list(builder_registry.builders)
    regs = list(reversed(builders_newest_first))  # registration order, oldest first
    feats = sorted({f for b in regs for f in b.features} | set(bs4.BeautifulSoup.DEFAULT_BUILDER_FEATURES))
    fid = {f: i for i, f in enumerate(feats)}
    # cross-check the per-feature index against what `register` would have produced
    out.append(comment("C20: shipped builders in registration order; features interned: "
                       + ", ".join(f"{i}={f}" for f, i in fid.items())))
    out.append(comment("builder ids: " + ", ".join(f"{i}={b.__name__}" for i, b in enumerate(regs))))
    out.append("Definition shipped_registrations : list (N * list N) := [" + "; ".join(
        "(%d, %s)" % (i, lstN([fid[f] for f in b.features])) for i, b in enumerate(regs)) + "].")
    out.append("Definition default_builder_features : list N := "
               + lstN([fid[f] for f in bs4.BeautifulSoup.DEFAULT_BUILDER_FEATURES]) + ".")
    out.append("Definition htmlparser_builder_id : N := %d." % regs.index(HTMLParserTreeBuilder))
    out.append("")


def gen_dammit(out):
    import inspect, re as _re
    from bs4.dammit import UnicodeDammit, EncodingDetector
    out.append(comment("C19 / C07: UnicodeDammit tables"))
    items = []
    for k, v in sorted(UnicodeDammit.MS_CHARS.items()):
        assert isinstance(k, bytes) and len(k) == 1
        if type(v) is tuple:
            assert len(v) == 2 and all(isinstance(x, str) for x in v)
            items.append("(%d, MsPair %s %s)" % (k[0], coqstr(v[0]), coqstr(v[1])))
        else:
            assert isinstance(v, str)
            items.append("(%d, MsPlain %s)" % (k[0], coqstr(v)))
    out.append("Definition ms_chars : list (N * ms_entry) := " + chunked_list(items, 2) + ".")
    items = []
    for k, v in sorted(UnicodeDammit.MS_CHARS_TO_ASCII.items()):
        assert isinstance(k, bytes) and len(k) == 1 and isinstance(v, str)
        items.append("(%d, %s)" % (k[0], lstN(list(v.encode()))))   # the code calls .encode()
    out.append("Definition ms_chars_to_ascii : list (N * list N) := " + chunked_list(items, 4) + ".")
    items = []
    for k, v in sorted(UnicodeDammit.WINDOWS_1252_TO_UTF8.items()):
        assert isinstance(k, int) and isinstance(v, bytes)
        items.append("(%d, %s)" % (k, lstN(list(v))))
    out.append("Definition windows_1252_to_utf8 : list (N * list N) := " + chunked_list(items, 4) + ".")
    mm = UnicodeDammit.MULTIBYTE_MARKERS_AND_SIZES
    out.append("Definition multibyte_markers : list (N * N * nat) := [" + "; ".join(
        "(%d, %d, %d%%nat)" % (a, b, c) for a, b, c in mm) + "].")
    out.append("Definition first_multibyte_marker : N := %d." % UnicodeDammit.FIRST_MULTIBYTE_MARKER)
    out.append("Definition last_multibyte_marker : N := %d." % UnicodeDammit.LAST_MULTIBYTE_MARKER)
    out.append("Definition encodings_with_smart_quotes : list (list N) := [" + "; ".join(
        coqstr(e) for e in UnicodeDammit.ENCODINGS_WITH_SMART_QUOTES) + "].")
    # the smart-quote byte range is a local regex inside _convert_from: read it from the source
    src = inspect.getsource(UnicodeDammit._convert_from)
    m = _re.search(r'smart_quotes_re\s*=\s*b"\(\[\\x([0-9a-fA-F]{2})-\\x([0-9a-fA-F]{2})\]\)"', src)
    if not m:
        raise RuntimeError("cannot find the smart-quote byte range in UnicodeDammit._convert_from")
    out.append("Definition smart_quotes_lo : N := %d." % int(m.group(1), 16))
    out.append("Definition smart_quotes_hi : N := %d." % int(m.group(2), 16))
    out.append("")


def gen_entities(out):
    from bs4.dammit import EntitySubstitution as ES
    out.append(comment("C09 / C04 / C19: HTML entity tables as bs4 derives them"))
    items = ["(%s, %s)" % (coqstr(k), coqstr(v)) for k, v in sorted(ES.HTML_ENTITY_TO_CHARACTER.items())]
    out.append("Definition html_entity_to_character : list (list N * list N) := " + chunked_list(items, 3) + ".")
    out.append("")


def strset(xs):
    return "[" + "; ".join(coqstr(x) for x in sorted(xs)) + "]"


def gen_builder(out):
    import bs4
    from bs4.builder import HTMLTreeBuilder, TreeBuilder
    from bs4.builder._htmlparser import HTMLParserTreeBuilder
    from bs4 import element as E
    out.append(comment("C03 / C04 / C17: HTMLTreeBuilder tables"))
    t = HTMLTreeBuilder.DEFAULT_CDATA_LIST_ATTRIBUTES
    assert all(isinstance(k, str) and all(isinstance(a, str) for a in v) for k, v in t.items())
    out.append("Definition default_cdata_list_attributes : list (list N * list (list N)) := [" + ";\n  ".join(
        "(%s, %s)" % (coqstr(k), strset(v)) for k, v in sorted(t.items())) + "].")
    out.append("Definition default_empty_element_tags : list (list N) := " + strset(HTMLTreeBuilder.DEFAULT_EMPTY_ELEMENT_TAGS) + ".")
    out.append("Definition default_preserve_whitespace_tags : list (list N) := " + strset(HTMLTreeBuilder.DEFAULT_PRESERVE_WHITESPACE_TAGS) + ".")
    classes = {E.NavigableString: 0, E.CData: 1, E.ProcessingInstruction: 2, E.XMLProcessingInstruction: 3,
               E.Comment: 4, E.Declaration: 5, E.Doctype: 6, E.Stylesheet: 7, E.Script: 8,
               E.TemplateString: 9, E.RubyTextString: 10, E.RubyParenthesisString: 11}
    out.append(comment("string classes: " + ", ".join("%d=%s" % (i, c.__name__) for c, i in classes.items())))
    out.append("Definition default_string_containers : list (list N * N) := [" + "; ".join(
        "(%s, %d)" % (coqstr(k), classes[v]) for k, v in sorted(HTMLTreeBuilder.DEFAULT_STRING_CONTAINERS.items())) + "].")
    out.append("Definition ascii_spaces : list N := " + lstN(s2l(bs4.BeautifulSoup.ASCII_SPACES)) + ".")
    out.append("Definition root_tag_name : list N := " + coqstr(bs4.BeautifulSoup.ROOT_TAG_NAME) + ".")
    out.append("Definition string_class_affixes : list (N * (list N * list N)) := [" + "; ".join(
        "(%d, (%s, %s))" % (i, coqstr(c.PREFIX), coqstr(c.SUFFIX)) for c, i in classes.items()) + "].")
    out.append("")


GENERATORS = [gen_registry, gen_dammit, gen_builder]
ENTITY_GENERATORS = [gen_entities]


def gen_stdlib(out):
    """Oracle data about the interpreter's standard library (not about /repo)."""
    out.append(comment("single-byte decoders of the smart-quote carrier encodings: byte -> Some code point | None"))
    for name, codec in (("cp1252", "windows-1252"), ("latin1", "iso-8859-1"), ("latin2", "iso-8859-2")):
        items = []
        for b in range(256):
            try:
                c = bytes([b]).decode(codec)
                assert len(c) == 1
                items.append("Some %d" % ord(c))
            except UnicodeDecodeError:
                items.append("None")
        out.append("Definition %s_table : list (option N) := " % name + chunked_list(items, 16) + ".")
    import re as _re
    ws = [cp for cp in range(0x110000) if _re.match(r"\s", chr(cp))]
    assert ws == [cp for cp in range(0x110000) if chr(cp).isspace()]
    out.append(comment("code points matched by re's \\s on str (= str.isspace(), what str.strip() removes)"))
    out.append("Definition py_whitespace : list N := " + lstN(ws) + ".")
    out.append("")


def main():
    out = ["(* GENERATED by translator/gen_tables.py from the library's working tree — do not edit *)",
           "From Coq Require Import List NArith ZArith.",
           "From BS Require Import Base.Sexp Base.Types.",
           "Import ListNotations.",
           "Open Scope N_scope.",
           ""]
    header = list(out)
    for g in GENERATORS:
        g(out)
    os.makedirs(OUT, exist_ok=True)
    for fname, gens, o in (("Tables.v", None, out), ("Entities.v", ENTITY_GENERATORS, list(header)),
                           ("Stdlib.v", [gen_stdlib], list(header))):
        if gens:
            for g in gens:
                g(o)
        text = "\n".join(o) + "\n"
        changed = write_if_changed(os.path.join(OUT, fname), text)
        print(fname, "changed" if changed else "unchanged", hashlib.sha256(text.encode()).hexdigest()[:16])
    # per-property translators: translator/gen_cNN.py, each with main() writing coq/Gen/T_CNN.v (fail-closed)
    import glob, importlib
    here = os.path.dirname(os.path.abspath(__file__))
    if here not in sys.path:
        sys.path.insert(0, here)
    failed = []
    shared = {"gen_cd": ["gen_c07", "gen_c08", "gen_c19"]}   # translators several properties depend on
    for path in sorted(glob.glob(os.path.join(here, "gen_c[0-9][0-9].py"))) + [os.path.join(here, "gen_cd.py")]:
        name = os.path.basename(path)[:-3]
        try:
            mod = importlib.import_module(name)
            mod.main()
        except Exception as e:       # fail-closed per property: the check of that property reports a broken tie
            import traceback
            for name in shared.get(name, [name]):
                failed.append(name)
                print("TRANSLATOR-FAILED %s: %s: %s" % (name, type(e).__name__, str(e)[:300]))
            traceback.print_exc()
    if failed:
        print("TRANSLATOR-FAILED-LIST " + " ".join(failed))


if __name__ == "__main__":
    main()
