#!/venv/bin/python
"""Source fingerprints of the functions a hand-written model follows (docstring-stripped AST dump, sha256).
`python translator/fingerprints.py --lock` rewrites translator/fingerprints.lock.json from the current source
(done by hand, after the model has been re-aligned with a changed function). The checks never write the lock file:
they compare, record drift in the evidence, and run the drifted property's correspondence with the thorough budget."""
import ast, hashlib, importlib, inspect, json, os, sys, textwrap

REPO = os.environ.get("VERIF_REPO", "/repo")
HERE = os.path.dirname(os.path.abspath(__file__))
LOCK = os.path.join(HERE, "fingerprints.lock.json")

MODELLED = {
    "C01": ["bs4.element:PageElement.setup", "bs4.element:PageElement.extract", "bs4.element:PageElement._last_descendant",
            "bs4.element:Tag._insert", "bs4.element:Tag.index", "bs4.element:PageElement.decompose",
            "bs4.element:PageElement.next_elements", "bs4.element:PageElement.previous_elements",
            "bs4.element:PageElement.next_siblings", "bs4.element:PageElement.previous_siblings",
            "bs4.element:PageElement.parents", "bs4.element:Tag.descendants",
            "bs4:BeautifulSoup.object_was_parsed", "bs4:BeautifulSoup._linkage_fixer"],
    "C02": ["bs4.element:Tag.insert", "bs4.element:Tag._insert", "bs4.element:Tag.append", "bs4.element:Tag.extend",
            "bs4.element:PageElement.insert_before", "bs4.element:PageElement.insert_after",
            "bs4.element:PageElement.replace_with", "bs4.element:PageElement.wrap", "bs4.element:Tag.unwrap",
            "bs4.element:Tag.clear", "bs4.element:Tag.smooth", "bs4.element:Tag._smooth_contents",
            "bs4.element:PageElement.extract", "bs4.element:PageElement.decompose"],
    "C03": ["bs4:BeautifulSoup.reset", "bs4:BeautifulSoup.pushTag", "bs4:BeautifulSoup.popTag", "bs4:BeautifulSoup._popToTag",
            "bs4:BeautifulSoup.handle_starttag", "bs4:BeautifulSoup.handle_endtag", "bs4:BeautifulSoup.handle_data",
            "bs4:BeautifulSoup.endData", "bs4:BeautifulSoup.string_container", "bs4:BeautifulSoup.object_was_parsed",
            "bs4:BeautifulSoup._feed", "bs4.builder:TreeBuilder.can_be_empty_element"],
    "C17": ["bs4.builder:TreeBuilder._replace_cdata_list_attribute_values", "bs4.element:HTMLAttributeDict.__setitem__",
            "bs4.element:XMLAttributeDict.__setitem__", "bs4.builder._htmlparser:BeautifulSoupHTMLParser.handle_starttag"],
    "C19": ["bs4.dammit:UnicodeDammit._sub_ms_char", "bs4.dammit:UnicodeDammit._convert_from", "bs4.dammit:UnicodeDammit.detwingle"],
    "C20": ["bs4.builder:TreeBuilderRegistry.register", "bs4.builder:TreeBuilderRegistry.lookup"],
}


def _strip_docstrings(node):
    for n in ast.walk(node):
        if isinstance(n, (ast.FunctionDef, ast.AsyncFunctionDef, ast.ClassDef, ast.Module)):
            b = n.body
            if b and isinstance(b[0], ast.Expr) and isinstance(getattr(b[0], "value", None), ast.Constant) \
                    and isinstance(b[0].value.value, str):
                n.body = b[1:] or [ast.Pass()]
    return node


def fingerprint(spec):
    """sha256 of the docstring-stripped AST of module:qualname, or 'MISSING'."""
    if REPO not in sys.path:
        sys.path.insert(0, REPO)
    modname, qual = spec.split(":")
    try:
        obj = importlib.import_module(modname)
        for part in qual.split("."):
            obj = inspect.getattr_static(obj, part) if inspect.isclass(obj) else getattr(obj, part)
        if isinstance(obj, property):
            obj = obj.fget
        if isinstance(obj, (staticmethod, classmethod)):
            obj = obj.__func__
        src = textwrap.dedent(inspect.getsource(obj))
        tree = _strip_docstrings(ast.parse(src))
        return hashlib.sha256(ast.dump(tree, annotate_fields=False, include_attributes=False).encode()).hexdigest()[:20]
    except Exception as e:
        return "MISSING(%s)" % type(e).__name__


def current():
    return {p: {s: fingerprint(s) for s in specs} for p, specs in MODELLED.items()}


def drift(prop):
    """List of (spec, locked, now) for the functions of `prop` whose source changed since the model was aligned."""
    if prop not in MODELLED:
        return None
    lock = json.load(open(LOCK)) if os.path.exists(LOCK) else {}
    out = []
    for s in MODELLED[prop]:
        now = fingerprint(s)
        was = lock.get(prop, {}).get(s)
        if was != now:
            out.append((s, was, now))
    return out


if __name__ == "__main__":
    if "--lock" in sys.argv:
        json.dump(current(), open(LOCK, "w"), indent=1, sort_keys=True)
        print("locked", sum(len(v) for v in MODELLED.values()), "fingerprints")
    else:
        for p in MODELLED:
            print(p, drift(p))
