"""Generators of starting documents (as builder event lists) and of admissible editing calls,
shared by C01 / C02 (and later C05, C10, C12-C14 through edited trees)."""
import itertools
from treeimpl import RefForest


def shapes(n):
    """All ordered forests with n nodes, as nested tuples."""
    if n == 0:
        return [()]
    out = []
    for k in range(1, n + 1):          # size of the first tree
        for first_kids in shapes(k - 1):
            for rest in shapes(n - k):
                out.append((first_kids,) + rest)
    return out


def leaf_variants(forest, counter=None):
    """Each leaf may be a tag, a string, or a comment; inner nodes are tags. Yields event lists with
    unique labels."""
    def nodes(f):
        return sum(1 + nodes(k) for k in f)
    leaves = []

    def collect(f, path):
        for i, k in enumerate(f):
            if not k:
                leaves.append(path + (i,))
            else:
                collect(k, path + (i,))
    collect(forest, ())
    for combo in itertools.product("tsce" if len(leaves) <= 2 else "tsc", repeat=len(leaves)):
        kind = dict(zip(leaves, combo))
        evs = []
        cnt = [0]

        def emit(f, path):
            prev_string = False
            for i, k in enumerate(f):
                cnt[0] += 1
                lab = "%d" % cnt[0]
                kd = kind.get(path + (i,), "t")
                if kd == "t":
                    evs.append(("s", "t" + lab, None, []))
                    emit(k, path + (i,))
                    evs.append(("e", "t" + lab, None))
                    prev_string = False
                elif kd == "s":
                    evs.append(("d", "s" + lab))
                    evs.append(("x", None))
                elif kd == "c":
                    evs.append(("x", None))
                    evs.append(("d", "c" + lab))
                    evs.append(("x", 4))
                else:
                    # an EMPTY comment: a falsy element (str(x) == "") that is a node like any other
                    evs.append(("x", None))
                    evs.append(("d", ""))
                    evs.append(("x", 4))
        emit(forest, ())
        yield evs


def random_doc(rng, maxnodes):
    """A random event list with unique labels: mostly well nested, sometimes not."""
    evs = []
    open_ = []
    n = 0
    target = rng.randint(1, maxnodes)
    while n < target:
        r = rng.random()
        if r < 0.45:
            n += 1
            name = "t%d" % n
            evs.append(("s", name, None, []))
            open_.append(name)
        elif r < 0.7 and open_:
            evs.append(("e", open_.pop(), None))
        elif r < 0.9:
            n += 1
            evs.append(("d", "s%d" % n))
            evs.append(("x", None))
        elif r < 0.97:
            n += 1
            evs.append(("x", None))
            evs.append(("d", "c%d" % n))
            evs.append(("x", 4))
        else:
            n += 1
            evs.append(("x", None))
            evs.append(("d", ""))           # empty comment (falsy element)
            evs.append(("x", 4))
    return evs


def relabel(evs):
    """The same document with look-alike elements: every tag is <b>, every string 's', every comment 'c'
    (siblings then compare equal under Tag.__eq__ / str equality; identity must still decide)."""
    out = []
    for e in evs:
        if e[0] == "s":
            out.append(("s", "b", e[2], e[3]))
        elif e[0] == "e":
            out.append(("e", "b", e[2]))
        elif e[0] == "d":
            out.append(("d", e[1][:1]))
        else:
            out.append(e)
    return out


class OpGen:
    """Enumerates / samples admissible editing calls on the current reference forest."""

    def __init__(self, ref):
        self.ref = ref
        self.fresh_n = 0

    def live(self):
        r = self.ref
        return [i for i in range(r.n) if i not in r.dead]

    def tags(self):
        return [i for i in self.live() if self.ref.kind[i] in (0, 3)]

    def ancestors_or_self(self, x):
        out = set()
        while x is not None:
            out.add(x)
            x = self.ref.P[x]
        return out

    def admissible_args(self, dest_parent):
        """Existing elements that may be placed under dest_parent."""
        r = self.ref
        anc = self.ancestors_or_self(dest_parent)
        out = []
        for i in self.live():
            if i in anc:
                continue
            if r.kind[i] == 3:
                # a BeautifulSoup argument stands for its children
                if any(c in anc for c in r.K[i]) or not r.K[i]:
                    continue      # (an empty BeautifulSoup argument makes append() raise IndexError: not generated)
            out.append(i)
        return out

    def fresh_str(self):
        self.fresh_n += 1
        if self.fresh_n % 9 == 0:
            return [1, ""]                  # an empty string is an element like any other
        return [1, "n%d" % self.fresh_n]

    def random_op(self, rng, multi=0.4):
        """Returns a list of ops (a possible allocation op followed by the editing call)."""
        r = self.ref
        pre = []
        tags = self.tags()
        live = self.live()
        if not tags:
            return [[14, 0, "q%d" % r.n]]

        def pick_args(dest_parent, exclude=(), allow_multi=True):
            pool = [i for i in self.admissible_args(dest_parent) if i not in exclude]
            k = 1
            if allow_multi and rng.random() < multi:
                k = rng.choice([2, 2, 3])
            args = []
            used = set()
            for _ in range(k):
                c = rng.random()
                if c < 0.25 or not pool:
                    args.append(self.fresh_str())
                elif c < 0.4:
                    self.fresh_n += 1
                    nid = r.n + len(pre)
                    pre.append([14, 0, "f%d" % self.fresh_n])
                    args.append([0, nid])
                else:
                    # prefer siblings of the destination (where the index arithmetic lives)
                    sibs = [i for i in r.K.get(dest_parent, []) if i in pool and i not in used]
                    cand = sibs if (sibs and rng.random() < 0.6) else [i for i in pool if i not in used]
                    if not cand:
                        args.append(self.fresh_str())
                        continue
                    x = rng.choice(cand)
                    used.add(x)
                    if r.kind[x] == 3:
                        for c2 in r.K[x]:
                            used.add(c2)
                    args.append([0, x])
            # an argument must not be inside another argument's expansion twice
            flat = []
            for a in args:
                if a[0] == 0 and a[1] < r.n:
                    flat.extend(r.K[a[1]] if r.kind[a[1]] == 3 else [a[1]])
            if len(flat) != len(set(flat)):
                return [self.fresh_str()]
            return args

        c = rng.choice([0, 0, 0, 1, 2, 3, 4, 4, 5, 5, 6, 7, 7, 7, 8, 9, 10, 11, 12, 13, 14])
        if c == 0:
            s = rng.choice(tags)
            op = [0, s, rng.randint(0, len(r.K[s]) + 1), pick_args(s)]
        elif c == 1:
            s = rng.choice(tags)
            op = [1, s, pick_args(s, allow_multi=False)[0]]
        elif c == 2:
            s = rng.choice(tags)
            anc = self.ancestors_or_self(s)
            others = [t for t in tags if t not in anc]
            if not others:
                return self.random_op(rng, multi)
            op = [2, s, rng.choice(others), rng.choice([0, 0, 1, 2, 3])]
        elif c == 3:
            s = rng.choice(tags)
            op = [3, s, pick_args(s)]
        elif c in (4, 5):
            x = rng.choice(live)
            if r.P[x] is None:
                op = [c, x, [self.fresh_str()]]          # ValueError: no parent
            elif rng.random() < 0.03:
                op = [c, x, [[0, x]]]                     # ValueError: itself
            elif rng.random() < 0.06:
                # itself among several arguments, at any place: the call is refused as a whole - nothing may have moved
                others = pick_args(r.P[x], exclude=(x,))
                k = rng.randint(0, len(others))
                op = [c, x, others[:k] + [[0, x]] + others[k:]]
            else:
                op = [c, x, pick_args(r.P[x], exclude=(x,))]
        elif c == 6:
            op = [6, rng.choice(live)]
        elif c == 7:
            x = rng.choice(live)
            if r.P[x] is None:
                op = [7, x, [self.fresh_str()]]
            elif rng.random() < 0.05:
                op = [7, x, [[0, x]]]
            elif rng.random() < 0.08:
                # the replaced element is itself one of several replacements: x.replace_with(a, x) keeps x, next to a
                others = pick_args(r.P[x], exclude=(x,))
                if others and not (len(others) == 1 and others[0] == [0, x]):
                    k = rng.randint(0, len(others))
                    op = [7, x, others[:k] + [[0, x]] + others[k:]]
                else:
                    op = [7, x, [[0, x]]]
            else:
                op = [7, x, pick_args(r.P[x], exclude=(x,))]
        elif c == 8:
            x = rng.choice(live)
            if r.P[x] is None:
                return self.random_op(rng, multi)
            pool = [i for i in self.admissible_args(r.P[x]) if r.kind[i] == 0 and i != x]
            if pool and rng.random() < 0.5:
                w = rng.choice(pool)
            else:
                self.fresh_n += 1
                w = r.n + len(pre)
                pre.append([14, 0, "w%d" % self.fresh_n])
            op = [8, x, w]
        elif c == 9:
            cand = [t for t in tags if r.kind[t] == 0]
            if not cand:
                return self.random_op(rng, multi)
            op = [9, rng.choice(cand)]
        elif c == 10:
            cand = list(live)
            if not cand or rng.random() < 0.5:
                return self.random_op(rng, multi)
            op = [10, rng.choice(cand)]
        elif c == 11:
            op = [11, rng.choice(tags), 1 if rng.random() < 0.3 else 0]
        elif c == 12:
            self.fresh_n += 1
            op = [12, rng.choice(tags), "g%d" % self.fresh_n]
        elif c == 13:
            op = [13, rng.choice(tags)]
        else:
            self.fresh_n += 1
            k = rng.choice([0, 1, 2, 3])
            op = [14, k, "[document]" if k == 3 else "%s%d" % ("kuv"[k], self.fresh_n)]
        return pre + [op]

    def all_single_ops(self, max_args=1, with_fresh=True):
        """Exhaustive enumeration of calls on the current forest (args tuples up to max_args)."""
        r = self.ref
        live = self.live()
        tags = self.tags()
        ops = []

        def arg_tuples(dest_parent, exclude=()):
            pool = [[0, i] for i in self.admissible_args(dest_parent) if i not in exclude]
            if with_fresh:
                pool = pool + [[1, "nA"], [1, "nB"]]
            out = []
            for k in range(1, max_args + 1):
                for combo in itertools.permutations(pool, k):
                    flat = []
                    for a in combo:
                        if a[0] == 0:
                            flat.extend(r.K[a[1]] if r.kind[a[1]] == 3 else [a[1]])
                        else:
                            flat.append(a[1])
                    if len(flat) == len(set(flat)):
                        out.append([list(a) for a in combo])
            return out
        for s in tags:
            for pos in range(len(r.K[s]) + 2):
                for args in arg_tuples(s):
                    ops.append([0, s, pos, args])
            for args in arg_tuples(s):
                if len(args) == 1:
                    ops.append([1, s, args[0]])
                ops.append([3, s, args])
            anc = self.ancestors_or_self(s)
            for o in tags:
                if o not in anc:
                    ops.append([2, s, o])
                    if len(r.K[o]) >= 2:
                        ops.append([2, s, o, 1]); ops.append([2, s, o, 2])
            ops.append([11, s, 0]); ops.append([11, s, 1]); ops.append([12, s, "gS"]); ops.append([13, s])
            if r.kind[s] == 0:
                ops.append([9, s])
        for x in live:
            ops.append([6, x])
            ops.append([10, x])
            if r.P[x] is None:
                ops.append([4, x, [[1, "nA"]]]); ops.append([5, x, [[1, "nA"]]]); ops.append([7, x, [[1, "nA"]]])
                continue
            ops.append([7, x, [[0, x]]])
            ops.append([7, x, [[1, "nA"], [0, x]]]); ops.append([7, x, [[0, x], [1, "nA"]]])
            for args in arg_tuples(r.P[x], exclude=(x,)):
                ops.append([4, x, args]); ops.append([5, x, args]); ops.append([7, x, args])
            for w in self.admissible_args(r.P[x]):
                if r.kind[w] == 0 and w != x:
                    ops.append([8, x, w])
        return ops
