import argparse, importlib, os, sys, traceback
sys.path.insert(0, os.path.dirname(os.path.abspath(__file__)))
sys.setrecursionlimit(1000)  # CPython default, made explicit
import common
import logging
logging.disable(logging.CRITICAL)


def main():
    ap = argparse.ArgumentParser()
    ap.add_argument("prop")
    ap.add_argument("--tier", default=os.environ.get("VERIF_TIER", "quick"))
    ap.add_argument("--replay")
    a = ap.parse_args()
    seed = int(os.environ.get("VERIF_SEED", "20260926"))
    mod = importlib.import_module("props." + a.prop.lower())
    try:
        code = common.run_check(a.prop, mod, a.tier, seed, a.replay)
    except Exception:
        traceback.print_exc()
        print("HARNESS-ERROR property=%s (not a verdict)" % a.prop)
        sys.exit(2)
    if code == 0:
        print("OK property=%s tier=%s" % (a.prop, a.tier))
    sys.exit(code)


main()
