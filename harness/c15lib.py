"""C15 implementation-side driver. A *case* is plain JSON data (so it can be replayed and shipped to
a subprocess running under another PYTHONHASHSEED):

  case = {"tree": <node>, "path": [child indexes from the tree root to the element decode is called on],
          "soup": None | {"markup": str, "xml": bool}      (the tree is parsed instead of built; "tree" is
                                                            then filled in from the real objects)
          "fmt": <formatter spec>, "entry": "decode"|"prettify"|"decode_contents"|"encode"|"encode_contents"|"str_output_ready",
          "level": None | int}
  <node> = {"k": "s", "cls": 0..11, "text": str}
         | {"k": "e", "name": str, "prefix": str|None, "attrs": [[key, <value>], ...] (insertion order),
            "cbe": bool|None, "hidden": bool, "pw": [str]|None, "known_xml": bool|None, "kids": [<node>]}
  <value> = ["none"] | ["str", s] | ["list", [s...]] | ["tuple", [s...]] | ["int", n] | ["float", x] | ["bool", b]
          | ["obj", s] (an object whose str() is s)
          | ["charset", s] | ["content", s] (CharsetMetaAttributeValue / ContentMetaAttributeValue with original value s:
            what a parsed <meta charset=...> / <meta http-equiv=Content-Type content=...> carries)
          | ["navstr", s] (a parentless NavigableString used as an attribute value)
  more entries: "prettify_enc" (prettify(encoding=case["encoding"], formatter=...)), and on a string:
            "str_output_ready", "str_format_string" (el.format_string(el, formatter)), "str_substitute" (Formatter.substitute(el))
  a case with "_history" is rendered after a history (see run_history): the element at "path" of tree "a" is first
  rendered / copied there, then moved into tree "b" (or only extracted), then rendered as the case says
  optional: "eventual": str|None  (eventual_encoding passed to decode / decode_contents; default "utf-8"),
            "encoding": str       (encoding passed to encode / encode_contents; default "utf-8")
  <formatter spec> = {"way": "object", "cls": "Formatter"|"HTMLFormatter"|"XMLFormatter", "kw": {...}}
                   | {"way": "name", "name": str|None} | {"way": "function", "f": <fn>}
  kw values: "language": str|None, "entity_substitution": <fn>|None, "void_element_close_prefix": str|None,
             "cdata_containing_tags": None | [kind, [names]] (kind: set|list|frozenset|tuple),
             "empty_attributes_are_booleans": bool, "indent": ["none"]|["int", n]|["bool", b]|["str", s]|["other", what]
  <fn> = ["lib", "xml"|"html"|"html5"] | ["custom", k] | ["wrap", "xml"|"html"|"html5"]

Run as a script it reads a JSON list of cases on stdin and prints the JSON list of results.
"""
import json, sys, warnings

from bs4 import BeautifulSoup
from bs4.builder._htmlparser import HTMLParserTreeBuilder
from bs4.dammit import EntitySubstitution as ES
from bs4.element import (CharsetMetaAttributeValue, ContentMetaAttributeValue, Tag, NavigableString, Comment, CData, ProcessingInstruction, XMLProcessingInstruction,
                         Declaration, Doctype, Stylesheet, Script, TemplateString, RubyTextString,
                         RubyParenthesisString)
from bs4.formatter import Formatter, HTMLFormatter, XMLFormatter

CLASSES = [NavigableString, CData, ProcessingInstruction, XMLProcessingInstruction, Comment, Declaration, Doctype,
           Stylesheet, Script, TemplateString, RubyTextString, RubyParenthesisString]
FCLASSES = {"Formatter": Formatter, "HTMLFormatter": HTMLFormatter, "XMLFormatter": XMLFormatter}
LIB = {"xml": ES.substitute_xml, "html": ES.substitute_html, "html5": ES.substitute_html5}


# the user functions of the grid: pure, and chosen to disturb quoting, stripping and emptiness
def _upper(s):
    return s.upper()


def _bracket(s):
    return "[" + s + "]"


def _quotes(s):
    return s.replace("a", '"').replace("e", "'")


def _blank(s):
    return ""


def _pad(s):
    return " \n" + s + "\t "


def _amp(s):
    return s.replace("&", "&amp;").replace("t", "<t>")


CUSTOM = [_upper, _bracket, _quotes, _blank, _pad, _amp]


class XmlishBuilder(HTMLParserTreeBuilder):
    """html.parser tokenizer, but the tree is flagged XML (no lxml in this installation)."""
    is_xml = True
    NAME = "verif-xmlish"
    features = []


def plain_fn(fn):
    """<fn> -> the Python function it denotes (wrapped variants behave like the library function)."""
    if fn is None:
        return None
    if fn[0] in ("lib", "wrap"):
        return LIB[fn[1]]
    return CUSTOM[fn[1]]


def make_fn(fn, log):
    """<fn> -> callable handed to the library. Library functions are passed as they are (identity matters to
    nobody, but that is how users pass them); custom and wrapped ones record their arguments in `log`."""
    if fn is None:
        return None
    if fn[0] == "lib":
        return LIB[fn[1]]
    base = plain_fn(fn)

    def logged(s):
        log.append(str(s))
        return base(s)
    return logged


def make_indent(v):
    if v[0] == "none":
        return None
    if v[0] in ("int", "bool", "str"):
        return v[1]
    return {"object": object(), "bytes": b"bytes", "float": 2.5, "list": [1]}[v[1]]


def make_formatter(spec, log):
    """-> what is passed as `formatter=`"""
    if spec["way"] == "name":
        return spec["name"]
    if spec["way"] == "function":
        return make_fn(spec["f"], log)
    kw = {}
    for k, v in spec["kw"].items():
        if k == "entity_substitution":
            kw[k] = make_fn(v, log)
        elif k == "cdata_containing_tags":
            kw[k] = None if v is None else {"set": set, "list": list, "frozenset": frozenset, "tuple": tuple}[v[0]](v[1])
        elif k == "indent":
            kw[k] = make_indent(v)
        else:
            kw[k] = v
    return FCLASSES[spec["cls"]](**kw)


class _Obj(object):
    """an attribute value that is not a str: rendered through str(), not repr()"""
    def __init__(self, text):
        self.text = text

    def __str__(self):
        return self.text

    def __repr__(self):
        return "<_Obj %r>" % self.text


def make_value(v):
    t = v[0]
    if t == "obj":
        return _Obj(v[1])
    if t == "navstr":
        return NavigableString(v[1])          # a parentless NavigableString stored as an attribute value
    if t == "charset":
        return CharsetMetaAttributeValue(v[1])
    if t == "content":
        return ContentMetaAttributeValue(v[1])
    if t == "none":
        return None
    if t == "tuple":
        return tuple(v[1])
    if t == "list":
        return list(v[1])
    return v[1]


def build_node(n):
    if n["k"] == "s":
        return CLASSES[n["cls"]](n["text"])
    t = Tag(name=n["name"], prefix=n["prefix"], is_xml=n["known_xml"], can_be_empty_element=n["cbe"],
            preserve_whitespace_tags=None if n["pw"] is None else set(n["pw"]))
    t.attrs = {k: make_value(v) for k, v in n["attrs"]}       # a plain dict keeps None / numbers as they are
    if n["hidden"]:
        t.hidden = True
    for kid in n["kids"]:
        t.append(build_node(kid))
    return t


def value_desc(v):
    if v is None:
        return ["none"]
    if isinstance(v, bool):
        return ["bool", v]
    if isinstance(v, int):
        return ["int", v]
    if isinstance(v, float):
        return ["float", v]
    if isinstance(v, tuple):
        return ["tuple", [str(x) for x in v]]
    if isinstance(v, list):
        return ["list", [str(x) for x in v]]
    if isinstance(v, _Obj):
        return ["obj", v.text]
    if isinstance(v, NavigableString):
        return ["navstr", str(v)]
    if isinstance(v, CharsetMetaAttributeValue):
        return ["charset", v.original_value]
    if isinstance(v, ContentMetaAttributeValue):
        return ["content", v.original_value]
    return ["str", str(v)]


def describe(el):
    """real object -> <node> (used for parsed documents)"""
    if isinstance(el, NavigableString):
        return {"k": "s", "cls": CLASSES.index(type(el)), "text": str(el)}
    pw = el.preserve_whitespace_tags
    return {"k": "e", "name": el.name, "prefix": el.prefix,
            "attrs": [[str(k), value_desc(v)] for k, v in el.attrs.items()],
            "cbe": el.can_be_empty_element, "hidden": bool(el.hidden),
            "pw": None if pw is None else sorted(pw), "known_xml": el.known_xml,
            "kids": [describe(c) for c in el.contents]}


def materialise(case):
    """-> (root object of the tree, element at case['path'])"""
    if case.get("soup"):
        s = case["soup"]
        with warnings.catch_warnings():
            warnings.simplefilter("ignore")
            root = BeautifulSoup(s["markup"], builder=XmlishBuilder()) if s["xml"] else BeautifulSoup(s["markup"], "html.parser")
    else:
        root = build_node(case["tree"])
    if case.get("top_is_xml"):
        root.is_xml = True          # the attribute _is_xml falls back to at the top of a tree
    el = root
    for i in case["path"]:
        el = el.contents[i]
    return root, el


def render(el, case, log):
    """one rendering call on a live element -> {"out", "exc", "calls"}"""
    try:
        fmt = make_formatter(case["fmt"], log) if case["fmt"] is not None else None
        entry = case["entry"]
        with warnings.catch_warnings():
            warnings.simplefilter("ignore")
            ev = case["eventual"] if "eventual" in case else "utf-8"
            enc = case.get("encoding", "utf-8")
            if entry == "decode":
                out = el.decode(case["level"], ev, fmt)
            elif entry == "prettify":
                out = el.prettify(formatter=fmt)
            elif entry == "prettify_enc":
                out = el.prettify(encoding=enc, formatter=fmt).decode(enc)
            elif entry == "decode_contents":
                out = el.decode_contents(case["level"], ev, fmt)
            elif entry == "encode":
                out = el.encode(enc, case["level"], fmt).decode(enc)
            elif entry == "encode_contents":
                out = el.encode_contents(case["level"], enc, fmt).decode(enc)
            elif entry == "str_output_ready":
                out = el.output_ready(formatter=fmt)
            elif entry == "str_format_string":
                out = el.format_string(el, fmt)
            elif entry == "str_substitute":
                f = fmt if isinstance(fmt, Formatter) else el.formatter_for_name(fmt)
                out = f.substitute(el)
            else:
                raise ValueError(entry)
        return {"out": str(out), "exc": None, "calls": log}
    except Exception as e:
        return {"out": None, "exc": type(e).__name__, "calls": log}


def run_history(h, case):
    """h = {"a": {"tree"|"soup"}, "path": [...], "first": None | {"action": "render"|"copy", "fmt", "entry", "level"},
            "how": "append"|"replace"|"extract"|"stay", "b": {"tree"|"soup"} | None, "dest_path": [...]}
    The element x at `path` of tree a is rendered (or copied) where it is, then extracted and appended to / put in
    place of the first child of the element at dest_path of tree b (or left parentless), then rendered per `case`."""
    import copy as _copy
    a = h["a"]
    root_a, x = materialise({"soup": a.get("soup"), "tree": a.get("tree"), "path": h["path"]})
    first = h.get("first")
    if first:
        if first["action"] == "copy":
            _copy.copy(x)
        else:
            render(x, first, [])
    keep = [root_a]
    if h["how"] != "stay":
        x.extract()
        if h["how"] != "extract":
            b = h["b"]
            root_b, dest = materialise({"soup": b.get("soup"), "tree": b.get("tree"), "path": h["dest_path"]})
            keep.append(root_b)
            if h["how"] == "append":
                dest.append(x)
            else:
                dest.contents[0].replace_with(x)
    return render(x, case, [])


def run_case(case):
    """-> {"out": str | None, "exc": None | exception class name, "calls": [str] }"""
    if case.get("_history"):
        try:
            return run_history(case["_history"], case)
        except Exception as e:
            return {"out": None, "exc": "HISTORY:" + type(e).__name__, "calls": []}
    try:
        root, el = materialise(case)
    except Exception as e:
        return {"out": None, "exc": type(e).__name__, "calls": []}
    return render(el, case, [])


def formatter_fields(f):
    """attributes of a Formatter object, canonical; functions by name"""
    es = f.entity_substitution
    name = None
    if es is not None:
        for k, v in LIB.items():
            if es == v:
                name = ["lib", k]
        if name is None:
            name = ["custom", getattr(es, "__name__", "?")]
    try:
        cd = sorted(f.cdata_containing_tags)
    except TypeError:
        cd = repr(f.cdata_containing_tags)
    return {"language": f.language, "subst": name, "void": f.void_element_close_prefix, "cdata": cd,
            "eab": f.empty_attributes_are_booleans, "indent": f.indent}


def main():
    cases = json.load(sys.stdin)
    kind = cases.get("kind")
    if kind == "render":
        res = [run_case(c) for c in cases["cases"]]
    elif kind == "subst":
        res = [[ES.substitute_html(s), ES.substitute_html5(s), ES.substitute_xml(s),
                ES.CHARACTER_TO_HTML_ENTITY_RE.sub(ES._substitute_html_entity, s)] for s in cases["cases"]]
    else:
        raise SystemExit("unknown kind")
    import hashlib
    pat = ES.CHARACTER_TO_HTML_ENTITY_WITH_AMPERSAND_RE.pattern
    json.dump({"results": res, "pattern_digest": hashlib.sha256(pat.encode()).hexdigest()[:16]}, sys.stdout)


if __name__ == "__main__":
    main()
