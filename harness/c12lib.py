"""C12 — implementation-side drivers: document/tree generators, an independent structural signature,
the reference equality, the single edits used by the independence probes, and the encoding of real
object graphs (nodes + attribute-list objects, by identity) into the model's state format."""
import copy, pickle, warnings
import bs4
from bs4 import BeautifulSoup
from bs4.element import (Tag, NavigableString, Comment, CData, ProcessingInstruction, Declaration, Doctype,
                         Stylesheet, Script, TemplateString, RubyTextString, RubyParenthesisString,
                         AttributeValueList, NamespacedAttribute, HTMLAttributeDict, XMLAttributeDict,
                         AttributeDict, PageElement)
import treeimpl as T

# ---------------------------------------------------------------------------------------------
# signatures: everything the property says a copy preserves, by value; nothing by address
# ---------------------------------------------------------------------------------------------

def val_sig(v):
    if isinstance(v, list):
        return ("list", type(v).__name__, tuple(type(x).__name__ + ":" + str(x) for x in v))
    if v is None or isinstance(v, (bool, int, float)):
        return (type(v).__name__, repr(v))
    return ("str", type(v).__name__, str(v))


def settings_sig(t):
    """Per-tag settings: what the builder (or the constructor arguments) gave the tag."""
    def fz(x):
        if x is None:
            return None
        if isinstance(x, dict):
            return tuple(sorted((k, tuple(sorted(v))) for k, v in x.items()))
        return tuple(sorted(getattr(c, "__name__", str(c)) for c in x))
    return (type(t).__name__, t.namespace, t.prefix, t.can_be_empty_element, fz(t.cdata_list_attributes),
            fz(t.preserve_whitespace_tags), fz(t.interesting_string_types), bool(t.hidden), t.sourceline, t.sourcepos,
            bool(t._is_xml), t.attribute_value_list_class.__name__, tuple(sorted((t._namespaces or {}).items())))


SETTING_NAMES = ["class", "namespace", "prefix", "can_be_empty_element", "cdata_list_attributes",
                 "preserve_whitespace_tags", "interesting_string_types", "hidden", "sourceline", "sourcepos", "_is_xml",
                 "attribute_value_list_class", "_namespaces"]


def sig(e):
    """Nested, address-free description of the subtree at e (iterative construction is not needed: depths are small)."""
    if isinstance(e, Tag):
        return ("tag", e.name, tuple((str(k), type(k).__name__, val_sig(v)) for k, v in e.attrs.items()),
                settings_sig(e), tuple(sig(c) for c in e.contents))
    return ("str", type(e).__name__, str(e))


def sig_diff(a, b, path="."):
    """First difference between two signatures, as text."""
    if a[0] != b[0]:
        return "%s: %s vs %s" % (path, a[0], b[0])
    if a[0] == "str":
        return None if a == b else "%s: string %r vs %r" % (path, a[1:], b[1:])
    if a[1] != b[1]:
        return "%s: name %r vs %r" % (path, a[1], b[1])
    if a[2] != b[2]:
        return "%s <%s>: attributes %r vs %r" % (path, a[1], a[2], b[2])
    if a[3] != b[3]:
        for n, x, y in zip(SETTING_NAMES, a[3], b[3]):
            if x != y:
                return "%s <%s>: setting %s %r vs %r" % (path, a[1], n, x, y)
    if len(a[4]) != len(b[4]):
        return "%s <%s>: %d vs %d children" % (path, a[1], len(a[4]), len(b[4]))
    for i, (x, y) in enumerate(zip(a[4], b[4])):
        d = sig_diff(x, y, "%s/%d" % (path, i))
        if d:
            return d
    return None


def ref_eq(a, b):
    """The property's reading of equality, independent of Tag.__eq__: same name, same attribute map
    (order-free), pairwise equal children; strings are equal when their text is; a string never equals a tag."""
    at, bt = isinstance(a, Tag), isinstance(b, Tag)
    if at != bt:
        return False
    if not at:
        return str(a) == str(b)
    if a.name != b.name:
        return False
    if set(a.attrs.keys()) != set(b.attrs.keys()):
        return False
    for k in a.attrs:
        x, y = a.attrs[k], b.attrs[k]
        if isinstance(x, list) != isinstance(y, list):
            return False
        if isinstance(x, list):
            if len(x) != len(y) or any(p != q for p, q in zip(x, y)):
                return False
        elif not (x == y):
            return False
    if len(a.contents) != len(b.contents):
        return False
    return all(ref_eq(x, y) for x, y in zip(a.contents, b.contents))


def objects_of(root):
    """ids of every object that makes up the tree at root: elements, attribute dicts, attribute value lists."""
    els, dicts, lists = set(), set(), set()
    for e in T.preorder(root):
        els.add(id(e))
        if isinstance(e, Tag):
            dicts.add(id(e.attrs))
            for v in e.attrs.values():
                if isinstance(v, list):
                    lists.add(id(v))
    return els, dicts, lists


def top_of(e):
    while e.parent is not None:
        e = e.parent
    return e


def detached_problems(c):
    """A copy is attached to no tree: no parent, no siblings, nothing before it, nothing after its last descendant;
    and its own links are consistent (C01 walker)."""
    bad = []
    if c.parent is not None:
        bad.append("copy has a parent")
    if c.next_sibling is not None or c.previous_sibling is not None:
        bad.append("copy has a sibling")
    if c.previous_element is not None:
        bad.append("copy has a previous_element")
    last = T.preorder(c)[-1]
    if last.next_element is not None:
        bad.append("the copy's last descendant has a next_element")
    if isinstance(c, Tag) and not bad:
        f = T.Forest()
        for o in T.preorder(c):
            f.add(o)
        w = T.walk_check(f)
        # a copied BeautifulSoup object is linked to its first child (C01 allows both forms)
        if w:
            bad.append("copy is not consistently linked: " + w[0])
    return bad


# ---------------------------------------------------------------------------------------------
# single edits (structure, attributes, attribute value lists) applied inside one tree
# ---------------------------------------------------------------------------------------------

def edits_for(root):
    """[(description, callable(root))] — every single edit we try on the tree at root. Each callable locates its
    target by pre-order index so that the same edit can be applied to a copy or to the original."""
    out = []
    pre = T.preorder(root)
    tags = [i for i, e in enumerate(pre) if isinstance(e, Tag)]

    def at(i):
        return lambda r: T.preorder(r)[i]

    for i in tags:
        e = pre[i]
        g = at(i)
        out.append(("append(new tag) at %d" % i, lambda r, g=g: g(r).append(Tag(name="zz"))))
        out.append(("append('text') at %d" % i, lambda r, g=g: g(r).append("zz")))
        out.append(("insert(0, new tag) at %d" % i, lambda r, g=g: g(r).insert(0, Tag(name="zz"))))
        out.append(("name = 'renamed' at %d" % i, lambda r, g=g: setattr(g(r), "name", "renamed")))
        out.append(("['zz'] = 'v' at %d" % i, lambda r, g=g: g(r).__setitem__("zz", "v")))
        out.append(("['zz'] = ['p','q'] at %d" % i, lambda r, g=g: g(r).__setitem__("zz", ["p", "q"])))
        if e.contents:
            out.append(("clear() at %d" % i, lambda r, g=g: g(r).clear()))
            out.append((".string = 'zz' at %d" % i, lambda r, g=g: setattr(g(r), "string", "zz")))
            out.append(("smooth() at %d" % i, lambda r, g=g: g(r).smooth()))
            out.append(("extend(reversed children) at %d" % i, lambda r, g=g: g(r).extend(list(reversed(g(r).contents)))))
        for k, v in list(e.attrs.items()):
            out.append(("[%r] = 'changed' at %d" % (str(k), i), lambda r, g=g, k=k: g(r).__setitem__(k, "changed")))
            out.append(("del [%r] at %d" % (str(k), i), lambda r, g=g, k=k: g(r).__delitem__(k)))
            if isinstance(v, list):
                out.append(("[%r].append('zz') at %d" % (str(k), i), lambda r, g=g, k=k: g(r)[k].append("zz")))
                out.append(("[%r].clear() at %d" % (str(k), i), lambda r, g=g, k=k: g(r)[k].clear()))
                if v:
                    out.append(("[%r][0] = 'zz' at %d" % (str(k), i), lambda r, g=g, k=k: g(r)[k].__setitem__(0, "zz")))
                    out.append(("[%r].reverse()+pop at %d" % (str(k), i), lambda r, g=g, k=k: (g(r)[k].reverse(), g(r)[k].pop())))
        if e.attrs:
            out.append(("attrs.clear() at %d" % i, lambda r, g=g: g(r).attrs.clear()))
    for i, e in enumerate(pre):
        if i == 0:
            continue
        g = at(i)
        out.append(("extract() of %d" % i, lambda r, g=g: g(r).extract()))
        out.append(("decompose() of %d" % i, lambda r, g=g: g(r).decompose()))
        out.append(("replace_with(new tag) of %d" % i, lambda r, g=g: g(r).replace_with(Tag(name="zz"))))
        out.append(("insert_before('zz') of %d" % i, lambda r, g=g: g(r).insert_before("zz")))
        out.append(("insert_after(new tag) of %d" % i, lambda r, g=g: g(r).insert_after(Tag(name="zz"))))
        out.append(("wrap(new tag) of %d" % i, lambda r, g=g: g(r).wrap(Tag(name="zz"))))
        if isinstance(e, Tag):
            out.append(("unwrap() of %d" % i, lambda r, g=g: g(r).unwrap()))
        # move within the tree: to the front of the root
        out.append(("move %d to the front of the root" % i, lambda r, g=g: r.insert(0, g(r))))
    return out


# ---------------------------------------------------------------------------------------------
# documents
# ---------------------------------------------------------------------------------------------

class MyList(AttributeValueList):
    pass


class MyTag(Tag):
    pass


class MyString(NavigableString):
    pass


class MyDict(HTMLAttributeDict):
    pass


class BoldString(NavigableString):
    pass


CONFIGS = [
    ("default", {}),
    ("mva-none", {"multi_valued_attributes": None}),
    ("html-dict", {"attribute_dict_class": HTMLAttributeDict}),
    ("custom-classes", {"attribute_value_list_class": MyList, "attribute_dict_class": MyDict,
                        "element_classes": {Tag: MyTag, NavigableString: MyString}}),
    ("custom-sets", {"preserve_whitespace_tags": {"p", "pre"}, "string_containers": {"b": BoldString},
                     "empty_element_tags": {"br", "p2"}, "store_line_numbers": False}),
]

TAGS = ["div", "p", "a", "b", "span", "ul", "li", "td", "i", "em", "x-y", "svg:g"]
VOID = ["br", "img", "hr", "input"]
CONTAINERS = ["script", "style", "template", "rt", "rp", "pre", "textarea"]
TEXTS = ["x", "hello", "a b", "1 < 2", "R&D", "&amp;", "café", "☃", "q\"uote'", "  pad  "]
ATTRS = [("class", ["a b", "c", "x  y z", ""]), ("id", ["i1", "main", "0"]), ("href", ["h?a=1&b=2", "#"]),
         ("rel", ["nofollow noopener", "me"]), ("headers", ["h1 h2"]), ("data-x", ["1", "v w"]),
         ("disabled", [None]), ("title", ["T\"q", "<t>"]), ("xlink:href", ["u"]), ("accesskey", ["k l"])]


def random_markup(rng, maxnodes):
    """Markup written from a random tree (void elements, string containers, comments, CDATA, PI, doctype, attributes)."""
    budget = [rng.randint(1, maxnodes)]

    def attrs():
        out = []
        for name, vals in rng.sample(ATTRS, rng.choice([0, 0, 1, 1, 2, 3])):
            v = rng.choice(vals)
            out.append(name if v is None else '%s="%s"' % (name, v.replace("&", "&amp;").replace('"', "&quot;").replace("<", "&lt;")))
        return (" " + " ".join(out)) if out else ""

    def text():
        t = rng.choice(TEXTS)
        return t.replace("&", "&amp;").replace("<", "&lt;")

    def node(depth):
        if budget[0] <= 0:
            return ""
        budget[0] -= 1
        r = rng.random()
        if r < 0.22:
            return text()
        if r < 0.28:
            return "<!--%s-->" % rng.choice(["c", "note x", " sp "])
        if r < 0.31:
            return "<![CDATA[%s]]>" % rng.choice(["cd", "a<b"])
        if r < 0.33:
            return "<?%s?>" % rng.choice(["pi x", "php echo 1"])
        if r < 0.40:
            return "<%s%s%s>" % (rng.choice(VOID), attrs(), rng.choice(["", "/", " /"]))
        if r < 0.50:
            n = rng.choice(CONTAINERS)
            if n in ("script", "style", "textarea"):
                return "<%s%s>%s</%s>" % (n, attrs(), rng.choice(["", "var a=1;", "x{}"]), n)
            return "<%s%s>%s</%s>" % (n, attrs(), "".join(node(depth + 1) for _ in range(rng.randint(0, 2))), n)
        n = rng.choice(TAGS)
        kids = "".join(node(depth + 1) for _ in range(rng.choice([0, 1, 1, 2, 3]) if depth < 5 else 0))
        return "<%s%s>%s</%s>" % (n, attrs(), kids, n)

    body = ""
    while budget[0] > 0:
        body += node(0)
    if rng.random() < 0.25:
        body = rng.choice(["<!DOCTYPE html>", "<!DOCTYPE html>\n", '<!DOCTYPE html PUBLIC "-//W3C//DTD HTML 4.01//EN">']) + body
    return body


def parse(markup, kw):
    with warnings.catch_warnings():
        warnings.simplefilter("ignore")
        return BeautifulSoup(markup, "html.parser", **kw)


RAW_VALUES = [None, True, False, 0, 7, -3, "", "s", ["l1", "l2"], []]


def mutate_attrs(rng, root, n, raw=True):
    """Attribute assignments through the Tag API on random tags (this is where raw None / bool / int values enter a
    parsed tag's plain attribute container). Returns a replayable description."""
    done = []
    tags = [(i, e) for i, e in enumerate(T.preorder(root)) if isinstance(e, Tag) and not isinstance(e, BeautifulSoup)]
    if not tags:
        return done
    for _ in range(n):
        i, e = rng.choice(tags)
        k = rng.choice(["class", "id", "disabled", "data-n", "rel", "z"])
        if rng.random() < 0.1:
            k = NamespacedAttribute("xlink", "href")
        r = rng.random()
        if r < 0.15 and k in e.attrs:
            del e[k]
            done.append((i, str(k), "del"))
            continue
        pool = RAW_VALUES if raw else ["", "s", ["l1", "l2"], []]
        v = rng.choice(pool)
        if isinstance(v, list):
            v = list(v)
        e[k] = v
        done.append((i, str(k), repr(v)))
    return done


def mutate_settings(rng, root, n):
    """Per-tag settings given other values through the (documented) attributes of Tag objects."""
    tags = [e for e in T.preorder(root) if isinstance(e, Tag) and not isinstance(e, BeautifulSoup)]
    for _ in range(n if tags else 0):
        t = rng.choice(tags)
        k = rng.randrange(9)
        if k == 0:
            t.hidden = True
        elif k == 1:
            t.sourceline, t.sourcepos = rng.randint(1, 99), rng.randint(0, 99)
        elif k == 2:
            t._namespaces = {"p": "urn:p"}
        elif k == 3:
            t.can_be_empty_element = rng.choice([True, False, None])
        elif k == 4:
            t.namespace = "urn:n"
        elif k == 5:
            t.prefix = "p"
        elif k == 6:
            t.preserve_whitespace_tags = {"x", t.name}
        elif k == 7:
            t.interesting_string_types = {Comment}
        else:
            t.cdata_list_attributes = {"*": {"k"}}


# ---------------------------------------------------------------------------------------------
# recipes: a document is rebuilt from a small description (so every case can be replayed)
# ---------------------------------------------------------------------------------------------
import random as _random
import histrun as _R


def safe_edits(rng, soup, n):
    """A few structure edits that keep the document representable in markup (nothing under void elements or
    inside raw-text / whitespace-preserving elements): adjacent strings, moved and new elements."""
    for _ in range(n):
        tags = [t for t in soup.find_all(True) if t.name in TAGS and ":" not in t.name
                and not any(p.name in CONTAINERS for p in t.parents)]
        if not tags:
            soup.append(Tag(name="div"))
            continue
        t = rng.choice(tags)
        r = rng.random()
        if r < 0.3:
            t.append(NavigableString(rng.choice(["x", "y z", "w"])))
        elif r < 0.5:
            t.insert(0, NavigableString("pre"))
        elif r < 0.65:
            t.append(Tag(name="b"))
        elif r < 0.8:
            t.insert_after(NavigableString("after"))
        elif r < 0.9 and t.parent is not None:
            t.unwrap()
        else:
            t.extract()
            soup.append(t)


def build_doc(recipe):
    """recipe: {"kind": "markup", "config": name, "markup": str, "mut_seed": int, "nmut": int, "raw": bool}
             | {"kind": "events", "events": [...], "ops": [...], "mut_seed": int, "nmut": int, "raw": bool}
    Returns the list of root elements of the resulting forest (the document first)."""
    if recipe["kind"] == "markup":
        kw = dict(CONFIGS)[recipe["config"]]
        soup = parse(recipe["markup"], kw)
        roots = [soup]
        if recipe.get("nedits"):
            safe_edits(_random.Random(recipe["edit_seed"]), soup, recipe["nedits"])
    else:
        evs = [tuple(e) for e in recipe["events"]]
        evs = [(e[0], e[1], e[2], [tuple(a) for a in e[3]]) if e[0] == "s" else e for e in evs]
        soup = T.build(evs, T.HTML_CFG)
        soup.builder.events = []     # the event-replaying builder must not replay into copies made from it
        forest = T.Forest(soup)
        for op in recipe.get("ops", []):
            forest.apply(op)
            forest.discover(None)
        roots = forest.roots()
        if soup not in roots and not soup.decomposed:
            roots = [soup] + roots
    if recipe.get("void_kids"):
        rng = _random.Random(recipe["void_kids"])
        voids = [t for r in roots if isinstance(r, Tag) for t in r.find_all(True) if t.can_be_empty_element]
        for t in voids[:3]:
            t.append(rng.choice([Tag(name="b"), NavigableString("in-void"), Comment("c")]))
    if recipe.get("empties"):
        # empty (falsy) string nodes: tag.string = "", appended "" and Comment("") - they are children like any other
        rng = _random.Random(recipe["empties"])
        tags = [t for r in roots if isinstance(r, Tag) for t in [r] + r.find_all(True)]
        for t in rng.sample(tags, min(3, len(tags))):
            k = rng.randrange(3)
            if k == 0 and not t.contents:
                t.string = ""
            elif k == 1:
                t.append(NavigableString(""))
            else:
                t.insert(0, Comment(""))
    if recipe.get("nset"):
        rng = _random.Random(recipe["nset"])
        for r in roots:
            if isinstance(r, Tag):
                mutate_settings(rng, r, 3)
    if recipe.get("nmut"):
        rng = _random.Random(recipe["mut_seed"])
        for r in roots:
            if isinstance(r, Tag):
                mutate_attrs(rng, r, recipe["nmut"], raw=recipe.get("raw", True))
    return roots


# ---------------------------------------------------------------------------------------------
# encoding of real object graphs into the model's two stores (Run/D_C12.v g_state)
# ---------------------------------------------------------------------------------------------
class Interner:
    """Numbers objects by identity (0 is reserved for None); keeps them alive."""

    def __init__(self):
        self.ids = {}
        self.keep = []

    def __call__(self, o):
        if o is None:
            return 0
        k = id(o)
        if k not in self.ids:
            self.ids[k] = len(self.ids) + 1
            self.keep.append(o)
        return self.ids[k]


class Unencodable(Exception):
    pass


class StateEnc:
    """Assigns element ids (pre-order of the roots given, then of roots added later) and list-object ids
    (order of first encounter), and prints the state in the model's format."""

    def __init__(self):
        self.els = []          # id -> element
        self.eid = {}
        self.lists = []        # id -> list object
        self.lid = {}
        self.objs = Interner()     # cdata_list_attributes / preserve_whitespace_tags / ... objects
        self.classes = Interner()  # classes

    def add_root(self, root):
        for e in T.preorder(root):
            if id(e) not in self.eid:
                self.eid[id(e)] = len(self.els)
                self.els.append(e)
        # list objects in pre-order / attribute order
        for e in T.preorder(root):
            if isinstance(e, Tag):
                for v in e.attrs.values():
                    if isinstance(v, list) and id(v) not in self.lid:
                        self.lid[id(v)] = len(self.lists)
                        self.lists.append(v)

    def val(self, v):
        if isinstance(v, list):
            if id(v) not in self.lid:
                self.lid[id(v)] = len(self.lists)
                self.lists.append(v)
            return [1, self.lid[id(v)]]
        if v is None:
            return [4]
        if isinstance(v, bool):
            return [2, v]
        if isinstance(v, int):
            return [3, v]
        if isinstance(v, str):
            return [0, str(v)]
        raise Unencodable(repr(v))

    def tset(self, t):
        o = lambda x: [] if x is None else [x]
        return [self.classes(type(t)), o(t.namespace), o(t.prefix), o(t.sourceline), o(t.sourcepos),
                [] if t.can_be_empty_element is None else [bool(t.can_be_empty_element)],
                self.objs(t.cdata_list_attributes), self.objs(t.preserve_whitespace_tags),
                self.objs(t.interesting_string_types), self.objs(t._namespaces if t._namespaces else None),
                bool(t.hidden), self.classes(t.attribute_value_list_class)]

    def payload(self, e):
        if isinstance(e, Tag):
            return [0, isinstance(e, BeautifulSoup), e.name, [[str(k), self.val(v)] for k, v in e.attrs.items()],
                    [] if e.known_xml is None else [bool(e.known_xml)], self.tset(e)]
        return [1, self.classes(type(e)), str(e)]

    def cell(self, e):
        par = [] if e.parent is None else [self.eid.get(id(e.parent), 10 ** 6)]
        kids = [self.eid.get(id(c), 10 ** 6) for c in e.contents] if isinstance(e, Tag) else []
        return [par, kids, self.payload(e)]

    def state(self):
        cells = [self.cell(e) for e in self.els]
        # lists referenced by payloads were registered while printing the cells
        lsts = [[self.classes(type(l)), [str(x) for x in l]] for l in self.lists]
        return [cells, lsts]


def dec_state(m):
    """Model state (decoded s-expression) -> comparable python structure."""
    def s(x):
        return "".join(map(chr, x))

    def val(v):
        return [v[0]] + ([s(v[1])] if v[0] == 0 else [bool(v[1])] if v[0] == 2 else v[1:])

    def pay(p):
        if p[0] == 0:
            se = p[5]
            return [0, bool(p[1]), s(p[2]), [[s(k), val(v)] for k, v in p[3]], [bool(x) for x in p[4]],
                    [se[0], [s(x) for x in se[1]], [s(x) for x in se[2]], se[3], se[4], [bool(x) for x in se[5]],
                     se[6], se[7], se[8], se[9], bool(se[10]), se[11]]]
        return [1, p[1], s(p[2])]
    cells = [[c[0], c[1], pay(c[2])] for c in m[0]]
    lsts = [[l[0], [s(x) for x in l[1]]] for l in m[1]]
    return [cells, lsts]


def norm_state(st):
    """The python-side state in the same comparable form (bools normalised)."""
    def val(v):
        return [v[0]] + ([bool(v[1])] if v[0] == 2 else v[1:])

    def pay(p):
        if p[0] == 0:
            return [0, bool(p[1]), p[2], [[k, val(v)] for k, v in p[3]], p[4], p[5]]
        return p
    return [[[c[0], c[1], pay(c[2])] for c in st[0]], st[1]]


def state_diff(a, b):
    """First difference between two comparable states."""
    if len(a[0]) != len(b[0]):
        return "number of elements %d vs %d" % (len(a[0]), len(b[0]))
    for i, (x, y) in enumerate(zip(a[0], b[0])):
        if x != y:
            names = ["parent", "contents", "payload"]
            for k in range(3):
                if x[k] != y[k]:
                    return "element %d: %s %r vs %r" % (i, names[k], x[k], y[k])
    if a[1] != b[1]:
        return "list objects %r vs %r" % (a[1], b[1])
    return None
