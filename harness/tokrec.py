"""Correspondence between the installed standard-library tokenizer (html/parser.py + _markupbase.py, driven as
bs4/builder/_htmlparser.py drives it: convert_charrefs=False, feed then close) and coq/Model/Tokenizer.v.

Recorder: a subclass that notes every top-level callback with getpos() and every updatepos(i, j) with i < j (the
consumed slice), grouped the way the model groups them: one *item* per consumed slice = (absolute offset, getpos()
while its callbacks fire, slice, callbacks).  Two recorders: on the plain html.parser.HTMLParser, and on bs4's
BeautifulSoupHTMLParser (so that what bs4 overrides is on the path; c04.LogParser does that one).
Model side: command 18003.  html.unescape (attribute values) and the non-ASCII part of str.lower() (names) are not
in the model: they are applied here to the model's output (see ASSUMPTIONS in props/c18.py).
"""
import html, html.parser, re
import _markupbase

CALLBACKS = ["handle_starttag", "handle_startendtag", "handle_endtag", "handle_data", "handle_charref",
             "handle_entityref", "handle_comment", "handle_decl", "unknown_decl", "handle_pi"]
KIND = {n: i for i, n in enumerate(CALLBACKS)}


class Recorder(html.parser.HTMLParser):
    def __init__(self):
        super().__init__(convert_charrefs=False)
        self.items = []
        self._pending = []
        self._depth = 0
        self._consumed = 0          # characters consumed by earlier goahead calls
        self._quiet = 0
        self.order_ok = True
        self._last_end = 0

    def updatepos(self, i, j):
        if self._quiet:
            return super().updatepos(i, j)
        before = self.getpos()
        r = super().updatepos(i, j)
        if i < j:
            if self._consumed + i != self._last_end:
                self.order_ok = False           # slices not contiguous / not in order
            self._last_end = self._consumed + j
            self.items.append([self._consumed + i, list(before), self.rawdata[i:j], self._pending])
            self._pending = []
        return r

    def _scan_name(self, i, declstartpos):
        self._quiet += 1                         # its updatepos call precedes an AssertionError only
        try:
            return super()._scan_name(i, declstartpos)
        finally:
            self._quiet -= 1

    def goahead(self, end):
        n0 = len(self.rawdata)
        super().goahead(end)
        self._consumed += n0 - len(self.rawdata)


def _cb(name):
    real = getattr(html.parser.HTMLParser, name)
    k = KIND[name]

    def f(self, *args):
        if self._depth == 0:
            if k in (0, 1):
                self._pending.append([k, args[0], [[a, v] for a, v in args[1]]])
            else:
                self._pending.append([k, args[0]])
        self._depth += 1
        try:
            return real(self, *args)
        finally:
            self._depth -= 1
    return f


for _n in CALLBACKS:
    setattr(Recorder, _n, _cb(_n))


def record(text):
    """-> dict(items, status 0/1 (AssertionError), cd, rest, off, pos, leftover callbacks)"""
    p = Recorder()
    status = 0
    try:
        p.feed(text)
        p.close()
    except AssertionError:
        status = 1
    return {"items": p.items, "status": status, "cd": p.cdata_elem, "rest": p.rawdata,
            "off": p._consumed, "pos": list(p.getpos()), "pending": p._pending, "order_ok": p.order_ok}


def _s(l):
    return "".join(map(chr, l))


def decode_model(m, unescape=True):
    """18003's answer -> the recorder's shape; html.unescape / the non-ASCII part of lower() applied here."""
    items = []
    for off, pos, span, evs in m[0]:
        out = []
        for e in evs:
            k = e[0]
            if k in (0, 1):
                attrs = []
                for a, v in e[2]:
                    v = _s(v[0]) if v else None
                    if v and unescape:
                        v = html.unescape(v)
                    attrs.append([_s(a).lower(), v])
                out.append([k, _s(e[1]).lower(), attrs])
            elif k == 2:
                out.append([k, _s(e[1]).lower()])
            else:
                out.append([k, _s(e[1])])
        items.append([off, list(pos), _s(span), out])
    return {"items": items, "status": m[1], "cd": _s(m[2][0]) if m[2] else None, "rest": _s(m[3]), "off": m[4],
            "pos": list(m[5])}


def compare(rec, mod):
    """None if they agree, else a short description of the first difference."""
    if mod["status"] not in (0, 1):
        return "model status %d (out of fuel / stuck)" % mod["status"]
    if rec["status"] != mod["status"]:
        return "status: stdlib %s, model %s" % (rec["status"], mod["status"])
    a, b = rec["items"], mod["items"]
    for i in range(max(len(a), len(b))):
        x = a[i] if i < len(a) else None
        y = b[i] if i < len(b) else None
        if x != y:
            return "item %d: stdlib %r, model %r" % (i, x, y)
    if rec["status"] == 0:
        for k in ("cd", "rest", "off", "pos"):
            if rec[k] != mod[k]:
                return "final %s: stdlib %r, model %r" % (k, rec[k], mod[k])
        if rec["pending"]:
            return "stdlib fired callbacks without consuming anything: %r" % (rec["pending"],)
    if not rec["order_ok"]:
        return "stdlib consumed slices out of order"
    return None


# ------------------------------------------------------------------ what an input exercises
CONSTRUCTS = [
    ("starttag", re.compile(r"<[a-zA-Z]")), ("endtag", re.compile(r"</")), ("comment", re.compile(r"<!--")),
    ("marked_section", re.compile(r"<!\[")), ("doctype", re.compile(r"<!doctype", re.I)), ("bogus_decl", re.compile(r"<![^-\[dD]")),
    ("pi", re.compile(r"<\?")), ("charref", re.compile(r"&#")), ("entityref", re.compile(r"&[a-zA-Z]")),
    ("lone_amp", re.compile(r"&(?![a-zA-Z#])")), ("lone_lt", re.compile(r"<(?![a-zA-Z/!?])")),
    ("cdata_element", re.compile(r"<(script|style)[\s/>]", re.I)), ("self_closing", re.compile(r"/>")),
    ("attr_quoted", re.compile(r"=\s*[\"']")), ("attr_bare", re.compile(r"=\s*[^\"'\s>]")), ("newline", re.compile(r"\n")),
    ("non_ascii", re.compile(r"[^\x00-\x7f]")), ("unicode_space", re.compile("[\x0b\x1c-\x1f\x85\xa0\u1680\u2000-\u200a\u2028\u2029\u202f\u205f\u3000]")),
    ("nul", re.compile(r"\x00")),
]


def constructs(text):
    return [n for n, r in CONSTRUCTS if r.search(text)]


# ------------------------------------------------------------------ generators
# the documented alphabet of the malformed stream: every ASCII character the patterns mention, letters of both cases
# (incl. those of script/style/doctype/cdata and hex digits), digits, the control characters the patterns single out,
# and non-ASCII characters of every class that matters: plain (é, ☃, astral), Unicode whitespace (\x0b \x1c \x85 \xa0
# U+2028 U+3000), characters re.IGNORECASE folds to ASCII (ſ İ ı K), and upper-case non-ASCII letters (É Σ).
ALPHA = list("<>/!?-[]&#;= \"'\n\t") + list("abcdxXsStTyYlLeEiIpPrRcCAF") + list("0129") + \
        ["\r", "\x0c", "\x0b", "\x00", "\x1c", "\x85", "\xa0", "\u2028", "\u3000", ":", "_", ".", "%", "(", ")", "\\",
         "é", "É", "☃", "\U0001f600", "ſ", "İ", "ı", "K", "Σ", "ß"]
PIECES = ["<a", "<b ", "<script", "<style", "<SCRIPT>", "<Style >", "</script>", "</style>", "</script", "</ script >", "</SCRIPT\n>",
          "</\u017fcript>", "</scr\u0130pt>", "</scr\u0131pt>", "</a>", "</a ", "</", "</>", "</ >", "</1>", "</a b='>'>", "<!--", "-->", "--",
          "-- >", "--\n>", "--!>", "<!", "<!>", "<![", "<![CDATA[", "<![cdata[", "<![ CDATA[", "]]>", "] ]>", "]\n]\n>", "<![if ", "<![endif]", "<![else", "]>", "] >",
          "<![temp", "<![ignore ", "<![include", "<![rcdata", "<![x", "<![1", "<![if", "<![CDATA", "<!DOCTYPE", "<!doctype html>", "<!DocType\n", "<!ELEMENT x>",
          "<?", "<?xml ?>", "?>", "&#", "&#1", "&#12;", "&#x", "&#xaF;", "&#X1g", "&#1a", "&", "&a", "&amp", "&amp;", "&a-", "&a.b", "&a-;", "&x", "&#;",
          " a=b", " a='b'", " a=\"b\"", " a='b", " a=\"b", " a= 'b", " a=='b", " a==", " a", "a=", "='", "=\"", " /", "/", "/>", " />", "/ >", ">", " >",
          "<", "<<", "<a/b>", "<a/=>", "<a b/c>", "<a\x00b>", "<a\x0bb=1>", "<a bÉ=1>", "<AKB>", "x", "text", "\n", "\r\n", " ", "\t", "é",
          "<br>", "<br/>", "<p>", "</p>", "<p class=\"x y\" id=1>", "<img alt=\"a>b\" src='c'>", "<td\n>", "<i\nclass='a\nb'>",
          "<a b=&amp; c='&lt;' d=\"&#65;&#x41;&bogus;&amp\">", "<a b=\"x\"c>", "<a b='x'c=d>", "<a b=\"\">", "<a =b>", "<a b = c >", "<a b\n=\nc>"]


def gen_random(rng):
    r = rng.random()
    if r < 0.35:
        return "".join(rng.choice(ALPHA) for _ in range(rng.randint(0, 24)))
    if r < 0.8:
        return "".join(rng.choice(PIECES) for _ in range(rng.randint(1, 9)))
    return "".join(rng.choice(PIECES) if rng.random() < 0.6 else rng.choice(ALPHA) for _ in range(rng.randint(1, 16)))


SMALL_ALPHA = ["<", ">", "/", "a", "=", " ", "'", "&", "#", ";", "!", "-"]


def exhaustive_small(n):
    import itertools
    for k in range(n + 1):
        for combo in itertools.product(SMALL_ALPHA, repeat=k):
            yield "".join(combo)


def flatten_model(mod):
    """The model's items as the callback list bs4's parser object receives: [kind, args..., getpos()]."""
    out = []
    for off, pos, span, evs in mod["items"]:
        for e in evs:
            out.append(list(e) + [pos])
    return out


def flatten_log(hevs):
    """c04.Log.hevs (top-level callbacks of the real BeautifulSoupHTMLParser) in the same shape."""
    out = []
    for h in hevs:
        k = KIND[h[0]]
        if k in (0, 1):
            out.append([k, h[1], [[a, v] for a, v in h[2]], list(h[-1])])
        else:
            out.append([k, h[1], list(h[-1])])
    return out


def run_correspondence(ctx, texts, label, name="html.parser.HTMLParser (feed, close; every callback with getpos(), every "
                                               "consumed slice, final state) ~ Model.Tokenizer.tokenize"):
    """texts: iterable of str.  Runs the plain standard-library recorder and the model on each (deduplicated) text."""
    seen = set()
    batch = []
    stats = {"inputs": 0, "rejected": 0, "unconsumed_tail": 0, "items": 0}

    def flush():
        if not batch or not ctx.build.model_ok:
            del batch[:]
            return
        res = ctx.model.run([[18003, t] for t in batch])
        for t, m in zip(batch, res):
            rec = record(t)
            stats["inputs"] += 1
            stats["rejected"] += rec["status"]
            stats["unconsumed_tail"] += 1 if (rec["status"] == 0 and rec["rest"]) else 0
            stats["items"] += len(rec["items"])
            for c in constructs(t):
                ctx.count("tok_%s_%s" % (label, c))
            ctx.case(("tok", t), nontrivial=len(rec["items"]) >= 2)
            if m and m[0] == "ERR":
                ctx.disagree(name, {"markup": t, "kind": "tokenizer-" + label}, "-", "model error %r" % (m,))
                continue
            d = compare(rec, decode_model(m))
            if d:
                ctx.disagree(name, {"markup": t, "kind": "tokenizer-" + label}, d, None)
        del batch[:]
    for t in texts:
        if t in seen:
            continue
        seen.add(t)
        batch.append(t)
        if len(batch) >= 4000:
            flush()
    flush()
    for k, v in stats.items():
        ctx.count("tok_%s_%s" % (label, k), v)
    return stats
