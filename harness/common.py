"""Shared machinery of the checks: build (translator + make + extraction + driver), model runner,
evidence / replay writers, known-findings handling and the final verdict.

Run with /venv/bin/python; the implementation under test is imported from /repo (sys.path[0]).
"""
import fcntl, json, os, random, re, subprocess, sys, time, traceback, hashlib

VERIF = os.path.dirname(os.path.dirname(os.path.abspath(__file__)))
REPO = os.environ.get("VERIF_REPO", "/repo")
COQ = os.path.join(VERIF, "coq")
BUILD = os.path.join(VERIF, "build")
PY = "/venv/bin/python"
GUARD = "LIVE_CLONES_BEAUTIFULSOUP_VERIF"

if REPO not in sys.path:
    sys.path.insert(0, REPO)

GLOBAL_TRUSTED_BASE = [
    "Coq 8.16.1 kernel (coqc) incl. vm_compute; native_compute not used",
    "axioms: none declared by the development; per-theorem Print Assumptions output recorded under coverage.assumptions_printed",
    "extraction: ExtrOcamlBasic only (Extract Inductive bool/option/unit/list/prod/sumbool/sumor; Extract Inlined Constant andb/orb); no directive of our own; OCaml 4.13.1; generic ocaml/driver.ml",
    "translator/gen_tables.py (prints Python values of /repo's tables as Gallina literals)",
    "harness (generators, canonicalisation, diff) and the Python interpreter/stdlib running the implementation",
    "the reading of the property into the Coq statements in coq/Props/<id>.v",
]


# ---------------------------------------------------------------------------- s-expressions
def enc(x):
    """Python nested lists / ints / bools / str / bytes / None -> s-expression text."""
    if x is None:
        return "()"
    if isinstance(x, bool):
        return "1" if x else "0"
    if isinstance(x, int):
        return str(x)
    if isinstance(x, str):
        return "(" + " ".join(str(ord(c)) for c in x) + ")"
    if isinstance(x, (bytes, bytearray)):
        return "(" + " ".join(str(b) for b in x) + ")"
    if isinstance(x, (list, tuple)):
        return "(" + " ".join(enc(y) for y in x) + ")"
    raise TypeError("cannot encode %r" % (x,))


def opt(x):
    """option encoding: None -> (), v -> (v)."""
    return [] if x is None else [x]


_tok = re.compile(r"\(|\)|-?\d+")


def dec(s):
    """s-expression text -> nested lists of ints."""
    stack = [[]]
    for t in _tok.findall(s):
        if t == "(":
            stack.append([])
        elif t == ")":
            l = stack.pop()
            stack[-1].append(l)
        else:
            stack[-1].append(int(t))
    if len(stack) != 1 or len(stack[0]) != 1:
        raise ValueError("bad sexp from model: %r" % s[:200])
    return stack[0][0]


def to_str(l):
    return "".join(chr(c) for c in l)


def unopt(l):
    return l[0] if l else None


class Model:
    """Runs the extracted model (build/modelrun) on batches of commands. One process is kept for the whole check
    (the binary evaluates its generated tables when it starts, ~0.5 s): commands are written by a helper thread while
    the answers are read line by line, so neither side can block on a full pipe."""

    def __init__(self):
        self.exe = os.path.join(BUILD, "modelrun")
        self.calls = 0
        self.proc = None

    def available(self):
        return os.path.exists(self.exe)

    def _start(self):
        self.proc = subprocess.Popen([self.exe], stdin=subprocess.PIPE, stdout=subprocess.PIPE, stderr=subprocess.PIPE,
                                     preexec_fn=_unlimit_stack, bufsize=1 << 20)
        self.started_mtime = os.path.getmtime(self.exe)

    def close(self):
        if self.proc is not None:
            try:
                self.proc.stdin.close()
                self.proc.wait(timeout=10)
            except Exception:
                self.proc.kill()
            self.proc = None

    def run(self, cmds, chunk=20000):
        """cmds: list of python values (each a command list). Returns decoded results."""
        import threading
        out = []
        for i in range(0, len(cmds), chunk):
            part = cmds[i:i + chunk]
            if self.proc is None or self.proc.poll() is not None or os.path.getmtime(self.exe) != self.started_mtime:
                self.close()
                self._start()
            text = ("\n".join(enc(c) for c in part) + "\n").encode()
            proc = self.proc
            err = []

            def feed():
                try:
                    proc.stdin.write(text)
                    proc.stdin.flush()
                except Exception as e:       # the model died: the reader notices
                    err.append(e)
            t = threading.Thread(target=feed, daemon=True)
            t.start()
            lines = []
            for _ in part:
                ln = proc.stdout.readline()
                if not ln:
                    break
                lines.append(ln.decode().rstrip("\n"))
            t.join(timeout=60)
            if len(lines) != len(part):
                rc = proc.poll()
                tail = b""
                try:
                    tail = proc.stderr.read()[-500:] if rc is not None else b""
                except Exception:
                    pass
                self.close()
                raise RuntimeError("modelrun returned %d lines for %d commands (rc=%s) %s" % (len(lines), len(part), rc, tail.decode(errors="replace")))
            for ln in lines:
                if ln.startswith("ERR"):
                    out.append(("ERR", ln))
                else:
                    out.append(dec(ln))
            self.calls += len(part)
        return out


def _unlimit_stack():
    import resource
    try:
        resource.setrlimit(resource.RLIMIT_STACK, (resource.RLIM_INFINITY, resource.RLIM_INFINITY))
    except Exception:
        pass


# ---------------------------------------------------------------------------- build
class BuildResult:
    def __init__(self):
        self.tables_ok = False
        self.tables_msg = ""
        self.model_ok = False
        self.proof_ok = False
        self.errors = []          # list of dicts {stage, file, line, theorem, message}
        self.assumptions = []     # list of (theorem, text)
        self.obligations = 0
        self.discharged = 0
        self.forbidden = []       # forbidden tokens found in the development
        self.wall = 0.0
        self.cmds = []


def sh(cmd, cwd=None, timeout=1500, env=None):
    e = dict(os.environ)
    if env:
        e.update(env)
    p = subprocess.run(cmd, shell=True, cwd=cwd, stdout=subprocess.PIPE, stderr=subprocess.STDOUT,
                       timeout=timeout, env=e)
    return p.returncode, p.stdout.decode(errors="replace")


def _enclosing_statement(path, line):
    """Name of the Theorem/Lemma/... containing `line` in a .v file."""
    try:
        src = open(path, encoding="utf-8").read().split("\n")
    except OSError:
        return None
    pat = re.compile(r"^\s*(Theorem|Lemma|Corollary|Example|Fact|Definition|Fixpoint|Remark)\s+([A-Za-z0-9_']+)")
    for i in range(min(line, len(src)) - 1, -1, -1):
        m = pat.match(src[i])
        if m:
            return m.group(2)
    return None


def parse_coq_errors(out, stage):
    errs = []
    for m in re.finditer(r'File "([^"]+)", line (\d+), characters [\d-]+:\s*\n(Error:?[^\n]*(?:\n(?!File |make|COQC)[^\n]*){0,12})', out):
        f, ln, msg = m.group(1), int(m.group(2)), m.group(3)
        if not msg.startswith("Error"):
            continue
        path = f if os.path.isabs(f) else os.path.normpath(os.path.join(COQ, f))
        errs.append({"stage": stage, "file": os.path.relpath(path, VERIF), "line": ln,
                     "theorem": _enclosing_statement(path, ln), "message": msg.strip()[:800]})
    return errs


FORBIDDEN = re.compile(r"\b(Admitted|admit|Axiom|Parameter|Conjecture|Admit Obligations)\b|Unset Guard|bypass_check|type-in-type|impredicative-set|Unset Positivity|Unset Universe")


def scan_forbidden():
    found = []
    for root, _, files in os.walk(COQ):
        for fn in files:
            if not fn.endswith(".v"):
                continue
            p = os.path.join(root, fn)
            txt = open(p, encoding="utf-8").read()
            # strip comments (non-nested approximation is enough: we never write these words in comments)
            for i, line in enumerate(txt.split("\n"), 1):
                if FORBIDDEN.search(line) and "(*" not in line:
                    found.append("%s:%d: %s" % (os.path.relpath(p, VERIF), i, line.strip()[:80]))
    p = os.path.join(COQ, "_CoqProject")
    if os.path.exists(p) and re.search(r"type-in-type|impredicative-set", open(p).read()):
        found.append("_CoqProject passes a forbidden flag")
    return found


def build(prop, extra_targets=()):
    """Regenerate Gen/*.v from /repo, make Props/<prop>.vo (proof obligations) and the extracted
    model, under a lock. Never raises for build failures: they are reported in BuildResult."""
    t0 = time.time()
    br = BuildResult()
    os.makedirs(BUILD, exist_ok=True)
    lock = open(os.path.join(BUILD, ".lock"), "w")
    fcntl.flock(lock, fcntl.LOCK_EX)
    try:
        # 1. translator
        rc, out = sh("%s %s" % (PY, os.path.join(VERIF, "translator", "gen_tables.py")),
                     env={"PYTHONPATH": REPO, "PYTHONHASHSEED": "0", "VERIF_REPO": REPO}, timeout=600)
        br.cmds.append("translator/gen_tables.py")
        br.tables_msg = out.strip()[-2000:]
        mine = "gen_c%s" % prop[1:].lower()
        own_failed = re.search(r"TRANSLATOR-FAILED %s:.*" % mine, out)
        br.tables_ok = (rc == 0 and not own_failed)
        if rc != 0 or own_failed:
            br.errors.append({"stage": "translator", "file": "translator/gen_tables.py", "line": 0,
                              "theorem": "translator(fail-closed)",
                              "message": (own_failed.group(0) if own_failed else out.strip()[-1500:])})
        # 2. Makefile
        mk = os.path.join(COQ, "Makefile")
        cp = os.path.join(COQ, "_CoqProject")
        if not os.path.exists(mk) or os.path.getmtime(mk) < os.path.getmtime(cp):
            sh("coq_makefile -f _CoqProject -o Makefile", cwd=COQ)
        # 3. model + extraction (must build even when a proof is broken)
        rc, out = sh("timeout 1200 make -j16 Run/Extract.vo", cwd=COQ)
        br.cmds.append("make Run/Extract.vo")
        if rc != 0:
            br.errors += parse_coq_errors(out, "model") or [
                {"stage": "model", "file": "", "line": 0, "theorem": None, "message": out[-1500:]}]
        else:
            ml = os.path.join(BUILD, "model.ml")
            exe = os.path.join(BUILD, "modelrun")
            drv = os.path.join(VERIF, "ocaml", "driver.ml")
            if (not os.path.exists(exe) or os.path.getmtime(exe) < os.path.getmtime(ml)
                    or os.path.getmtime(exe) < os.path.getmtime(drv)):
                rc2, out2 = sh("cp %s driver.ml && ocamlfind ocamlopt -w -a model.mli model.ml driver.ml -o modelrun.tmp && mv modelrun.tmp modelrun" % drv,
                               cwd=BUILD, timeout=600)
                br.cmds.append("ocamlfind ocamlopt model.mli model.ml driver.ml")
                if rc2 != 0:
                    br.errors.append({"stage": "driver", "file": "ocaml/driver.ml", "line": 0,
                                      "theorem": None, "message": out2[-1500:]})
            br.model_ok = os.path.exists(exe) and not any(e["stage"] in ("model", "driver") for e in br.errors)
        # 4. the property's theorems
        pv = "Props/%s.v" % prop
        targets = " ".join([pv + "o"] + list(extra_targets))
        # always recompile the Props file itself so Print Assumptions output is captured
        try:
            os.remove(os.path.join(COQ, pv + "o"))
        except OSError:
            pass
        rc, out = sh("timeout 1500 make -j16 %s" % targets, cwd=COQ)
        br.cmds.append("make " + targets)
        src = open(os.path.join(COQ, pv), encoding="utf-8").read()
        thms = re.findall(r"^\s*Theorem\s+([A-Za-z0-9_']+)", src, re.M)
        br.obligations = len(thms)
        if rc != 0:
            errs = parse_coq_errors(out, "proof")
            br.errors += errs or [{"stage": "proof", "file": pv, "line": 0, "theorem": None,
                                   "message": out[-1500:]}]
            br.discharged = 0
        else:
            # Print Assumptions output, in order
            blocks = re.findall(r"(Closed under the global context|Axioms:\n(?:.+\n?)+?(?=\n|Closed|Axioms:|$))", out)
            for name, b in zip(thms, blocks):
                br.assumptions.append((name, b.strip()))
            br.discharged = len(thms)
            br.proof_ok = (len(blocks) >= len(thms))
            if not br.proof_ok:
                br.errors.append({"stage": "proof", "file": pv, "line": 0, "theorem": None,
                                  "message": "Print Assumptions output missing for some theorem"})
        if not br.tables_ok:
            br.proof_ok = False          # the data half of the tie is broken: nothing is shown for the current source
        br.forbidden = scan_forbidden()
        if br.forbidden:
            br.proof_ok = False
            br.errors.append({"stage": "proof", "file": "", "line": 0, "theorem": None,
                              "message": "forbidden constructs: " + "; ".join(br.forbidden[:5])})
    finally:
        fcntl.flock(lock, fcntl.LOCK_UN)
        lock.close()
    br.wall = time.time() - t0
    return br


# ---------------------------------------------------------------------------- known findings
def load_known(prop):
    p = os.path.join(VERIF, "known_findings.json")
    if not os.path.exists(p):
        return []
    data = json.load(open(p))
    return [e for e in data.get("findings", []) if e.get("property") == prop]


# ---------------------------------------------------------------------------- context
class Ctx:
    def __init__(self, prop, tier, seed):
        self.prop, self.tier, self.seed = prop, tier, seed
        self.rng = random.Random(seed)
        self.model = Model()
        self.build = None
        self.t0 = time.time()
        self.failures = []        # concrete property violations on the implementation
        self.disagreements = []   # model vs implementation
        self.counts = {}
        self.samples = []
        self.distinct = set()
        self.evaluations = 0
        self.notes = []
        self.search_mode = False  # True during the escalated search after a break
        self.theorem_names = []
        self.rule = ""
        self.extra_cov = {}
        self.assumptions = []
        self.traces_validated = 0
        self.listedit = []

    @property
    def thorough(self):
        return self.tier == "thorough" or self.search_mode

    def count(self, key, n=1):
        self.counts[key] = self.counts.get(key, 0) + n

    def case(self, key, nontrivial=True):
        """Register one explored case (hashable key); returns nothing."""
        self.evaluations += 1
        if nontrivial:
            self.distinct.add(hashlib.blake2b(repr(key).encode(), digest_size=8).digest())

    def sample(self, obj, cap=6):
        if len(self.samples) < cap:
            self.samples.append(obj)

    def fail(self, case, what, observed=None, expected=None, tag=None):
        """The implementation violates the property on a concrete case."""
        if len(self.failures) < 200:
            self.failures.append({"case": case, "what": what, "observed": observed,
                                  "expected": expected, "tag": tag})
        self.count("oracle_failures")

    def disagree(self, name, case, impl, model):
        """Correspondence `name` does not hold on this case."""
        if len(self.disagreements) < 200:
            self.disagreements.append({"correspondence": name, "case": case, "impl": impl, "model": model})
        self.count("disagreements")


def write_replay(ctx, payload):
    os.makedirs(os.path.join(VERIF, "replays"), exist_ok=True)
    n = 0
    while True:
        p = os.path.join(VERIF, "replays", "%s-%d-%d.json" % (ctx.prop, ctx.seed, n))
        if not os.path.exists(p):
            break
        n += 1
    payload = dict(payload)
    payload["property"] = ctx.prop
    payload["seed"] = ctx.seed
    payload["tier"] = ctx.tier
    with open(p, "w") as f:
        json.dump(payload, f, indent=1, default=repr, ensure_ascii=True)
    return p


def write_evidence(ctx, violations, level="proof"):
    br = ctx.build
    cov = {
        "obligations": max(br.obligations, 1) if br else 1,
        "discharged": br.discharged if br else 0,
        "checker_cmd": "cd coq && make Props/%s.vo (coqc 8.16.1, full .vo build) ; Print Assumptions under every theorem" % ctx.prop,
        "trusted_base": GLOBAL_TRUSTED_BASE + ctx.assumptions,
        "theorems": [n for n, _ in br.assumptions] if br else [],
        "assumptions_printed": {n: a for n, a in br.assumptions} if br else {},
        "proof_errors": br.errors if br else [],
        "tables_regenerated": br.tables_msg if br else "",
        "build_wall_s": round(br.wall, 2) if br else 0,
        "evaluations": ctx.evaluations,
        "distinct_nontrivial": len(ctx.distinct),
        "rule": ctx.rule,
        "samples": ctx.samples or ["(none)"],
        "traces_validated_against_impl": ctx.traces_validated or ctx.evaluations,
        "disagreements": len(ctx.disagreements),
        "oracle_failures": len(ctx.failures),
        "counts": ctx.counts,
        "notes": ctx.notes,
    }
    cov.update(ctx.extra_cov)
    ev = {
        "property_id": ctx.prop,
        "tier": ctx.tier,
        "seed": ctx.seed,
        "level": level,
        "coverage": cov,
        "assumptions": ctx.assumptions,
        "wall_s": round(time.time() - ctx.t0, 2),
        "violations": violations,
    }
    os.makedirs(os.path.join(VERIF, "evidence"), exist_ok=True)
    with open(os.path.join(VERIF, "evidence", "%s.json" % ctx.prop), "w") as f:
        json.dump(ev, f, indent=1, default=repr, ensure_ascii=True)


def verdict(ctx, mod):
    """Decide the outcome, print KNOWN-FINDING / VIOLATION lines, write evidence; returns exit code."""
    known = load_known(ctx.prop)
    matchers = getattr(mod, "KNOWN_MATCHERS", {})
    open_known = [k for k in known if k.get("status") == "open"]
    unlisted = []
    hit = {}
    for f in ctx.failures:
        m = None
        for k in open_known:
            fn = matchers.get(k.get("matcher"))
            try:
                if fn and fn(f):
                    m = k
                    break
            except Exception:
                pass
        if m is None:
            unlisted.append(f)
        else:
            hit.setdefault(m["id"], []).append(f)
    for k in open_known:
        # a listed finding is announced when its witness still fails on the current tree
        still = False
        rep = getattr(mod, "replay_known", None)
        if rep is not None:
            try:
                still = bool(rep(ctx, k))
            except Exception as e:
                ctx.notes.append("known finding %s witness could not be replayed: %r" % (k["id"], e))
        if still or k["id"] in hit:
            print("KNOWN-FINDING: property=%s %s [%s]" % (ctx.prop, k.get("description", ""), k["id"]))
        else:
            ctx.notes.append("known finding %s no longer reproduces" % k["id"])
    br = ctx.build
    code = 0
    if unlisted:
        f = unlisted[0]
        p = write_replay(ctx, {"kind": "failing-input", "failure": f,
                               "other_failures": unlisted[1:10],
                               "proof_ok": br.proof_ok if br else None,
                               "disagreements": ctx.disagreements[:5]})
        print("VIOLATION property=%s replay=%s" % (ctx.prop, p))
        code = 1
    elif (br is not None and not br.proof_ok) or ctx.disagreements:
        names = []
        if br is not None and not br.proof_ok:
            names += ["%s (%s:%s)" % (e.get("theorem"), e.get("file"), e.get("line")) for e in br.errors]
        names += sorted({d["correspondence"] for d in ctx.disagreements})
        p = write_replay(ctx, {"kind": "broken-obligation", "no_longer_checks": names,
                               "proof_errors": br.errors if br else [],
                               "disagreements": ctx.disagreements[:10],
                               "search": "direct oracle ran on %d cases (thorough budget) without finding a failing input" % ctx.evaluations})
        print("VIOLATION property=%s replay=%s no-failing-input-found" % (ctx.prop, p))
        code = 1
    write_evidence(ctx, violations=len(unlisted) + (1 if code and not unlisted else 0))
    return code


def fingerprints(ctx):
    """Source fingerprints of the functions the hand-written model follows (translator/fingerprints.py). Drift is not
    a verdict: it is recorded, and the run uses the thorough budget because the model may no longer be aligned."""
    sys.path.insert(0, os.path.join(VERIF, "translator"))
    try:
        import fingerprints as fp
        d = fp.drift(ctx.prop)
    except Exception as e:
        ctx.notes.append("fingerprints unavailable: %r" % (e,))
        return
    if d is None:
        return
    ctx.extra_cov["source_fingerprints"] = {"functions": len(fp.MODELLED[ctx.prop]), "drifted": [x[0] for x in d]}
    if d:
        ctx.search_mode = True
        ctx.notes.append("modelled source changed since the model was aligned (%s): correspondence run with the thorough budget"
                         % ", ".join(x[0] for x in d))


def coqchk(ctx):
    """Thorough tier: re-check the property's compiled theorems and everything they depend on with the independent
    checker and record the axioms it reports (none are expected)."""
    t0 = time.time()
    rc, out = sh("timeout 1500 coqchk -silent -o -R . BS BS.Props.%s" % ctx.prop, cwd=COQ, timeout=1600)
    m = re.search(r"\* Axioms:(.*?)\n\s*\n\* Constants/Inductives relying on type-in-type:(.*?)\n\s*\n\* Constants/Inductives relying on unsafe"
                  r" \(co\)fixpoints:(.*?)\n\s*\n\* Inductives whose positivity is assumed:(.*?)\n", out, re.S)
    summary = {"exit": rc, "wall_s": round(time.time() - t0, 1)}
    if m:
        summary.update({"axioms": m.group(1).strip(), "type_in_type": m.group(2).strip(),
                        "unsafe_fixpoints": m.group(3).strip(), "assumed_positivity": m.group(4).strip()})
    else:
        summary["output_tail"] = out[-800:]
    ctx.extra_cov["coqchk"] = summary
    clean = rc == 0 and m and all(g.strip() == "<none>" for g in m.groups())
    if not clean:
        ctx.build.proof_ok = False
        ctx.build.errors.append({"stage": "coqchk", "file": "coq/Props/%s.v" % ctx.prop, "line": 0, "theorem": "coqchk -o",
                                 "message": json.dumps(summary)[:800]})


def run_check(prop, mod, tier, seed, replay=None):
    ctx = Ctx(prop, tier, seed)
    if replay:
        return mod.replay(ctx, json.load(open(replay)))
    ctx.build = build(prop, getattr(mod, "EXTRA_TARGETS", ()))
    ctx.assumptions = list(getattr(mod, "ASSUMPTIONS", []))
    ctx.rule = getattr(mod, "RULE", "")
    if not ctx.build.model_ok:
        ctx.notes.append("extracted model unavailable: correspondence skipped, oracle only")
    if tier == "thorough" and ctx.build.proof_ok:
        coqchk(ctx)
    fingerprints(ctx)
    mod.run(ctx)
    broke = (not ctx.build.proof_ok) or bool(ctx.disagreements)
    if broke and not ctx.failures and tier != "thorough":
        # escalate: search for a concrete failing input with the thorough budget
        ctx.search_mode = True
        ctx.notes.append("escalated to thorough-budget search after a broken proof/correspondence")
        mod.run(ctx)
    return verdict(ctx, mod)
