"""Implementation-side drivers shared by the tree properties (C01, C02, C03, ...):
an event-replaying TreeBuilder, a forest tracker that applies editing calls to real objects and
dumps their six links in the model's format, the link walker (C01 oracle) and the independent
list-of-lists reference (C02 oracle)."""
import warnings
import bs4
from bs4 import BeautifulSoup
from bs4.builder import TreeBuilder
from bs4.element import (Tag, NavigableString, Comment, CData, ProcessingInstruction, XMLProcessingInstruction,
                         Declaration, Doctype, Stylesheet, Script, TemplateString, RubyTextString,
                         RubyParenthesisString, PageElement, PreformattedString)

CLASSES = [NavigableString, CData, ProcessingInstruction, XMLProcessingInstruction, Comment, Declaration, Doctype,
           Stylesheet, Script, TemplateString, RubyTextString, RubyParenthesisString]
CLASS_ID = {c: i for i, c in enumerate(CLASSES)}

HTML_CFG = {"void": sorted(bs4.builder.HTMLTreeBuilder.DEFAULT_EMPTY_ELEMENT_TAGS),
            "pw": sorted(bs4.builder.HTMLTreeBuilder.DEFAULT_PRESERVE_WHITESPACE_TAGS),
            "containers": {k: CLASS_ID[v] for k, v in bs4.builder.HTMLTreeBuilder.DEFAULT_STRING_CONTAINERS.items()}}
XML_CFG = {"void": None, "pw": [], "containers": {}}


def enc_cfg(cfg):
    return [[] if cfg["void"] is None else [list(cfg["void"])], list(cfg["pw"]),
            [[k, v] for k, v in sorted(cfg["containers"].items())],
            BeautifulSoup.ASCII_SPACES, BeautifulSoup.ROOT_TAG_NAME]


class EventBuilder(TreeBuilder):
    """Replays a list of events into the BeautifulSoup object, ignoring the markup.
    events: ("s", name, prefix, attrs) ("e", name, prefix) ("d", text) ("x", class_id or None)"""
    NAME = "verif-events"
    features = []
    is_xml = False

    def __init__(self, events, cfg, reject_after=None, **kw):
        self.events = events
        self.reject_after = reject_after
        super().__init__(multi_valued_attributes=None,
                         preserve_whitespace_tags=set(cfg["pw"]),
                         string_containers={k: CLASSES[v] for k, v in cfg["containers"].items()},
                         empty_element_tags=None if cfg["void"] is None else set(cfg["void"]), **kw)

    def feed(self, markup):
        soup = self.soup
        for i, ev in enumerate(self.events):
            if self.reject_after is not None and i == self.reject_after:
                from bs4.exceptions import ParserRejectedMarkup
                raise ParserRejectedMarkup("injected")
            if ev[0] == "s":
                soup.handle_starttag(ev[1], None, ev[2], dict(ev[3]))
            elif ev[0] == "e":
                soup.handle_endtag(ev[1], ev[2])
            elif ev[0] == "d":
                soup.handle_data(ev[1])
            else:
                soup.endData(None if ev[1] is None else CLASSES[ev[1]])


def enc_event(ev):
    if ev[0] == "s":
        return [0, ev[1], [] if ev[2] is None else [ev[2]], [[k, v] for k, v in ev[3]]]
    if ev[0] == "e":
        return [1, ev[1], [] if ev[2] is None else [ev[2]]]
    if ev[0] == "d":
        return [2, ev[1]]
    return [3, [] if ev[1] is None else [ev[1]]]


class HtmlEventBuilder(EventBuilder, bs4.builder.HTMLTreeBuilder):
    """The same replaying builder on top of the HTML flavour's class-level defaults: every option is still given
    explicitly (also the empty ones), so none of the flavour's default tables may show through."""
    NAME = "verif-events-html"


def build(events, cfg, html_flavour=False):
    with warnings.catch_warnings():
        warnings.simplefilter("ignore")
        return BeautifulSoup("x", builder=(HtmlEventBuilder if html_flavour else EventBuilder)(events, cfg))


def preorder(root):
    """Pre-order walk of the .contents lists (iterative)."""
    out = []
    stack = [root]
    while stack:
        x = stack.pop()
        out.append(x)
        if isinstance(x, Tag):
            stack.extend(reversed(x.contents))
    return out


def kind_of(o):
    if isinstance(o, BeautifulSoup):
        return 3
    if isinstance(o, Tag):
        return 0
    return 2 if isinstance(o, PreformattedString) else 1


def label_of(o):
    if isinstance(o, BeautifulSoup):
        return o.name
    if isinstance(o, Tag):
        return o.name
    return str(o)


class PlainLabel(str):
    """A str subclass that is not a NavigableString."""


class Forest:
    """Registry of live objects with stable numeric ids (creation order as the model allocates)."""

    def __init__(self, soup=None):
        self.objs = []
        self.ids = {}
        if soup is not None:
            for o in preorder(soup):
                self.add(o)

    def add(self, o):
        self.ids[id(o)] = len(self.objs)
        self.objs.append(o)
        return len(self.objs) - 1

    def oid(self, o):
        if o is None:
            return None
        return self.ids.get(id(o), -1)

    def dead(self, o):
        return o is None or bool(o.__dict__.get("_decomposed", False))

    def new(self, kind, label):
        if kind == 0:
            o = Tag(name=label)
        elif kind == 1:
            o = NavigableString(label); o.setup()
        elif kind == 2:
            o = Comment(label); o.setup()
        else:
            with warnings.catch_warnings():
                warnings.simplefilter("ignore")
                o = BeautifulSoup("", "html.parser")
        return self.add(o)

    def arg(self, a):
        if a[0] == 0:
            return self.objs[a[1]]
        # a plain-string argument: every other one is handed over as an instance of a str subclass (a str-based Enum member,
        # a markupsafe-like wrapper ...) - to the editing calls it is a plain string all the same
        return PlainLabel(a[1]) if len(a[1]) % 2 == 1 else a[1]

    def apply(self, op):
        """op in the model's encoding. Returns 0 ok / 1 ValueError / 'EXC:...'"""
        o = self.objs
        try:
            with warnings.catch_warnings():
                warnings.simplefilter("ignore")
                c = op[0]
                if c == 0:
                    o[op[1]].insert(op[2], *[self.arg(a) for a in op[3]])
                elif c == 1:
                    o[op[1]].append(self.arg(op[2]))
                elif c == 2:
                    mode = op[3] if len(op) > 3 else 0
                    src = o[op[2]]
                    # extend() accepts a Tag (its children) or any iterable of elements - also a LAZY one over the live
                    # child list, which the call must snapshot before it starts moving elements
                    arg = src if mode == 0 else src.children if mode == 1 else iter(src.contents) if mode == 2 else (x for x in src.contents)
                    o[op[1]].extend(arg)
                elif c == 3:
                    o[op[1]].extend([self.arg(a) for a in op[2]])
                elif c == 4:
                    o[op[1]].insert_before(*[self.arg(a) for a in op[2]])
                elif c == 5:
                    o[op[1]].insert_after(*[self.arg(a) for a in op[2]])
                elif c == 6:
                    o[op[1]].extract()
                elif c == 7:
                    o[op[1]].replace_with(*[self.arg(a) for a in op[2]])
                elif c == 8:
                    o[op[1]].wrap(o[op[2]])
                elif c == 9:
                    o[op[1]].unwrap()
                elif c == 10:
                    o[op[1]].decompose()
                elif c == 11:
                    o[op[1]].clear(decompose=bool(op[2]))
                elif c == 12:
                    o[op[1]].string = PlainLabel(op[2]) if len(op[2]) % 2 == 1 else op[2]
                elif c == 13:
                    o[op[1]].smooth()
                elif c == 14:
                    self.new(op[1], op[2])
                    return 0
            return 0
        except ValueError:
            return 1
        except NotImplementedError:
            return 1
        except Exception as e:
            return "EXC:" + type(e).__name__

    def discover(self, fresh_labels=None):
        """Find objects reachable from registered ones that are not registered yet; register them.
        fresh_labels: {label: id} wanted by the model for ids >= len(self.objs), or None for walk order."""
        found = []
        seen = set()
        for o in list(self.objs):
            if self.dead(o) or not isinstance(o, Tag):
                continue
            stack = list(reversed(o.contents))
            while stack:
                x = stack.pop()
                if id(x) in seen:
                    continue
                seen.add(id(x))
                if id(x) not in self.ids:
                    found.append(x)
                    if isinstance(x, Tag):
                        stack.extend(reversed(x.contents))
        if not found:
            return {}
        placed = {}
        if fresh_labels is None:
            for x in found:
                self.add(x)
            return {}
        # place by label at the model's ids; pad with None for model-only garbage
        want = dict(fresh_labels)
        for x in found:
            lab = label_of(x)
            if lab in want:
                placed[want.pop(lab)] = x
            else:
                placed[None] = x   # no counterpart in the model
        return placed

    def cell(self, i):
        o = self.objs[i]
        if o is None:
            return None
        if self.dead(o):
            return [kind_of(o) if not isinstance(o, str) else 1, 1, [], [], [], [], [], [], None]
        f = lambda e: [] if e is None else [self.oid(e)]
        return [kind_of(o), 0, f(o.parent), [self.oid(k) for k in o.contents] if isinstance(o, Tag) else [],
                f(o.previous_sibling), f(o.next_sibling), f(o.previous_element), f(o.next_element),
                [ord(ch) for ch in label_of(o)]]

    def dump(self):
        return [self.cell(i) for i in range(len(self.objs))]

    def sync(self, model_state):
        """After an operation: register the objects the call created at the ids the model gave them. A fresh model
        element that has a parent is located by POSITION (its index in the model parent's child list -> the
        implementation parent's .contents at that index), so look-alike labels cannot confuse the matching; a fresh
        model element without parent is a detached temporary of the call and has no implementation counterpart.
        Returns a list of problems (strings); any real divergence then shows up in compare_states."""
        problems = []
        n = len(self.objs)
        total = len(model_state)
        slots = {}
        pending = list(range(n, total))
        for _ in range(total - n + 1):
            rest = []
            for i in pending:
                par = model_state[i][2]
                if not par:
                    slots[i] = None
                    continue
                p = par[0]
                pobj = self.objs[p] if p < n else slots.get(p, "wait")
                if pobj == "wait":
                    rest.append(i)
                    continue
                obj = None
                if pobj is not None and isinstance(pobj, Tag) and i in model_state[p][3]:
                    idx = model_state[p][3].index(i)
                    if idx < len(pobj.contents) and id(pobj.contents[idx]) not in self.ids:
                        obj = pobj.contents[idx]
                if obj is None:
                    problems.append("fresh model element %d (label %r) has no implementation element at its position" % (
                        i, "".join(map(chr, model_state[i][8]))))
                slots[i] = obj
            pending = rest
            if not pending:
                break
        for i in pending:
            slots[i] = None
        for i in range(n, total):
            o = slots.get(i)
            if o is not None and id(o) not in self.ids:
                self.ids[id(o)] = i
            elif o is not None:
                o = None
            self.objs.append(o)
        extra = self.discover({})
        extra = extra.get(None) if extra else None
        if extra is not None:
            problems.append("implementation created an element the model has no counterpart for: %r" % label_of(extra))
            self.add(extra)
        return problems

    def roots(self):
        return [o for o in self.objs if o is not None and not self.dead(o) and o.parent is None]


def compare_states(forest, model_state):
    """Model dump vs implementation dump, all six links of every live element. Returns list of diffs."""
    diffs = []
    impl = forest.dump()
    for i, (a, m) in enumerate(zip(impl, model_state)):
        if a is None:
            # model-only element: must be a detached, childless temporary
            if m[2] or m[3] or m[4] or m[5] or m[6] or m[7]:
                diffs.append((i, "model-only element is linked", None, m))
            continue
        if a[1] or m[1]:
            if a[1] != m[1]:
                diffs.append((i, "decomposed flag", a[1], m[1]))
            continue
        a = a[:8] + [a[8]]
        if a != m:
            names = ["kind", "dead", "parent", "contents", "previous_sibling", "next_sibling", "previous_element",
                     "next_element", "label"]
            for k in range(9):
                if a[k] != m[k]:
                    diffs.append((i, names[k], a[k], m[k]))
    if len(impl) != len(model_state):
        diffs.append((-1, "number of elements", len(impl), len(model_state)))
    return diffs


# ------------------------------------------------------------------ C01 oracle: the link walker
def walk_check(forest):
    """Every pointer and every iterator of every live element against the pre-order walk of the
    .contents lists of its tree. Returns a list of problem strings (empty = consistent)."""
    bad = []
    seen_global = {}
    for root in forest.roots():
        pre = preorder(root)
        pos = {id(x): k for k, x in enumerate(pre)}
        if len(pos) != len(pre):
            bad.append("an element occurs twice in one tree (root %s)" % forest.oid(root))
            continue
        for x in pre:
            if id(x) in seen_global:
                bad.append("element %s occurs in two trees" % forest.oid(x))
            seen_global[id(x)] = root
        nm = lambda e: forest.oid(e)
        # root
        if root.previous_sibling is not None or root.next_sibling is not None:
            bad.append("root %s has siblings" % nm(root))
        if root.previous_element is not None:
            bad.append("root %s has a previous_element" % nm(root))
        linked = True
        if isinstance(root, BeautifulSoup) and len(pre) > 1 and root.next_element is None:
            linked = False            # the document root may stand outside the chain ...
            if pre[1].previous_element is not None:
                bad.append("root %s outside the chain but its first element points back" % nm(root))
        chain = pre if linked else pre[1:]
        for k, x in enumerate(pre):
            # structure
            if isinstance(x, Tag):
                for j, c in enumerate(x.contents):
                    if c.parent is not x:
                        bad.append("child %s of %s has parent %s" % (nm(c), nm(x), nm(c.parent)))
                    exp_prev = x.contents[j - 1] if j > 0 else None
                    exp_next = x.contents[j + 1] if j + 1 < len(x.contents) else None
                    if c.previous_sibling is not exp_prev:
                        bad.append("previous_sibling of %s is %s, expected %s" % (nm(c), nm(c.previous_sibling), nm(exp_prev)))
                    if c.next_sibling is not exp_next:
                        bad.append("next_sibling of %s is %s, expected %s" % (nm(c), nm(c.next_sibling), nm(exp_next)))
            # element chain
            if x is root and not linked:
                continue
            ci = k if linked else k - 1
            exp_ne = chain[ci + 1] if ci + 1 < len(chain) else None
            exp_pe = chain[ci - 1] if ci > 0 else None
            if x.next_element is not exp_ne:
                bad.append("next_element of %s is %s, expected %s" % (nm(x), nm(x.next_element), nm(exp_ne)))
            if x.previous_element is not exp_pe:
                bad.append("previous_element of %s is %s, expected %s" % (nm(x), nm(x.previous_element), nm(exp_pe)))
        if bad:
            continue
        # iterators (only meaningful once the pointers are right; they chase pointers)
        for k, x in enumerate(pre):
            same = lambda it, exp: len(it) == len(exp) and all(a is b for a, b in zip(it, exp))
            if x is root and not linked:
                exp_next, exp_prev = [], []
            else:
                ci = k if linked else k - 1
                exp_next, exp_prev = chain[ci + 1:], list(reversed(chain[:ci]))
            try:
                if not same(list(x.next_elements), exp_next):
                    bad.append("next_elements of %s" % nm(x))
                if not same(list(x.previous_elements), exp_prev):
                    bad.append("previous_elements of %s" % nm(x))
                if x.parent is not None:
                    sibs = x.parent.contents
                    j = j0 = [i for i, s in enumerate(sibs) if s is x][0]
                    if not same(list(x.next_siblings), sibs[j + 1:]):
                        bad.append("next_siblings of %s" % nm(x))
                    if not same(list(x.previous_siblings), list(reversed(sibs[:j]))):
                        bad.append("previous_siblings of %s" % nm(x))
                anc = []
                p = x.parent
                while p is not None:
                    anc.append(p); p = p.parent
                if not same(list(x.parents), anc):
                    bad.append("parents of %s" % nm(x))
                me = [] if getattr(x, "hidden", False) else [x]      # the self_and_* views leave out an element whose own tag is not shown
                if isinstance(x, Tag):
                    sub = preorder(x)[1:]
                    if not same(list(x.descendants), sub):
                        bad.append("descendants of %s" % nm(x))
                    if not same(list(x.children), list(x.contents)):
                        bad.append("children of %s" % nm(x))
                    # the remaining public views of the same tree: iteration, membership, position, self_and_* and
                    # the deprecated generator spellings
                    if not same(list(iter(x)), list(x.contents)):
                        bad.append("iter() of %s" % nm(x))
                    if not same(list(x.self_and_descendants), me + sub):
                        bad.append("self_and_descendants of %s" % nm(x))
                    for j, c in enumerate(x.contents):
                        if x.index(c) != j or not any(c is d for d in x.contents):
                            bad.append("index of child %s in %s" % (nm(c), nm(x)))
                    with warnings.catch_warnings():
                        warnings.simplefilter("ignore")
                        if not same(list(x.childGenerator()), list(x.contents)) or not same(list(x.recursiveChildGenerator()), sub):
                            bad.append("deprecated child generators of %s" % nm(x))
                if not (x is root and not linked):
                    if not same(list(x.self_and_next_elements), me + exp_next) or not same(list(x.self_and_previous_elements), me + exp_prev):
                        bad.append("self_and_next/previous_elements of %s" % nm(x))
                if not same(list(x.self_and_parents), me + anc):
                    bad.append("self_and_parents of %s" % nm(x))
                if x.parent is not None:
                    if not same(list(x.self_and_next_siblings), me + sibs[j0 + 1:]) or not same(list(x.self_and_previous_siblings), me + list(reversed(sibs[:j0]))):
                        bad.append("self_and_next/previous_siblings of %s" % nm(x))
                with warnings.catch_warnings():
                    warnings.simplefilter("ignore")
                    if x.next is not x.next_element or x.previous is not x.previous_element:
                        bad.append(".next/.previous of %s" % nm(x))
                    if not same(list(x.nextGenerator()), list(x.next_elements)) or not same(list(x.previousGenerator()), list(x.previous_elements)) \
                            or not same(list(x.nextSiblingGenerator()), list(x.next_siblings)) \
                            or not same(list(x.previousSiblingGenerator()), list(x.previous_siblings)) \
                            or not same(list(x.parentGenerator()), anc):
                        bad.append("deprecated generators of %s" % nm(x))
            except Exception as e:
                bad.append("iterator raised %s on %s" % (type(e).__name__, nm(x)))
    return bad


# ------------------------------------------------------------------ C02 oracle: list-of-lists reference
class RefForest:
    """Independent reference: nested child lists with anchor semantics. Elements are the same
    numeric ids; fresh elements get the next id, in argument order."""

    def __init__(self, forest):
        self.K = {}
        self.P = {}
        self.kind = {}
        self.label = {}
        self.dead = set()
        for i, o in enumerate(forest.objs):
            self.kind[i] = kind_of(o)
            self.label[i] = label_of(o)
            self.K[i] = [forest.oid(c) for c in o.contents] if isinstance(o, Tag) else []
            self.P[i] = forest.oid(o.parent)
        self.n = len(forest.objs)

    def fresh(self, kind, label):
        i = self.n
        self.n += 1
        self.K[i] = []
        self.P[i] = None
        self.kind[i] = kind
        self.label[i] = label
        return i

    def detach(self, x):
        p = self.P[x]
        if p is not None:
            self.K[p].remove(x)
            self.P[x] = None

    def expand(self, args):
        items = []
        for a in args:
            if a[0] == 1:
                items.append(self.fresh(1, a[1]))
            elif self.kind[a[1]] == 3:
                items.extend(list(self.K[a[1]]))
            else:
                items.append(a[1])
        return items

    def place(self, parent, anchor, items):
        for x in items:
            self.detach(x)
        idx = self.K[parent].index(anchor) if anchor is not None else len(self.K[parent])
        self.K[parent][idx:idx] = items
        for x in items:
            self.P[x] = parent

    @staticmethod
    def first_not_in(seq, items):
        for e in seq:
            if e not in items:
                return e
        return None

    def subtree(self, x):
        out = [x]
        for c in self.K[x]:
            out.extend(self.subtree(c))
        return out

    def destroy(self, x):
        self.detach(x)
        for y in self.subtree(x):
            self.dead.add(y)

    def apply(self, op):
        c = op[0]
        K, P = self.K, self.P
        if c == 0:
            self_, pos = op[1], op[2]
            items = self.expand(op[3])
            pos = min(pos, len(K[self_]))
            self.place(self_, self.first_not_in(K[self_][pos:], items), items)
        elif c == 1:
            items = self.expand([op[2]])
            self.place(op[1], None, items)
        elif c == 2:
            self.place(op[1], None, list(K[op[2]]))
        elif c == 3:
            self.place(op[1], None, self.expand(op[2]))
        elif c == 4:
            if P[op[1]] is None or any(a == [0, op[1]] for a in op[2]):
                return 1
            self.place(P[op[1]], op[1], self.expand(op[2]))
        elif c == 5:
            if P[op[1]] is None or any(a == [0, op[1]] for a in op[2]):
                return 1
            items = self.expand(op[2])
            sibs = K[P[op[1]]]
            self.place(P[op[1]], self.first_not_in(sibs[sibs.index(op[1]) + 1:], items), items)
        elif c == 6:
            self.detach(op[1])
        elif c == 7:
            x = op[1]
            if P[x] is None:
                return 1
            if op[2] == [[0, x]]:
                return 0
            if any(a == [0, P[x]] for a in op[2]):
                return 1
            parent = P[x]
            items = self.expand(op[2])
            sibs = K[parent]
            anchor = self.first_not_in(sibs[sibs.index(x) + 1:], items)
            self.detach(x)
            self.place(parent, anchor, items)
        elif c == 8:
            x, w = op[1], op[2]
            if P[x] is None or P[x] == w:
                return 1
            parent = P[x]
            sibs = K[parent]
            anchor = self.first_not_in(sibs[sibs.index(x) + 1:], [w])
            self.detach(x)
            self.place(parent, anchor, [w])
            self.place(w, None, [x])
        elif c == 9:
            x = op[1]
            if P[x] is None:
                return 1
            parent = P[x]
            sibs = K[parent]
            i = sibs.index(x)
            anchor = sibs[i + 1] if i + 1 < len(sibs) else None
            items = list(K[x])
            self.detach(x)
            self.place(parent, anchor, items)
        elif c == 10:
            self.destroy(op[1])
        elif c == 11:
            for ch in list(K[op[1]]):
                if op[2]:
                    self.destroy(ch)
                else:
                    self.detach(ch)
        elif c == 12:
            for ch in list(K[op[1]]):
                self.detach(ch)
            self.place(op[1], None, [self.fresh(1, op[2])])
        elif c == 13:
            self.smooth(op[1])
        elif c == 14:
            self.fresh(op[1], op[2])
        return 0

    def smooth(self, x):
        """Adjacent plain strings become one string with the concatenated text. Fresh ids are handed out
        the way the call creates objects (children first, then pairwise from the right), so that later
        calls can name them."""
        for ch in list(self.K[x]):
            if self.kind[ch] in (0, 3):
                self.smooth(ch)
        lst = self.K[x]
        marked = [i for i in range(len(lst) - 1) if self.kind[lst[i]] == 1 and self.kind[lst[i + 1]] == 1]
        start = self.n
        for i in reversed(marked):
            a, b = self.K[x][i], self.K[x][i + 1]
            n = self.fresh(1, self.label[a] + self.label[b])
            self.detach(b)
            self.K[x][i] = n
            self.P[n] = x
            self.P[a] = None
            for t in (a, b):
                if t >= start:
                    self.dead.add(t)      # a temporary of this very call: unreachable afterwards

    def shape(self, x):
        """Nested (label, children) structure of the tree at x."""
        return (self.label[x], tuple(self.shape(c) for c in self.K[x]))


def impl_shape(o):
    if isinstance(o, Tag):
        return (label_of(o), tuple(impl_shape(c) for c in o.contents))
    return (label_of(o), ())


# ------------------------------------------------------------------ C03 oracle: the documented construction rules
class SNode:
    __slots__ = ("kind", "name", "prefix", "cls", "text", "children", "attrs")

    def __init__(self, kind, name=None, prefix=None, cls=0, text=None, attrs=()):
        self.kind, self.name, self.prefix, self.cls, self.text = kind, name, prefix, cls, text
        self.children = []
        self.attrs = list(attrs)


def spec_fold(events, cfg, strict_prefix=True):
    """Independent fold of an event list by the documented rules (no counters, no auxiliary stacks)."""
    spaces = set(" \n\t\x0c\r")     # the documented ASCII whitespace, independent of the implementation's constant
    root = SNode("root", "[document]")
    stack = [root]
    pending = []

    def flush(cls=None):
        if not pending:
            return
        text = "".join(pending)
        del pending[:]
        if cls not in (1, 2, 3, 4, 5, 6) and not any(n.name in cfg["pw"] for n in stack) and all(ch in spaces for ch in text):
            text = "\n" if "\n" in text else " "
        if cls is None or cls == 0:
            cls = 0
            for n in reversed(stack):
                if n.name in cfg["containers"]:
                    cls = cfg["containers"][n.name]
                    break
        stack[-1].children.append(SNode("str", cls=cls, text=text))
    for ev in events:
        if ev[0] == "s":
            flush()
            n = SNode("tag", ev[1], ev[2], attrs=ev[3])
            stack[-1].children.append(n)
            stack.append(n)
        elif ev[0] == "e":
            flush()
            for i in range(len(stack) - 1, 0, -1):
                if stack[i].name == ev[1] and stack[i].prefix == ev[2]:
                    del stack[i:]
                    break
        elif ev[0] == "d":
            pending.append(ev[1])
        else:
            flush(ev[1])
    flush()
    return root


def spec_shape(n):
    if n.kind == "str":
        return ("str", n.cls, n.text)
    return (n.kind, n.name, n.prefix, tuple(spec_shape(c) for c in n.children))


def impl_build_shape(o):
    if isinstance(o, BeautifulSoup):
        return ("root", o.name, None, tuple(impl_build_shape(c) for c in o.contents))
    if isinstance(o, Tag):
        return ("tag", o.name, o.prefix, tuple(impl_build_shape(c) for c in o.contents))
    return ("str", CLASS_ID.get(type(o), -1), str(o))


def ref_from_spec(root):
    """RefForest initialised from a spec tree, ids in pre-order (= creation order)."""
    r = RefForest.__new__(RefForest)
    r.K, r.P, r.kind, r.label, r.dead = {}, {}, {}, {}, set()
    cnt = [0]

    def go(n, parent):
        i = cnt[0]
        cnt[0] += 1
        r.P[i] = parent
        r.K[i] = []
        if n.kind == "str":
            r.kind[i] = 2 if n.cls in (1, 2, 3, 4, 5, 6) else 1
            r.label[i] = n.text
        else:
            r.kind[i] = 3 if n.kind == "root" else 0
            r.label[i] = n.name
        if parent is not None:
            r.K[parent].append(i)
        for c in n.children:
            go(c, i)
    go(root, None)
    r.n = cnt[0]
    return r
