"""Shared by C05 and C14: generators of trees (documents written from a random tree model and parsed;
token soup; API construction and edit histories; XML-flavoured trees), the dump of an implementation
tree into the render model's encoding, formatter encodings, and the independent (Python) statement of
"the same tree" used by the direct oracles."""
import re, warnings
import bs4
from bs4 import BeautifulSoup
from bs4.builder import TreeBuilder, HTMLTreeBuilder
from bs4.element import (Tag, NavigableString, Comment, CData, ProcessingInstruction, XMLProcessingInstruction,
                         Declaration, Doctype, Stylesheet, Script, TemplateString, RubyTextString,
                         RubyParenthesisString, PreformattedString, AttributeValueWithCharsetSubstitution)
from bs4.formatter import Formatter, HTMLFormatter, XMLFormatter
from bs4.dammit import EntitySubstitution
from bs4.exceptions import ParserRejectedMarkup

CLASSES = [NavigableString, CData, ProcessingInstruction, XMLProcessingInstruction, Comment, Declaration, Doctype,
           Stylesheet, Script, TemplateString, RubyTextString, RubyParenthesisString]
CLASS_ID = {c: i for i, c in enumerate(CLASSES)}
TEXT_CLASSES = (0, 7, 8, 9, 10, 11)

# ------------------------------------------------------------------------------------------ alphabets
MARKUP_CHARS = ["&", "<", ">", '"', "'"]
LOOKALIKES = ["&amp;", "&lt;", "&gt", "&amp", "&#38;", "&#x26;", "&#X3c;", "&foo;", "&nbsp", "&copy;", "&quot;", "&apos;",
              "&#", "&#x", "&;", "& ", "&a", "&lt;b&gt;", "&amp;amp;", "&#1;", "&#128;", "&#150;", "&notit;", "&not"]
NON_ASCII = ["\xe9", "☃", "\xa0", "\U0001f600", "«", "“", "’", "α", "\xad", " "]
MULTI_CP = ["≧̸", "≧", "∾̳", "<⃒", "=⃥", "fj", "⩰̸", "̸"]
CONTROLS = ["\x01", "\x0b", "\x0c", "\x1c", "\x1f", "\x7f", "\x85", "\r", "\r\n", "\t"]
WORDS = ["a", "b", "x1", "Zq", "text", "0", "-", "--", "]]", "?", "/", "=", ";", "#"]
SPACES = [" ", "\n", "  ", " \n ", "\t", "\n\n"]
TRAPS = ["-->", "]]>", "</script>", "</style>", "?>", "<!--", "<b>", "</p>", "<br/>", "<![CDATA[", "</", "<?"]


def rand_text(rng, rich=True, maxlen=6):
    n = rng.randint(0, maxlen)
    parts = []
    for _ in range(n):
        r = rng.random()
        if r < 0.22:
            parts.append(rng.choice(WORDS))
        elif r < 0.40:
            parts.append(rng.choice(MARKUP_CHARS))
        elif r < 0.55:
            parts.append(rng.choice(LOOKALIKES))
        elif r < 0.66:
            parts.append(rng.choice(NON_ASCII))
        elif r < 0.74:
            parts.append(rng.choice(MULTI_CP))
        elif r < 0.80 and rich:
            parts.append(rng.choice(CONTROLS))
        elif r < 0.94:
            parts.append(rng.choice(SPACES))
        elif rich:
            parts.append(rng.choice(TRAPS))
    return "".join(parts)


TAGS = ["div", "p", "b", "a", "span", "ul", "li", "pre", "textarea", "script", "style", "template", "rt", "rp", "ruby",
        "table", "td", "title", "x-y", "h1", "em", "svg:rect", "o:p"]
VOIDS = ["br", "img", "hr", "input", "meta", "link"]
ATTRS = ["class", "id", "href", "title", "data-x", "rel", "style", "disabled", "alt", "xml:lang", "headers", "accesskey", "a.b", "_z"]


# ------------------------------------------------------------------------------------------ documents
def esc_text(rng, s):
    """Write text with randomly chosen spellings of the characters that need one."""
    out = []
    for ch in s:
        if ch == "&":
            out.append(rng.choice(["&amp;", "&#38;", "&#x26;", "&AMP;"]))
        elif ch == "<":
            out.append(rng.choice(["&lt;", "&#60;", "&#x3C;", "&LT;"]))
        elif ch == ">":
            out.append(rng.choice(["&gt;", ">", "&#62;"]))
        elif ord(ch) > 126 and rng.random() < 0.3:
            out.append(rng.choice(["&#%d;" % ord(ch), "&#x%x;" % ord(ch)]))
        else:
            out.append(ch)
    return "".join(out)


def esc_attr(rng, s):
    q = rng.choice(['"', "'"])
    out = []
    for ch in s:
        if ch == "&":
            out.append(rng.choice(["&amp;", "&#38;"]))
        elif ch == q:
            out.append("&quot;" if q == '"' else "&#39;")
        elif ch == "<" and rng.random() < 0.5:
            out.append("&lt;")
        else:
            out.append(ch)
    return q + "".join(out) + q


def gen_doc(rng, budget=14, depth=0, in_raw=None):
    """Markup written from a random tree model: void spellings, quoting, entity spellings and whitespace randomised."""
    out = []
    n = rng.randint(0 if depth else 1, 4)
    for _ in range(n):
        if budget <= 0:
            break
        r = rng.random()
        if r < 0.42 and depth < 5:
            name = rng.choice(TAGS)
            attrs = gen_attr_markup(rng)
            budget -= 1
            if name in ("script", "style"):
                body = rand_text(rng, rich=False).replace("</", "<\\/")
                out.append("<%s%s>%s</%s>" % (name, attrs, body, name))
            else:
                inner = gen_doc(rng, budget // 2, depth + 1)
                budget -= inner.count("<")
                close = "</%s>" % name if rng.random() < 0.92 else ""
                out.append("<%s%s>%s%s" % (rng.choice([name, name.upper()]) if rng.random() < 0.1 else name, attrs, inner, close))
        elif r < 0.52:
            name = rng.choice(VOIDS)
            attrs = gen_attr_markup(rng)
            out.append(rng.choice(["<%s%s>", "<%s%s/>", "<%s%s />", "<%s%s></%s>"]).replace("</%s>", "</" + name + ">") % (name, attrs))
            budget -= 1
        elif r < 0.80:
            out.append(esc_text(rng, rand_text(rng, rich=False)))
        elif r < 0.86:
            out.append("<!--%s-->" % rand_text(rng, rich=False).replace("--", "- -").replace(">", ")"))
        elif r < 0.89:
            out.append("<!DOCTYPE %s>" % rng.choice(["html", 'html PUBLIC "-//W3C//DTD XHTML 1.0 Strict//EN" "x.dtd"', "x y"]))
        elif r < 0.92:
            out.append("<?%s>" % rng.choice(["xml version='1.0'?", "php echo 1 ?", "pi", "x y?"]))
        elif r < 0.95:
            out.append("<![CDATA[%s]]>" % rand_text(rng, rich=False).replace("]]>", "]] >"))
        elif r < 0.97:
            out.append(rng.choice(["<![if IE]>", "<![endif]>", "<!ELEMENT br EMPTY>", "<![x[y]]>"]))
        else:
            out.append(rng.choice(SPACES))
    return "".join(out)


def gen_chain(rng, depth):
    """A document nested `depth` elements deep (mostly one chain, with text, comments and side branches on the way)."""
    opened = []
    out = []
    for d in range(depth):
        name = rng.choice(["div", "p", "b", "span", "ul", "li", "em", "a", "x-y"])
        out.append("<%s%s>" % (name, ' id="d%d"' % d if rng.random() < 0.1 else ""))
        opened.append(name)
        r = rng.random()
        if r < 0.08:
            out.append(rng.choice(WORDS))
        elif r < 0.11:
            out.append("<!--c%d-->" % d)
        elif r < 0.14:
            out.append("<br/>")
        elif r < 0.16:
            out.append("<i>side</i>")
    out.append(rng.choice(["deepest", "<pre> kept \n here </pre>", ""]))
    for name in reversed(opened):
        out.append("</%s>" % name)
        if rng.random() < 0.05:
            out.append(rng.choice(["tail", " "]))
    return "".join(out)


def gen_attr_markup(rng):
    k = rng.choice([0, 0, 1, 1, 2, 3])
    parts = []
    for _ in range(k):
        name = rng.choice(ATTRS)
        r = rng.random()
        if r < 0.12:
            parts.append(name)
        elif r < 0.2:
            parts.append("%s=%s" % (name, rng.choice(["v", "1", "a&amp;b", "x/y"])))
        else:
            parts.append("%s=%s" % (name, esc_attr(rng, rand_text(rng, rich=False, maxlen=4))))
    if rng.random() < 0.05 and parts:
        parts.append(parts[0])          # duplicate attribute
    return "".join(rng.choice([" ", "  ", "\n"]) + p for p in parts)


SOUP_TOKENS = ["<", ">", "</", "/>", "<p", "<b>", "</b>", "<br>", "<br/>", "</br>", "<pre>", "</pre>", "<script>", "</script>",
               "<style>", "</style >", "<!--", "-->", "--!>", "<!", "<?", "?>", "<![CDATA[", "]]>", "<!DOCTYPE", " a=", "'", '"',
               "=", "&", "&amp", "&#", "&#x41", ";", "x", " ", "\n", "<a href='", "<textarea>", "</textarea>", "<A B=C>",
               "</A>", "<p/>", "<td>", "<svg:g>", "</svg:g>", "\xe9", "<⃒", "\x00", "\r", "<a<b>", "<p =a>", "<p a\"b=1>"]


def gen_soup(rng):
    return "".join(rng.choice(SOUP_TOKENS) for _ in range(rng.randint(1, 14)))


def parse(markup, **kw):
    with warnings.catch_warnings():
        warnings.simplefilter("ignore")
        return BeautifulSoup(markup, "html.parser", **kw)


# ------------------------------------------------------------------------------------------ API trees
class XMLishBuilder(TreeBuilder):
    """A tree builder with the settings of an XML builder (every tag may be an empty-element tag, no
    whitespace-preserving tags, no string containers, no multi-valued attributes, is_xml) and no parser:
    BeautifulSoup('', builder=XMLishBuilder()) is an empty XML-flavoured document to build on."""
    NAME = "verif-xmlish"
    features = []
    is_xml = True

    def __init__(self, **kw):
        super().__init__(multi_valued_attributes=None, preserve_whitespace_tags=set(), string_containers={}, **kw)

    def feed(self, markup):
        pass


def empty_soup(xml, void=None):
    """void: the builder's own empty-element tags (empty_element_tags=...), None for the HTML defaults."""
    with warnings.catch_warnings():
        warnings.simplefilter("ignore")
        if xml:
            return BeautifulSoup("", builder=XMLishBuilder())
        if void is not None:
            return BeautifulSoup("", "html.parser", empty_element_tags=set(void))
        return BeautifulSoup("", "html.parser")


def rand_attr_value(rng):
    r = rng.random()
    if r < 0.6:
        return rand_text(rng, maxlen=4)
    if r < 0.75:
        return [rand_text(rng, rich=False, maxlen=2).replace(" ", "") or "c" for _ in range(rng.randint(0, 3))]
    if r < 0.82:
        return ""
    if r < 0.9:
        return rng.choice([0, 7, -3, 1.5, True])
    return None


def rand_string(rng, soup, special=True, rich=True):
    r = rng.random()
    t = rand_text(rng, rich=rich)
    if not special or r < 0.7:
        return NavigableString(t)
    if r < 0.8:
        return Comment(t)
    if r < 0.85:
        return CData(t)
    if r < 0.89:
        return ProcessingInstruction(t)
    if r < 0.92:
        return Doctype(t)
    if r < 0.94:
        return Declaration(t)
    if r < 0.95:
        return XMLProcessingInstruction(t)
    return rng.choice([Script, Stylesheet, TemplateString, RubyTextString])(t)


# names that differ from a known one only in case (tag names are case-sensitive in the tree), and namespace prefixes
# including the empty string (falsy: no prefix is written)
CASED = ["PRE", "Pre", "TEXTAREA", "Textarea", "DIV", "B", "Script", "BR"]
PREFIXES = ["", "", "svg", "x", "a.b"]


def new_tag(rng, soup, xml, rich=True):
    r = rng.random()
    names = TAGS + VOIDS
    name = rng.choice(names)
    if rich and r < 0.04:
        name = rng.choice(["Div", "a b", "", "1a", "x>y", "\xe9l", "a\"b"])
    elif rng.random() < (0.05 if rich else 0.02):
        name = rng.choice(CASED)
    if ":" not in name and name and rng.random() < 0.05:
        # an explicit namespace prefix given through the API
        prefix = rng.choice(PREFIXES)
        attrs = {rng.choice(ATTRS): rand_attr_value(rng)} if rng.random() < 0.5 else {}
        if rng.random() < 0.5:
            return soup.new_tag(name, nsprefix=prefix, attrs=attrs)
        return Tag(name=name, prefix=prefix, attrs=attrs, is_xml=xml, can_be_empty_element=rng.random() < 0.5)
    attrs = {}
    for _ in range(rng.choice([0, 0, 1, 1, 2, 3])):
        k = rng.choice(ATTRS)
        if rich and rng.random() < 0.03:
            k = rng.choice(["A", "a b", "x=y", "k>", ""])
        attrs[k] = rand_attr_value(rng)
    if r > 0.9:
        # direct constructor, no builder
        kw = {}
        if rng.random() < 0.5:
            kw["can_be_empty_element"] = rng.random() < 0.7
        if rng.random() < 0.3:
            kw["preserve_whitespace_tags"] = set(rng.sample(["pre", "textarea", "b", "p", "PRE", "Pre", name or "q"], rng.randint(0, 3)))
        if ":" in name and rng.random() < 0.7:
            p, n = name.split(":", 1)
            with warnings.catch_warnings():
                warnings.simplefilter("ignore")
                return Tag(name=n, prefix=p, attrs=attrs, is_xml=xml, **kw)
        try:
            return Tag(name=name, attrs=attrs, is_xml=xml, **kw)
        except ValueError:
            return Tag(name="q", attrs=attrs, is_xml=xml, **kw)
    if ":" in name and xml:
        p, n = name.split(":", 1)
        return soup.new_tag(n, nsprefix=p, attrs=attrs)
    return soup.new_tag(name, attrs=attrs)


def tags_of(root):
    out = [root]
    i = 0
    while i < len(out):
        out.extend(c for c in out[i].contents if isinstance(c, Tag))
        i += 1
    return out


def all_elements(root):
    out = []
    stack = [root]
    while stack:
        x = stack.pop()
        out.append(x)
        if isinstance(x, Tag):
            stack.extend(reversed(x.contents))
    return out


def is_ancestor_or_self(a, x):
    while x is not None:
        if x is a:
            return True
        x = x.parent
    return False


def gen_api_tree(rng, xml=False, steps=None, rich=True, start=None, void=None):
    """A document built (or edited, when `start` is a parsed soup) through the public API. Returns the soup."""
    soup = start if start is not None else empty_soup(xml, void)
    steps = steps if steps is not None else rng.randint(1, 16)
    with warnings.catch_warnings():
        warnings.simplefilter("ignore")
        for _ in range(steps):
            tags = tags_of(soup)
            els = all_elements(soup)[1:]
            c = rng.random()
            try:
                if c < 0.30 or not els:
                    rng.choice(tags).append(new_tag(rng, soup, xml, rich))
                elif c < 0.48:
                    rng.choice(tags).append(rand_string(rng, soup, rich=rich))
                elif c < 0.56:
                    t = rng.choice(tags)
                    t.insert(rng.randint(0, len(t.contents)), rng.choice([new_tag(rng, soup, xml, rich), rand_string(rng, soup, rich=rich)]))
                elif c < 0.61:
                    rng.choice(els).extract()
                elif c < 0.66:
                    x = rng.choice(els)
                    x.replace_with(rng.choice([new_tag(rng, soup, xml, rich), rand_text(rng, rich=rich)]))
                elif c < 0.70:
                    rng.choice(els).wrap(new_tag(rng, soup, xml, rich))
                elif c < 0.73:
                    x = rng.choice(els)
                    if isinstance(x, Tag):
                        x.unwrap()
                elif c < 0.78:
                    x = rng.choice(els)
                    y = rng.choice(els)
                    if not is_ancestor_or_self(y, x):      # move y next to x
                        (x.insert_before if rng.random() < 0.5 else x.insert_after)(y)
                elif c < 0.82:
                    x = rng.choice(els)
                    (x.insert_before if rng.random() < 0.5 else x.insert_after)(rand_text(rng, rich=rich))
                elif c < 0.86:
                    t = rng.choice(tags)
                    if t is not soup:
                        t[rng.choice(ATTRS)] = rand_attr_value(rng)
                elif c < 0.88:
                    t = rng.choice(tags)
                    if t is not soup and t.attrs:
                        del t[rng.choice(list(t.attrs))]
                elif c < 0.91:
                    t = rng.choice(tags)
                    if t is not soup:
                        t.string = rand_text(rng, rich=rich)
                elif c < 0.93:
                    rng.choice(tags).smooth()
                elif c < 0.95:
                    t = rng.choice(tags)
                    if t is not soup:
                        t.name = rng.choice(CASED) if rng.random() < 0.15 else rng.choice(TAGS + VOIDS)
                elif c < 0.96:
                    t = rng.choice(tags)
                    if t is not soup:
                        t.clear()
                elif c < 0.97 and rich:
                    t = rng.choice(tags)
                    if t is not soup:
                        t.hidden = True
                elif c < 0.985:
                    t = rng.choice(tags)
                    if t is not soup:
                        t.attrs = dict(t.attrs)           # a plain dict: None values survive
                        t.attrs[rng.choice(ATTRS)] = rng.choice([None, "", "v"])
                else:
                    x = rng.choice(els)
                    if isinstance(x, Tag) and rng.random() < 0.5:
                        x.decompose()
            except (ValueError, NotImplementedError, IndexError):
                pass
    return soup


# ------------------------------------------------------------------------------------------ dump to the model
def enc_rval(v, enc_name="utf-8"):
    if v is None:
        return [0]
    if isinstance(v, AttributeValueWithCharsetSubstitution):
        return [4, str.__str__(v), v.substitute_encoding(enc_name)]
    if isinstance(v, str):
        return [1, str.__str__(v)]
    if isinstance(v, (list, tuple)):
        return [2, [str.__str__(x) for x in v]]
    return [3, str(v)]


import contextlib, sys


@contextlib.contextmanager
def deep_recursion(limit=20000):
    """For the harness's own recursive helpers on deeply nested trees (never around calls into the library)."""
    old = sys.getrecursionlimit()
    sys.setrecursionlimit(max(old, limit))
    try:
        yield
    finally:
        sys.setrecursionlimit(old)


def enc_iter(x):
    """common.enc without recursion (same output): nested lists of a deeply nested tree exceed the interpreter's
    C-level recursion limit in the recursive encoder."""
    out = []
    stack = [x]
    CLOSE = object()
    while stack:
        y = stack.pop()
        if y is CLOSE:
            out.append(")")
        elif y is None:
            out.append("()")
        elif isinstance(y, bool):
            out.append("1" if y else "0")
        elif isinstance(y, int):
            out.append(str(y))
        elif isinstance(y, str):
            out.append("(" + " ".join(str(ord(c)) for c in y) + ")")
        elif isinstance(y, (bytes, bytearray)):
            out.append("(" + " ".join(str(b) for b in y) + ")")
        elif isinstance(y, (list, tuple)):
            out.append("(")
            stack.append(CLOSE)
            stack.extend(reversed(y))
        else:
            raise TypeError("cannot encode %r" % (y,))
    # tokens separated by single spaces, no space after "(" or before ")" — as common.enc writes them
    text = " ".join(out)
    return text.replace("( ", "(").replace(" )", ")")


def dump(el, enc_name="utf-8"):
    with deep_recursion():
        return _dump(el, enc_name)


def _dump(el, enc_name="utf-8"):
    """The element (walking .contents) in the model's encoding. Iterative for deep trees is not needed here."""
    if isinstance(el, Tag):
        pw = el.preserve_whitespace_tags
        attrs = [] if el.attrs is None else [[str(k), enc_rval(v, enc_name)] for k, v in el.attrs.items()]
        return [0, el.name, [] if el.prefix is None else [el.prefix], attrs, bool(el.hidden),
                el.can_be_empty_element is True, sorted(pw) if pw else [], [_dump(c, enc_name) for c in el.contents]]
    cid = CLASS_ID.get(type(el))
    if cid is None:
        raise TypeError("string class not known to the model: %r" % type(el))
    return [1, cid, str.__str__(el)]


def value_texts(el, enc_name="utf-8"):
    """Every string the formatter's substitution function can be applied to while rendering el."""
    out = set()
    for x in all_elements(el):
        if isinstance(x, Tag):
            for k, v in (x.attrs or {}).items():
                if v is None:
                    continue
                if isinstance(v, AttributeValueWithCharsetSubstitution):
                    out.add(str.__str__(v)); out.add(v.substitute_encoding(enc_name))
                elif isinstance(v, str):
                    out.add(str.__str__(v))
                elif isinstance(v, (list, tuple)):
                    out.add(" ".join(v))
                else:
                    out.add(str(v))
        else:
            out.add(str.__str__(x))
    return out


def enc_formatter(f, by_name, texts):
    """Formatter object -> model encoding. by_name: the registry name it was asked for by ('minimal' is the
    Gallina substitute_xml, None no substitution; anything else is passed as its recorded graph)."""
    if by_name == "minimal":
        mode, graph = 1, []
    elif f.entity_substitution is None:
        mode, graph = 0, []
    else:
        mode, graph = 2, [[t, f.entity_substitution(t)] for t in sorted(texts)]
    return [mode, graph, f.void_element_close_prefix or "", sorted(f.cdata_containing_tags),
            bool(f.empty_attributes_are_booleans), f.indent]


def paths(root):
    """id(element) -> path from root, following .contents."""
    out = {id(root): ()}
    stack = [(root, ())]
    while stack:
        x, p = stack.pop()
        if isinstance(x, Tag):
            for i, c in enumerate(x.contents):
                out[id(c)] = p + (i,)
                stack.append((c, p + (i,)))
    return out


def impl_events(el):
    """Tag._event_stream as (kind, path) pairs."""
    ps = paths(el)
    kinds = {id(Tag.START_ELEMENT_EVENT): 0, id(Tag.END_ELEMENT_EVENT): 1, id(Tag.EMPTY_ELEMENT_EVENT): 2,
             id(Tag.STRING_ELEMENT_EVENT): 3}
    return [[kinds[id(ev)], list(ps.get(id(x), (-1,)))] for ev, x in el._event_stream()]


# ------------------------------------------------------------------------------------------ "the same tree"
HTML_VOID = set(HTMLTreeBuilder.DEFAULT_EMPTY_ELEMENT_TAGS)
HTML_PW = set(HTMLTreeBuilder.DEFAULT_PRESERVE_WHITESPACE_TAGS)
ASCII_WS = " \n\t\x0c\r"


def qname(t):
    return (t.prefix + ":" if t.prefix else "") + t.name


def attr_text(v):
    if v is None:
        return ""
    if isinstance(v, (list, tuple)):
        return " ".join(v)
    return str(v)


def exact(el):
    """Structure with string classes, for comparing two parses."""
    if isinstance(el, Tag):
        return ("tag", qname(el), tuple(sorted((str(k), attr_text(v)) for k, v in (el.attrs or {}).items())),
                tuple(exact(c) for c in el.contents))
    return ("str", type(el).__name__, str.__str__(el))


def canon(children):
    """A parsed tree as it is (no normalisation), text classes all 'text'."""
    out = []
    for c in children:
        if isinstance(c, Tag):
            out.append(("tag", qname(c), tuple(sorted((str(k), attr_text(v)) for k, v in (c.attrs or {}).items())),
                        canon(c.contents)))
        elif CLASS_ID[type(c)] in TEXT_CLASSES:
            out.append(("text", str.__str__(c)))
        else:
            out.append(("special", type(c).__name__, str.__str__(c)))
    return tuple(out)


def collapse(s):
    if s and all(c in ASCII_WS for c in s):
        return "\n" if "\n" in s else " "
    return s


def normal(children, preserved=False, lead=(), declaration_as_pi=False):
    """The tree the property promises back, from a list of elements: adjacent text runs merged, a newline after
    a doctype, whitespace-only runs of text (outside pre/textarea) normalised, empty text dropped; text classes are all
    'text'; special strings keep their class."""
    out = list(lead[:-1])
    pending = list(lead[-1:])

    def flush():
        if pending:
            s = "".join(pending)
            del pending[:]
            if s:
                out.append(("text", s if preserved else collapse(s)))
    for i, c in enumerate(children):
        if isinstance(c, Tag):
            flush()
            out.append(("tag", qname(c), tuple(sorted((str(k), attr_text(v)) for k, v in (c.attrs or {}).items())),
                        normal(c.contents, preserved or qname(c) in HTML_PW, declaration_as_pi=declaration_as_pi)))
        elif CLASS_ID[type(c)] in TEXT_CLASSES:
            pending.append(str.__str__(c))
        else:
            flush()
            s = str.__str__(c)
            if declaration_as_pi and isinstance(c, Declaration):
                out.append(("special", "ProcessingInstruction", s + "?"))
            else:
                out.append(("special", type(c).__name__, s))      # kept as it is, whitespace-only or empty included
            if isinstance(c, Doctype):
                pending.append("\n")          # a newline follows a doctype
    flush()
    return tuple(out)


_COMMENT_CLOSE = re.compile(r"--\s*>")
_MS_CLOSE = re.compile(r"]\s*]\s*>")
_NAME_OK = re.compile(r"^[a-z][-a-z0-9_.]*(:[a-z][-a-z0-9_.]*)?$")
_ATTR_OK = re.compile(r"^[a-z_][-a-z0-9_.:]*$")


_MULTI = HTMLTreeBuilder.DEFAULT_CDATA_LIST_ATTRIBUTES


def multi_valued(tagname, attr):
    return attr in _MULTI.get("*", ()) or attr in _MULTI.get(tagname.lower(), ())


def representable(el, xml, void=None):
    """None if the content of this tree is something HTML markup can carry back through html.parser,
    else the reason (a string). Applies to API-built trees; a parsed tree is representable by construction."""
    for x in all_elements(el):
        if isinstance(x, Tag):
            if x is el and x.hidden:
                if x.name in ("script", "style") and not isinstance(x, BeautifulSoup):
                    return "hidden starting element that is a cdata-containing tag"
            else:
                if x.hidden:
                    return "hidden inner tag"
                q = qname(x)
                if not _NAME_OK.match(q):
                    return "tag name %r" % q
                if x.prefix and ":" in x.name:
                    return "tag name %r" % q
                for k, v in (x.attrs or {}).items():
                    if not _ATTR_OK.match(str(k)):
                        return "attribute name %r" % k
                    if multi_valued(q, str(k)):
                        # the HTML parser stores such a value as its whitespace-separated tokens
                        if isinstance(v, (list, tuple)):
                            if any((not t) or t.split() != [t] for t in v):
                                return "multi-valued attribute token with whitespace"
                        elif v is not None and " ".join(attr_text(v).split()) != attr_text(v):
                            return "multi-valued attribute with irregular whitespace"
                if x.name in (HTML_VOID if void is None else void) and x.contents:
                    return "void element with children"
                if x.prefix and x.name in ("script", "style"):
                    return "prefixed script/style (cdata-containing for the formatter, not for the parser)"
                if x.name in ("script", "style"):
                    body = ""
                    for c in x.contents:
                        if isinstance(c, Tag) or CLASS_ID[type(c)] not in TEXT_CLASSES:
                            return "markup inside script/style"
                        body += str.__str__(c)
                    if re.search(r"</", body):
                        return "end-tag opener inside script/style"
                    if xml and re.search(r"[^ -%'-;=?-~\n\t]", body):
                        return "XML-flavoured script/style text the XML formatter would escape"
        else:
            cid = CLASS_ID[type(x)]
            s = str.__str__(x)
            if cid in (3, 5):
                return "string class the HTML parser cannot produce from its own rendering: " + type(x).__name__
            if cid == 4 and _COMMENT_CLOSE.search(s + "-->").start() != len(s):
                return "comment text closes the comment"
            if cid == 1 and _MS_CLOSE.search(s + "]]>").start() != len(s):
                return "CDATA text closes the section"
            if cid in (2, 6) and ">" in s:
                return "'>' in a processing instruction / doctype"
            if "\x00" in s or "\r" in s:
                pass
    return None


def top_children(el):
    return list(el.contents) if (isinstance(el, BeautifulSoup) or el.hidden) else [el]


# ------------------------------------------------------------------------------------------ the parser's events
from bs4.builder._htmlparser import HTMLParserTreeBuilder


class LoggingBuilder(HTMLParserTreeBuilder):
    """html.parser builder that records the calls the parser makes on the BeautifulSoup object
    (handle_starttag / handle_endtag / handle_data / endData), outermost calls only."""

    def feed(self, markup):
        soup = self.soup
        log = self.log = []
        depth = [0]

        def wrap(name, rec):
            orig = getattr(soup, name)

            def f(*a, **k):
                if depth[0] == 0:
                    rec(*a, **k)
                depth[0] += 1
                try:
                    return orig(*a, **k)
                finally:
                    depth[0] -= 1
            setattr(soup, name, f)
        wrap("handle_starttag", lambda name, namespace, nsprefix, attrs, **k: log.append(("s", name, nsprefix, [(str(a), b) for a, b in attrs.items()])))
        wrap("handle_endtag", lambda name, nsprefix=None: log.append(("e", name, nsprefix)))
        wrap("handle_data", lambda data: log.append(("d", data)))
        wrap("endData", lambda cls=None: log.append(("x", None if cls is None else CLASS_ID[cls])))
        try:
            super().feed(markup)
        finally:
            for n in ("handle_starttag", "handle_endtag", "handle_data", "endData"):
                try:
                    delattr(soup, n)
                except AttributeError:
                    pass


def parse_logged(markup, **kw):
    b = LoggingBuilder(**kw)
    with warnings.catch_warnings():
        warnings.simplefilter("ignore")
        soup = BeautifulSoup(markup, builder=b)
    return soup, b.log


def canon_events(evs):
    """Builder events up to chunking of character data: ('s', name, prefix, attrs) ('e', name, prefix) ('t', cls, text)."""
    out = []
    pend = []

    def flush(cls):
        if pend:
            out.append(("t", cls, "".join(pend)))
            del pend[:]
    for e in evs:
        if e[0] == "d":
            pend.append(e[1])
        elif e[0] == "x":
            flush(e[1])
        elif e[0] == "s":
            flush(None)
            out.append(("s", e[1], e[2], [tuple(a) for a in e[3]]))
        else:
            flush(None)
            out.append(("e", e[1], e[2]))
    flush(None)
    return out


def dec_model_events(r):
    out = []
    for e in r:
        k = e[0]
        if k == 0:
            out.append(("s", to_s(e[1]), to_s(e[2][0]) if e[2] else None, [(to_s(a), to_s(b)) for a, b in e[3]]))
        elif k == 1:
            out.append(("e", to_s(e[1]), to_s(e[2][0]) if e[2] else None))
        elif k == 2:
            out.append(("d", to_s(e[1])))
        else:
            out.append(("x", e[1][0] if e[1] else None))
    return out


def to_s(l):
    return "".join(map(chr, l))


def flat_impl(soup):
    """A parsed tree in the flat form of Spec/BuildSpec.v: (parent index, name-or-text, attrs, class, void) in
    document order, the root first."""
    out = []
    idx = {}
    for x in all_elements(soup):
        idx[id(x)] = len(out)
        par = None if x is soup else idx[id(x.parent)]
        if isinstance(x, Tag):
            attrs = [] if x is soup else [(str(k), attr_text(v)) for k, v in (x.attrs or {}).items()]
            out.append((par, x.name, attrs, 0, bool(x.can_be_empty_element) if x is not soup else False))
        else:
            out.append((par, str.__str__(x), [], CLASS_ID[type(x)], False))
    return out


def dec_model_flat(r):
    return [(n[0][0] if n[0] else None, to_s(n[1]), [(to_s(a), to_s(b)) for a, b in n[3]], n[4], bool(n[5])) for n in r]


def startend_checks_closed():
    """Does handle_startendtag's end-tag handling consult already_closed_empty_element (the unrepaired C04 defect)?"""
    s = parse("<p><br>a<br/>b</p>")
    brs = s.find_all("br")
    return len(brs) == 2 and len(brs[1].contents) > 0


# an everyday page with void elements written without a slash or an end tag: what any process using the library is
# likely to have parsed before the case at hand (state must not leak from one parse into the next)
ORDINARY_PAGE = ("<!DOCTYPE html><html><head><meta charset=utf-8><link rel=stylesheet href=a.css><link rel=icon href=i.png>"
                 "<base href=/><title>t</title></head><body><p>one<br>two<br>three<img src=x.png><hr><input name=q>"
                 "<area><col><embed><source><track><wbr><param name=p></body></html>")


def warm_up():
    parse(ORDINARY_PAGE)
