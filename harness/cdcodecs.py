"""Concrete codecs (coq/Model/Codecs.v, commands 21000+) against the running interpreter and the library.
Shared by the checks of C07, C08 and C19: nothing here is recorded per case and fed to the model — the model gets the
same bytes / strings / arguments as Python and must produce the same answer.

  sweeps(ctx)            all 256 single bytes x 3 single-byte codecs (decode strict/replace, encode), every code point
                         (encodability), codec names; random and adversarial byte strings x 8 codecs x {strict, replace};
                         random strings x 4 codecs x {strict, xmlcharrefreplace, replace}
  dammit_cases(ctx)      UnicodeDammit / BeautifulSoup(...) end to end against Model.Codecs.c_dammit / c_prepare_markup
  concrete_dammit_cmd    the same for a case of the C07 generators, when every name involved is within the model's reach
  encode_cmd             soup.encode(enc) / prettify(enc) / encode_contents(enc) against Model.Codecs.c_tag_encode
"""
import codecs, itertools, re, warnings

CANON = {"ascii": 0, "iso8859-1": 1, "cp1252": 2, "utf-8": 3, "utf-16-le": 4, "utf-16-be": 5, "utf-32-le": 6, "utf-32-be": 7}
PYNAME = {0: "ascii", 1: "iso-8859-1", 2: "windows-1252", 3: "utf-8", 4: "utf-16-le", 5: "utf-16-be", 6: "utf-32-le",
          7: "utf-32-be"}
SINGLE_BYTE = (0, 1, 2)
ENCODERS = (0, 1, 2, 3)
ERRORS_DEC = ("strict", "replace")
ERRORS_ENC = ("strict", "xmlcharrefreplace", "replace")
# the names the harness uses for the modelled codecs (the translator tabulates these and their find_codec variants)
NAMES = ["latin-1", "iso-8859-1", "cp1252", "windows-1252", "ascii", "us-ascii", "utf-8", "utf8",
         "utf-16le", "utf-16be", "utf-32le", "utf-32be"]
BOGUS = ["bogus-8", "no-such-codec", "utf-9", "x", "iso88591", "windows1252"]
BOMS = {"utf-8": b"\xef\xbb\xbf", "utf-16le": b"\xff\xfe", "utf-16be": b"\xfe\xff",
        "utf-32le": b"\xff\xfe\x00\x00", "utf-32be": b"\x00\x00\xfe\xff"}
O_ALIASES = {"macintosh": "mac-roman", "x-sjis": "shift-jis"}

ADVERSARIAL = [0x00, 0x41, 0x7f, 0x80, 0x81, 0x8d, 0x8f, 0x90, 0x9d, 0x9f, 0xa0, 0xbf, 0xc0, 0xc1, 0xc2, 0xdf, 0xe0, 0xe1,
               0xec, 0xed, 0xee, 0xef, 0xf0, 0xf1, 0xf3, 0xf4, 0xf5, 0xfe, 0xff, 0xd8, 0xdb, 0xdc, 0xdf, 0x10, 0x11, 0xbb]
FRAGMENTS = [b"\xef\xbb\xbf", b"\xff\xfe", b"\xfe\xff", b"\xff\xfe\x00\x00", b"\x00\x00\xfe\xff",      # marks
             b"\xc0\xaf", b"\xe0\x80\xaf", b"\xf0\x80\x80\xaf", b"\xc1\xbf",                                   # overlong
             b"\xed\xa0\x80", b"\xed\xbf\xbf", b"\xed\xa0\x80\xed\xb0\x80",                                    # surrogates
             b"\xf4\x90\x80\x80", b"\xf5\x80\x80\x80", b"\xf8\x88\x80\x80\x80",                                # > U+10FFFF
             b"\xe2\x82", b"\xf0\x9f\x98", b"\xc3", b"\xe2", b"\xf0\x9f",                                      # truncated
             b"\x80", b"\xbf", b"\x80\x80", b"\xe2\x82\xac", b"\xf0\x9f\x98\x80", b"\xc3\xa9",                 # lone / valid
             b"\x00\xd8", b"\xd8\x00", b"\x00\xdc", b"\xdc\x00", b"\x3d\xd8\x00\xde", b"\xd8\x3d\xde\x00",     # utf-16 halves
             b"\x00\x00\x11\x00", b"\x00\x11\x00\x00", b"\x00\xd8\x00\x00", b"\x00\x00\xd8\x00",               # utf-32 range
             b"\x81", b"\x8d\x8f\x90\x9d", b"\x93x\x94", b"caf\xe9"]
TEXT_POOL = ("abcXYZ09 .;&<>\"'#\n\t" "éüñß¿ ­" "\x80\x81\x85\x96\x9f" "€“”‘’…—™ŒšžŸƒˆ˜"
             "ąαбאا日本語한☃�￾￿﷐\U0001f600\U00010348\U0010ffff\U0001fffe")


def py_codec(name):
    """None = LookupError; an int = one of the modelled codecs; 'other' = some codec outside the model."""
    try:
        info = codecs.lookup(name)
    except (LookupError, ValueError, TypeError):
        return None
    return CANON.get(info.name, "other")


def py_decode(bs, cid, errors):
    try:
        return bs.decode(PYNAME[cid], errors)
    except UnicodeDecodeError:
        return None


def py_encode(s, cid, errors):
    try:
        return s.encode(PYNAME[cid], errors)
    except UnicodeEncodeError:
        return None


def s_(l):
    return None if l is None else "".join(map(chr, l))


def unopt(l):
    return l[0] if l else None


def merr(mv):
    return isinstance(mv, tuple) or (isinstance(mv, int) and mv < 0)


# --------------------------------------------------------------------------------------------------------- names
_name_cache = {}


def name_reach(ctx, names):
    """For each name: 'same' when Python and the model agree on what it denotes (a modelled codec, or nothing),
    'outside' when Python knows it (as any codec) and the model does not. The model naming a codec Python does not
    give it is a disagreement."""
    todo = [n for n in dict.fromkeys(names) if n not in _name_cache]
    if todo and ctx.build.model_ok:
        res = ctx.model.run([[21003, n] for n in todo])
        for n, mv in zip(todo, res):
            m = None if merr(mv) else unopt(mv)
            p = py_codec(n)
            if m is not None and m != p:
                ctx.disagree("codecs.lookup ~ Model.Codecs.codec_of_name", {"name": n}, repr(p), repr(m))
                _name_cache[n] = "outside"
            elif m == p:
                _name_cache[n] = "same"
            else:
                _name_cache[n] = "outside"
    return {n: _name_cache.get(n, "outside") for n in names}


def name_variants(n):
    vs = [n, O_ALIASES.get(n, n), n.replace("-", ""), n.replace("-", "_")]
    return vs + [v.lower() for v in vs]


def names_supported(ctx, names):
    """every name a call can hand to codecs.lookup / str(data, name) lies where model and interpreter agree"""
    allv = []
    for n in names:
        if not isinstance(n, str) or not n.isascii():
            return False
        allv += name_variants(n)
    allv = [v for v in allv if v]
    st = name_reach(ctx, allv)
    return all(st[v] == "same" for v in allv)


def name_sweep(ctx):
    names = []
    for n in NAMES + BOGUS + ["latin1", "l1", "utf_8", "UTF-8", "Latin-1", "ISO-8859-1", "Windows-1252", "CP1252", "Ascii",
                              "US-ASCII", "utf-16-le", "utf-16", "utf-32", "iso-8859-2", "koi8-r", "mac-roman", ""]:
        names += [n, n.upper(), n.title()] + name_variants(n)
    names = [n for n in dict.fromkeys(names) if n.isascii()]
    st = name_reach(ctx, names)
    for n in names:
        ctx.case(("cd-name", n))
    ctx.count("cd_names", len(names))
    ctx.count("cd_names_within_model", sum(1 for n in names if st[n] == "same"))
    # every name the harness relies on must be within the model's reach (else the concrete runs would be vacuous)
    for n in NAMES:
        if st.get(n) != "same" or py_codec(n) is None:
            ctx.disagree("harness name within the model's reach", {"name": n}, repr(py_codec(n)), st.get(n))


# --------------------------------------------------------------------------------------------------------- sweeps
def single_byte_sweep(ctx):
    if not ctx.build.model_ok:
        return
    res = ctx.model.run([[21002, cid] for cid in SINGLE_BYTE])
    for cid, mv in zip(SINGLE_BYTE, res):
        if merr(mv) or len(mv) != 256:
            ctx.disagree("single-byte table", {"codec": PYNAME[cid]}, "256 entries", repr(mv)[:80])
            continue
        defined = {}
        for b in range(256):
            ctx.case(("cd-byte", cid, b))
            p = py_decode(bytes([b]), cid, "strict")
            m = unopt(mv[b])
            if (None if p is None else ord(p)) != m:
                ctx.disagree("bytes([b]).decode ~ Model.Codecs.sb_dec_byte", {"codec": PYNAME[cid], "byte": b},
                             None if p is None else ord(p), m)
            if p is not None:
                defined[ord(p)] = b
        # encodability of EVERY code point is what the table says (the model's encoder is proved to be the table's inverse)
        bad = None
        for cp in range(0x110000):
            try:
                e = chr(cp).encode(PYNAME[cid])
            except UnicodeEncodeError:
                e = None
            exp = defined.get(cp)
            if (None if e is None else list(e)) != (None if exp is None else [exp]):
                bad = cp
                break
        ctx.evaluations += 0x110000
        if bad is not None:
            ctx.disagree("str.encode ~ inverse of the decode table", {"codec": PYNAME[cid], "code_point": bad},
                         repr(py_encode(chr(bad), cid, "strict")), repr(defined.get(bad)))
    # the model's encoder itself on single characters: every table character, every code point below 0x3000, samples above
    cps = sorted(set(range(0x3000)) | {0xd800, 0xdfff, 0xfffd, 0xfffe, 0xffff, 0x10000, 0x10ffff, 0x110000}
                 | {ctx.rng.randrange(0x110000) for _ in range(3000 if ctx.thorough else 600)})
    res = ctx.model.run([[21007, cid, cps] for cid in ENCODERS])
    for cid, mv in zip(ENCODERS, res):
        if merr(mv):
            ctx.disagree("codec_enc_char", {"codec": PYNAME[cid]}, "list", repr(mv)[:80])
            continue
        for cp, m in zip(cps, mv):
            p = py_encode(chr(cp), cid, "strict") if cp < 0x110000 else None
            ctx.evaluations += 1
            if (None if p is None else list(p)) != unopt(m):
                ctx.disagree("chr(c).encode ~ Model.Codecs.codec_enc_char", {"codec": PYNAME[cid], "code_point": cp},
                             None if p is None else list(p), unopt(m))
    ctx.count("cd_single_byte_entries", 256 * len(SINGLE_BYTE))
    ctx.count("cd_code_points_encodability", 0x110000 * len(SINGLE_BYTE))


def adversarial_bytes(ctx):
    rng = ctx.rng
    out = [b""]
    # every string of <= 3 (thorough: 4) bytes over the lead / continuation / surrogate boundary bytes
    alpha = [0x41, 0x7f, 0x80, 0x8f, 0x90, 0x9f, 0xa0, 0xbf, 0xc1, 0xc2, 0xdf, 0xe0, 0xed, 0xef, 0xf0, 0xf4, 0xf5, 0xff,
             0x00, 0xd8, 0xdc, 0xfe]
    for L in range(1, (4 if ctx.thorough else 3) + 1):
        if L <= 2 or (ctx.thorough and L == 3):
            for t in itertools.product(alpha, repeat=L):
                out.append(bytes(t))
        else:
            for t in itertools.product(alpha[2:18], repeat=L):       # the UTF-8 lead / continuation boundary bytes
                out.append(bytes(t))
    out += FRAGMENTS
    for a in FRAGMENTS:
        for b in rng.sample(FRAGMENTS, 6):
            out.append(a + b)
            out.append(b"x" + a + b"y" + b)
    n = 6000 if ctx.thorough else 1500
    for _ in range(n):
        c = rng.random()
        if c < 0.3:
            bs = bytes(rng.randrange(256) for _ in range(rng.randint(0, 12)))
        elif c < 0.6:
            bs = bytes(rng.choice(ADVERSARIAL) for _ in range(rng.randint(1, 10)))
        else:
            parts = []
            for _ in range(rng.randint(1, 5)):
                k = rng.random()
                if k < 0.4:
                    parts.append(rng.choice(FRAGMENTS))
                elif k < 0.8:
                    t = "".join(rng.choice(TEXT_POOL) for _ in range(rng.randint(1, 4)))
                    parts.append(t.encode(rng.choice(["utf-8", "utf-16-le", "utf-16-be", "utf-32-le", "utf-32-be"]),
                                          "surrogatepass"))
                else:
                    parts.append(bytes([rng.randrange(256)]))
            bs = b"".join(parts)
            if rng.random() < 0.3 and bs:
                bs = bs[:rng.randrange(len(bs))]                      # truncation
        out.append(bs)
    return list(dict.fromkeys(out))


def decode_sweep(ctx):
    inputs = adversarial_bytes(ctx)
    ctx.count("cd_decode_inputs", len(inputs))
    if not ctx.build.model_ok:
        return
    cmds, info = [], []
    for bs in inputs:
        for cid in PYNAME:
            for mi, errors in enumerate(ERRORS_DEC):
                cmds.append([21000, cid, mi, bs])
                info.append((bs, cid, errors))
    invalid = 0
    for (bs, cid, errors), mv in zip(info, ctx.model.run(cmds)):
        p = py_decode(bs, cid, errors)
        m = "MODEL-ERR" if merr(mv) else s_(unopt(mv))
        invalid += p is None
        ctx.case(("cd-dec", bs, cid, errors), nontrivial=any(b > 127 for b in bs))
        if p != m:
            ctx.disagree("bytes.decode(codec, errors) ~ Model.Codecs.codec_decode",
                         {"bytes_hex": bs.hex(), "codec": PYNAME[cid], "errors": errors},
                         None if p is None else [ord(c) for c in p],
                         m if (m is None or m == "MODEL-ERR") else [ord(c) for c in m])
    ctx.count("cd_decode_calls", len(cmds))
    ctx.count("cd_decode_calls_rejected_by_python", invalid)
    ctx.sample({"codec_decode_inputs": "every string of <=3 bytes over 22 boundary bytes (16 for length 3), %d marks/overlong/"
                                       "surrogate/truncated/lone-continuation fragments and their pairs, seeded random: uniform "
                                       "bytes, boundary bytes, fragments mixed with UTF-8/16/32 text (surrogatepass) and truncated"
                                       % len(FRAGMENTS), "n_inputs": len(inputs), "x_codecs": 8, "x_errors": 2})


def encode_sweep(ctx):
    rng = ctx.rng
    strs = ["", "a", "é", "€", "\x81", "\x96", "\ud800", "\udfff", "a\ud800b", "￾", "\U0010ffff", "&#1;", "☃☃", "?",
            TEXT_POOL]
    for _ in range(2500 if ctx.thorough else 600):
        c = rng.random()
        if c < 0.5:
            strs.append("".join(rng.choice(TEXT_POOL) for _ in range(rng.randint(1, 8))))
        elif c < 0.8:
            strs.append("".join(chr(rng.choice([rng.randrange(0x100), rng.randrange(0x3000), rng.randrange(0xd7f0, 0xe010),
                                                rng.randrange(0x110000)])) for _ in range(rng.randint(1, 6))))
        else:
            strs.append("".join(chr(rng.randrange(0x80, 0xa0)) if rng.random() < 0.5 else rng.choice("ab&;#0") for _ in range(rng.randint(1, 6))))
    strs = list(dict.fromkeys(strs))
    ctx.count("cd_encode_inputs", len(strs))
    if not ctx.build.model_ok:
        return
    cmds, info = [], []
    for s in strs:
        for cid in ENCODERS:
            for pi, errors in enumerate(ERRORS_ENC):
                cmds.append([21001, cid, pi, s])
                info.append((s, cid, errors))
    for (s, cid, errors), mv in zip(info, ctx.model.run(cmds)):
        p = py_encode(s, cid, errors)
        m = "MODEL-ERR" if merr(mv) else (mv[1] if mv and mv[0] == 1 else None)
        ctx.case(("cd-enc", s, cid, errors), nontrivial=any(ord(c) > 127 for c in s))
        if (None if p is None else list(p)) != m:
            ctx.disagree("str.encode(codec, errors) ~ Model.Codecs.codec_encode",
                         {"code_points": [ord(c) for c in s], "codec": PYNAME[cid], "errors": errors},
                         None if p is None else list(p), m)
        # round trip on the implementation side (what the Coq theorems say, observed)
        if p is not None and errors == "strict" and py_decode(p, cid, "strict") != s:
            ctx.fail({"code_points": [ord(c) for c in s], "codec": PYNAME[cid]}, "decode(encode(s)) differs from s",
                     repr(py_decode(p, cid, "strict")), repr(s), tag="codec-roundtrip")
    ctx.count("cd_encode_calls", len(cmds))


def sweeps(ctx, names=True, single=True, decode=True, encode=True):
    if names:
        name_sweep(ctx)
    if single:
        single_byte_sweep(ctx)
    if decode:
        decode_sweep(ctx)
    if encode:
        encode_sweep(ctx)


# --------------------------------------------------------------------------------------------------------- UnicodeDammit
MODE_ID = {"strict": 0, "replace": 1}


def chardet_absent():
    from bs4 import dammit
    try:
        return dammit._chardet_dammit(b"abc") is None
    except Exception:
        return False


def ascii_cased(data):
    """str.lower() acts on this str as ASCII lower-casing does (what Model.Codecs uses for names)"""
    return all(c.lower() == c for c in data if ord(c) > 127)


def observe_dammit(data, known, user, exclude, override, is_html):
    from bs4.dammit import UnicodeDammit
    kw = {}
    if known:
        kw["known_definite_encodings"] = list(known)
    if user:
        kw["user_encodings"] = list(user)
    if exclude:
        kw["exclude_encodings"] = list(exclude)
    if override:
        kw["override_encodings"] = list(override)
    with warnings.catch_warnings():
        warnings.simplefilter("ignore")
        try:
            d = UnicodeDammit(data, is_html=is_html, **kw)
            return {"text": d.unicode_markup, "orig": d.original_encoding, "flag": d.contains_replacement_characters,
                    "declared": d.declared_html_encoding,
                    "tried": [[c, MODE_ID.get(m, m)] for c, m in d.tried_encodings], "markup": d.markup,
                    "sniffed": d.detector.sniffed_encoding, "cands": list(d.detector.encodings)}
        except Exception as e:
            return "EXC:" + type(e).__name__ + ":" + str(e)[:80]


def dec_concrete(mv):
    if merr(mv):
        return "MODEL-" + str(mv)
    text, orig, flag, decl, tried, markup, sniffed, cands = mv
    mk = s_(markup[1]) if markup[0] == 0 else bytes(markup[1])
    return {"text": s_(unopt(text)), "orig": s_(unopt(orig)), "flag": bool(flag), "declared": s_(unopt(decl)),
            "tried": [[s_(c), m] for c, m in tried], "markup": mk, "sniffed": s_(unopt(sniffed)),
            "cands": [s_(c) for c in cands]}


def dammit_cmd(data, known, user, exclude, override, is_html):
    return [21004, 0 if isinstance(data, str) else 1, data, list(known), list(override), list(user), list(exclude), bool(is_html)]


def case_supported(ctx, data, names, sniffed_names=()):
    if isinstance(data, str) and not ascii_cased(data):
        return False
    return names_supported(ctx, list(names) + ["utf-8", "windows-1252", "ascii"] + list(sniffed_names))


def bom_name(data):
    if isinstance(data, bytes):
        if len(data) >= 4 and data[:2] in (b"\xfe\xff", b"\xff\xfe") and data[2:4] != b"\x00\x00":
            return "utf-16be" if data[:2] == b"\xfe\xff" else "utf-16le"
        if data[:3] == b"\xef\xbb\xbf":
            return "utf-8"
        if data[:4] == b"\x00\x00\xfe\xff":
            return "utf-32be"
        if data[:4] == b"\xff\xfe\x00\x00":
            return "utf-32le"
    return None


def show(o):
    if isinstance(o, dict):
        d = dict(o)
        for k in ("text", "markup"):
            v = d.get(k)
            if isinstance(v, bytes):
                d[k] = v[:200].hex()
            elif isinstance(v, str) and len(v) > 200:
                d[k] = v[:200] + "..."
        return d
    return o


def compare_dammit(ctx, case, obs, mv, name="UnicodeDammit(...) ~ Model.Codecs.c_dammit (concrete codecs, modelled sniffing)"):
    m = dec_concrete(mv)
    if obs != m:
        diff = [k for k in obs if isinstance(obs, dict) and isinstance(m, dict) and obs[k] != m.get(k)] if isinstance(obs, dict) else []
        ctx.disagree(name, dict(case, differs=diff), show(obs), show(m))


def gen_doc(rng):
    right = rng.choice(["utf-8", "utf-8", "ascii", "iso-8859-1", "windows-1252", "windows-1252", "utf-16le", "utf-16be",
                        "utf-32le", "utf-32be"])
    pyname = {"utf-16le": "utf-16-le", "utf-16be": "utf-16-be", "utf-32le": "utf-32-le", "utf-32be": "utf-32-be"}.get(right, right)
    n = rng.randint(0, 12)
    text = "".join(rng.choice(TEXT_POOL) for _ in range(n)).encode(pyname, "ignore").decode(pyname, "ignore")
    decl_names = []
    head = ""
    c = rng.random()
    if c < 0.55:
        nm = rng.choice(NAMES + NAMES + BOGUS + [x.upper() for x in NAMES] + [x.title() for x in NAMES] + ["latin1", "utf_8", "\x81x"])
        decl_names.append(nm)
        k = rng.random()
        if k < 0.35:
            head = '<meta charset="%s">' % nm
        elif k < 0.55:
            head = "<META http-equiv=Content-Type content='text/html; charset=%s'>" % nm
        elif k < 0.8:
            head = '<?xml version="1.0" encoding="%s"?>' % nm
        else:
            head = "  <?xml encoding='%s' ?><meta charset=%s >" % (nm, rng.choice(NAMES))
    body = (head + "<p>" + text + "</p>")
    try:
        data = body.encode(pyname)
    except UnicodeEncodeError:
        data = body.encode(pyname, "replace")
    c = rng.random()
    if c < 0.35:
        pos = rng.randint(0, len(data))
        data = data[:pos] + rng.choice(FRAGMENTS) + data[pos:]
    if rng.random() < 0.1 and data:
        data = data[:rng.randrange(len(data))]
    c = rng.random()
    if c < 0.2:
        data = BOMS.get(right, b"") + data
    elif c < 0.3:
        data = rng.choice(list(BOMS.values())) + data
    return data, right, decl_names


def gen_names(rng, right, k):
    out = []
    for _ in range(k):
        c = rng.random()
        if c < 0.3:
            out.append(right)
        elif c < 0.75:
            n = rng.choice(NAMES)
            out.append(rng.choice([n, n, n.upper(), n.title(), n.replace("-", "_")]))
        elif c < 0.95:
            out.append(rng.choice(BOGUS))
        else:
            out.append("")
    return out


def dammit_cases(ctx, ctor=True):
    """seeded random documents (8 encodings, declarations naming right / wrong / unknown codecs in three syntaxes,
    inserted malformed fragments, truncation, right / wrong byte-order marks) x argument lists drawn from the modelled
    names, their spellings and unknown names; plus every string of <= 2 boundary bytes with default arguments."""
    if not ctx.build.model_ok:
        return
    if not chardet_absent():
        ctx.count("cd_dammit_skipped_chardet_present")
        return
    rng = ctx.rng
    cases = []
    alpha = [0x41, 0x80, 0x81, 0x93, 0xa0, 0xc3, 0xa9, 0xe2, 0xed, 0xf0, 0xff, 0xfe, 0x00, 0xef, 0xbb, 0xbf]
    for L in (1, 2):
        for t in itertools.product(alpha, repeat=L):
            cases.append((bytes(t), [], [], [], [], True, []))
    for f in FRAGMENTS:
        cases.append((b"<p>" + f + b"</p>", [], [], [], [], True, []))
        cases.append((f, [], [], ["utf-8"], [], True, []))
        cases.append((f, ["ascii"], ["latin-1"], [], [], False, []))
        cases.append((f + b"\x81", [], [], ["windows-1252"], [], True, []))       # the last resort excluded
    n = 5000 if ctx.thorough else 1400
    for _ in range(n):
        data, right, decl = gen_doc(rng)
        c = rng.random()
        known = gen_names(rng, right, rng.choice([0, 0, 1, 2])) if c < 0.5 else []
        user = gen_names(rng, right, rng.choice([0, 1, 2])) if rng.random() < 0.4 else []
        exclude = gen_names(rng, right, rng.choice([1, 2])) if rng.random() < 0.3 else []
        override = gen_names(rng, right, 1) if rng.random() < 0.08 else []
        if rng.random() < 0.06:
            try:
                data = data.decode("utf-8")                       # str input
            except UnicodeDecodeError:
                pass
        cases.append((data, known, user, exclude, override, rng.random() < 0.85, decl))
    todo, cmds = [], []
    outside = 0
    for data, known, user, exclude, override, is_html, decl in cases:
        names = known + user + exclude + override + ([bom_name(data)] if bom_name(data) else [])
        obs = observe_dammit(data, known, user, exclude, override, is_html)
        sn = [obs["declared"]] if isinstance(obs, dict) and obs["declared"] else []
        if isinstance(obs, dict):
            sn += [c for c in obs["cands"]]
        if not case_supported(ctx, data, names, sn):
            outside += 1
            continue
        case = {"data_hex": data.hex()} if isinstance(data, bytes) else {"data_str_codepoints": [ord(c) for c in data]}
        case.update({"known": known, "user": user, "exclude": exclude, "override": override, "is_html": is_html,
                     "api": "UnicodeDammit", "concrete": True})
        ctx.case(("cd-dammit", data, tuple(known), tuple(user), tuple(exclude), tuple(override), is_html))
        todo.append((case, obs))
        cmds.append(dammit_cmd(data, known, user, exclude, override, is_html))
        # direct oracle for the totality clause the Coq theorem C07_last_resort_never_fails states
        if isinstance(obs, dict) and isinstance(data, bytes) and data and obs["text"] is None and \
                not any(e.lower() in ("windows-1252",) for e in exclude):
            ctx.fail(case, "no text although windows-1252 (which decodes every byte string with replacement) was a candidate",
                     None, "some text", tag="last-resort")
    ctx.count("cd_dammit_cases", len(todo))
    ctx.count("cd_dammit_cases_outside_model_names", outside)
    if todo:
        ctx.sample({"concrete_dammit_case": todo[len(todo) // 2][0], "impl": show(todo[len(todo) // 2][1])})
    for (case, obs), mv in zip(todo, ctx.model.run(cmds, chunk=2000)):
        compare_dammit(ctx, case, obs, mv)
    if ctor:
        ctor_cases(ctx, cases)


def ctor_cases(ctx, cases):
    """BeautifulSoup(data, 'html.parser', from_encoding=..., exclude_encodings=...) ~ c_prepare_markup"""
    from bs4 import BeautifulSoup
    from bs4.exceptions import ParserRejectedMarkup
    todo, cmds = [], []
    for data, known, user, exclude, override, is_html, decl in cases:
        if user or override or len(known) > 1 or not is_html or not isinstance(data, bytes):
            continue
        fe = known[0] if known else None
        names = known + exclude + ([bom_name(data)] if bom_name(data) else [])
        obs0 = observe_dammit(data, known, [], exclude, [], True)
        sn = ([obs0["declared"]] if obs0["declared"] else []) + list(obs0["cands"]) if isinstance(obs0, dict) else []
        if not case_supported(ctx, data, names, sn):
            continue
        with warnings.catch_warnings():
            warnings.simplefilter("ignore")
            try:
                kw = {}
                if fe is not None:
                    kw["from_encoding"] = fe
                if exclude:
                    kw["exclude_encodings"] = list(exclude)
                soup = BeautifulSoup(data, "html.parser", **kw)
                obs = {"orig": soup.original_encoding, "declared": soup.declared_html_encoding,
                       "flag": soup.contains_replacement_characters}
            except ParserRejectedMarkup:
                obs = "REJECTED"
            except Exception as e:
                obs = "EXC:" + type(e).__name__
        case = {"data_hex": data.hex(), "from_encoding": fe, "exclude": exclude, "api": "BeautifulSoup", "concrete": True}
        ctx.case(("cd-ctor", data, fe, tuple(exclude)))
        todo.append((case, obs, data))
        cmds.append([21005, 1, data, [] if fe is None else [fe], list(exclude)])
    ctx.count("cd_ctor_cases", len(todo))
    for (case, obs, data), mv in zip(todo, ctx.model.run(cmds, chunk=2000)):
        if merr(mv):
            m = "MODEL-" + str(mv)
        elif mv[0] == 0:
            m = "REJECTED"
        else:
            _, text, orig, decl, flag = mv
            m = {"orig": s_(unopt(orig)), "declared": s_(unopt(decl)), "flag": bool(flag)}
            # html.parser may itself refuse the decoded text: not prepare_markup's doing
            if obs == "REJECTED":
                continue
        if obs != m:
            ctx.disagree("BeautifulSoup(bytes, from_encoding, exclude_encodings) ~ Model.Codecs.c_prepare_markup", case, obs, m)


# --------------------------------------------------------------------------------------------------------- Tag.encode
def model_codec(ctx, enc):
    """the codec number when `enc` is a name both sides resolve to a modelled *encoder*"""
    if not isinstance(enc, str) or not enc.isascii():
        return None
    st = name_reach(ctx, [enc])
    p = py_codec(enc)
    if st[enc] == "same" and p in ENCODERS:
        return p
    return None


def encode_cmd(entry, mnode, enc, indent, fmt_id, policy_id):
    return [21006, {"encode": 0, "prettify": 1, "encode_contents": 2}[entry], mnode, enc,
            [] if indent is None else [indent], fmt_id, policy_id]


def dec_encode(mv):
    if merr(mv):
        return "MODEL-" + str(mv)
    if mv[0] == 0:
        return "MODEL-UNKNOWN-NAME"
    r = mv[1]
    return r[1] if (r and r[0] == 1) else "UnicodeEncodeError"


# --------------------------------------------------------------------------------------------------------- replay
def replay(cj):
    """prints what the implementation / interpreter does on a case produced by this module; True when handled"""
    if cj.get("misled_by") or cj.get("theorem") == "C08_autodetect_declared":
        from props import c08
        enc = cj.get("encoding")
        if cj.get("markup"):
            r = c08.call(c08.make_soup(cj["markup"]).encode, enc)
            data = r[1] if r[0] == "ok" else None
            print("BeautifulSoup(%r, 'html.parser').encode(%r) = %r" % (cj["markup"], enc, data if data is None else data[:200]))
        else:
            data = bytes.fromhex(cj["data_hex"]) if cj.get("data_hex") else None
            print("encoded bytes (%s): %r" % (enc, data if data is None else data[:200]))
        if data is not None:
            _, obs, want = redetect(data, enc)
            print("re-parsing them:", obs)
            print("the property demands:", want)
            if cj.get("misled_by"):
                st = {"charset": 0, "content": 1}.get(cj.get("meta_style"), 0)
                print("class %r; the corresponding hypothesis of C08_autodetect_declared fails on these bytes: %s"
                      % (cj["misled_by"], misled_hypothesis_fails(cj["misled_by"], data, enc, st)))
        return True
    if "bytes_hex" in cj and "codec" in cj:
        bs = bytes.fromhex(cj["bytes_hex"])
        try:
            r = [ord(c) for c in bs.decode(cj["codec"], cj.get("errors", "strict"))]
        except UnicodeDecodeError as e:
            r = "UnicodeDecodeError: %s" % e
        print("%r.decode(%r, %r) = %r" % (bs, cj["codec"], cj.get("errors"), r))
        return True
    if "code_points" in cj and "codec" in cj:
        s = "".join(map(chr, cj["code_points"]))
        try:
            r = list(s.encode(cj["codec"], cj.get("errors", "strict")))
        except UnicodeEncodeError as e:
            r = "UnicodeEncodeError: %s" % e
        print("%r.encode(%r, %r) = %r" % (s, cj["codec"], cj.get("errors"), r))
        return True
    if "code_point" in cj or "byte" in cj and "codec" in cj and "mode" not in cj:
        print("single-byte table / encodability case:", cj)
        return True
    if set(cj) == {"name"}:
        print("codecs.lookup(%r) -> %r" % (cj["name"], py_codec(cj["name"])))
        return True
    if cj.get("concrete") and cj.get("api") == "BeautifulSoup":
        from bs4 import BeautifulSoup
        data = bytes.fromhex(cj["data_hex"])
        kw = {}
        if cj.get("from_encoding") is not None:
            kw["from_encoding"] = cj["from_encoding"]
        if cj.get("exclude"):
            kw["exclude_encodings"] = cj["exclude"]
        with warnings.catch_warnings():
            warnings.simplefilter("ignore")
            try:
                soup = BeautifulSoup(data, "html.parser", **kw)
                print("BeautifulSoup(%r, 'html.parser', %r): original_encoding=%r declared_html_encoding=%r "
                      "contains_replacement_characters=%r" % (data[:80], kw, soup.original_encoding,
                                                              soup.declared_html_encoding, soup.contains_replacement_characters))
            except Exception as e:
                print("BeautifulSoup(%r, %r) raised %s" % (data[:80], kw, type(e).__name__))
        return True
    if cj.get("concrete") and cj.get("api") == "UnicodeDammit":
        data = bytes.fromhex(cj["data_hex"]) if "data_hex" in cj and cj["data_hex"] is not None else \
            "".join(map(chr, cj.get("data_str_codepoints") or [])) if cj.get("data_str_codepoints") is not None else cj.get("data_str", "")
        obs = observe_dammit(data, cj.get("known", []), cj.get("user", []), cj.get("exclude", []), cj.get("override", []),
                             cj.get("is_html", True))
        print("UnicodeDammit(%r, known_definite_encodings=%r, user_encodings=%r, exclude_encodings=%r, override_encodings=%r, "
              "is_html=%r)" % (data[:120], cj.get("known"), cj.get("user"), cj.get("exclude"), cj.get("override"), cj.get("is_html")))
        print("  ->", show(obs))
        return True
    return False


# --------------------------------------------------------------------------------------------------------- C08: encode, then detect
AUTODETECT_TARGETS = [("latin-1", "café déjà vu ☃"), ("iso-8859-1", "naïve Ω"), ("windows-1252", "“quoted” – €5"), ("cp1252", "Œuvre ☃"),
                      ("utf-8", "Привет, мир ☃"), ("utf8", "日本語"), ("ascii", "café"), ("us-ascii", "plain")]
ADVERSARIAL_PREFIXES = [
    ("bom-lookalike", "ÿþ"), ("bom-lookalike-utf8", "ï»¿"), ("bom-lookalike-be", "þÿ"), ("text-first", "hello é "),
    ("stale-xml-declaration", '<?xml version="1.0" encoding="latin-1"?>'), ("stale-xml-declaration-unknown", '<?xml version="1.0" encoding="koi8-r"?>'),
    ("xml-declaration-no-encoding", '<?xml version="1.0"?>'),
    ("declaration-in-comment", '<!-- <meta charset="latin-1"> -->'), ("declaration-in-script", '<script>var s = "<meta charset=latin-1>";</script>'),
    ("escaped-in-title", "<title>&lt;meta charset=latin-1&gt;</title>"), ("comment-plain", "<!-- nothing to see -->"),
    ("meta-without-charset", '<meta name="viewport" content="width=device-width"/>'),
    ("doctype", "<!DOCTYPE html>"),
]
ADVERSARIAL_TAGS = [
    ("later-attribute-value", '<meta charset="x" x="charset=latin-1"/>'), ("later-attribute-name", '<meta charset="x" data-charset="latin-1"/>'),
    ("extra-attribute", '<meta charset="x" id="m"/>'), ("empty-charset", '<meta charset=""/>'),
]


# the open finding C08-autodetect-misled-by-other-bytes: four classes of bytes that mislead the re-detection, each with fixed
# instances (independent of the seed) that run in every tier: (class, markup, target, meta style)
MISLED_CLASSES = ("mark-lookalike", "xml-declaration", "declaration-in-comment-or-script", "charset-in-other-attribute")
MISLED_WITNESSES = [
    ("mark-lookalike", 'ÿþ<meta charset="koi8-r"/><p>café</p>', "latin-1", 0),
    ("mark-lookalike", 'þÿ<head><meta charset="koi8-r"/></head><p>naïve</p>', "iso-8859-1", 0),
    ("mark-lookalike", 'ÿþ<meta http-equiv="Content-Type" content="text/html; charset=koi8-r"/><p>déjà</p>', "latin-1", 1),
    ("xml-declaration", '<?xml version="1.0" encoding="latin-1"?><meta charset="latin-1"/><p>café €</p>', "utf-8", 0),
    ("xml-declaration", '<?xml version="1.0" encoding="koi8-r"?><head><meta charset="koi8-r"/></head><p>café</p>', "latin-1", 0),
    ("xml-declaration", '<?xml version="1.0" encoding="latin-1"?><meta http-equiv="Content-Type" content="text/html; charset=latin-1"/><p>€</p>', "utf-8", 1),
    ("declaration-in-comment-or-script", '<!-- <meta charset="latin-1"> --><meta charset="latin-1"/><p>café €</p>', "utf-8", 0),
    ("declaration-in-comment-or-script", '<script>var s = "<meta charset=latin-1>";</script><meta charset="latin-1"/><p>café €</p>', "utf-8", 0),
    ("charset-in-other-attribute", '<meta charset="latin-1" x="charset=koi8-r"/><p>café €</p>', "utf-8", 0),
    ("charset-in-other-attribute", '<meta charset="latin-1" data-charset="koi8-r"/><p>café €</p>', "utf-8", 0),
]
_XML_DECL = re.compile(rb"^\s*<\?.*encoding=['\"](.*?)['\"].*\?>", re.I)
_HTML_META = re.compile(rb"<\s*meta[^>]+charset\s*=\s*[\"']?([^>]*?)[ /;'\">]", re.I)


def misled_hypothesis_fails(cls, data, enc, style):
    """Python re-evaluation (independent of the extracted model) of the hypothesis of C08_autodetect_declared that the class
    names, on the ENCODED bytes: True when that hypothesis really fails."""
    head = (b'<meta charset="' if style == 0 else b'<meta content="text/html; charset=') + enc.encode("ascii") + b'"'
    at = data.find(head)
    if at < 0:
        return False
    window = max(2048, int(len(data) * 0.05))
    if cls == "mark-lookalike":
        return bom_name(data) is not None
    if cls == "xml-declaration":
        return _XML_DECL.search(data, 0, 1024) is not None
    if cls == "declaration-in-comment-or-script":
        m = _HTML_META.search(data, 0, window)
        return m is not None and m.start() < at
    if cls == "charset-in-other-attribute":
        end = data.find(b">", at)
        rest = data[at + len(head):end if end >= 0 else len(data)]
        return b"charset" in rest.lower()
    return False


def known_misled(f):
    """matcher of the open finding: exactly the failures tagged autodetect-misled whose class is one of the four and whose
    hypothesis really fails on the encoded bytes"""
    case = f.get("case") or {}
    if f.get("tag") != "autodetect-misled" or case.get("misled_by") not in MISLED_CLASSES or not case.get("data_hex"):
        return False
    st = {"charset": 0, "content": 1}.get(case.get("meta_style"))
    if st is None or not isinstance(case.get("encoding"), str):
        return False
    return misled_hypothesis_fails(case["misled_by"], bytes.fromhex(case["data_hex"]), case["encoding"], st)


def redetect(data, enc):
    """what the real library makes of the encoded bytes (observed), and what the property demands (expected)"""
    from bs4 import BeautifulSoup
    from bs4.dammit import UnicodeDammit
    with warnings.catch_warnings():
        warnings.simplefilter("ignore")
        d = UnicodeDammit(data, is_html=True)
        soup2 = BeautifulSoup(data, "html.parser")
    obs = {"orig": d.original_encoding, "declared": d.declared_html_encoding, "flag": d.contains_replacement_characters,
           "text_is_decoding": d.unicode_markup == data.decode(enc), "ctor_orig": soup2.original_encoding}
    want = {"orig": enc, "declared": enc, "flag": False, "text_is_decoding": True, "ctor_orig": enc}
    return d, obs, want


def misled_witness_still_fails(cls=None):
    """the fixed witnesses, on the current tree: True when one (of that class) is still detected wrongly"""
    from props import c08
    for c, markup, enc, st in MISLED_WITNESSES:
        if cls is not None and c != cls:
            continue
        r = c08.call(c08.make_soup(markup).encode, enc)
        if r[0] != "ok":
            continue
        _, obs, want = redetect(r[1], enc)
        if obs != want and misled_hypothesis_fails(c, r[1], enc, st):
            return True
    return False


def autodetect_cases(ctx):
    """C08_autodetect_declared / _rendering evaluated on generated instances: documents are rendered by the real library
    (soup.encode(target), target one of the four encoders defined in Coq, any modelled spelling), the bytes are split at
    the rewritten <meta> tag, the model evaluates the theorem's hypotheses in decidable form (21010: no byte-order mark,
    declaration inside the first max(2048, 5 %) bytes, no XML declaration naming an encoding in the first 1024 bytes, no
    earlier text the html pattern matches) and - for instances inside the domain - the conclusion is checked on the real
    library: UnicodeDammit / BeautifulSoup detect exactly that name, the text is the decoding of the bytes, the flag is off."""
    if not ctx.build.model_ok or not chardet_absent():
        return
    from bs4 import BeautifulSoup
    from bs4.dammit import UnicodeDammit
    from props import c08, c08_r4
    rng = ctx.rng
    tags = {}
    keys = [(st, nm) for st in (0, 1) for nm, _ in AUTODETECT_TARGETS]
    for (st, nm), mv in zip(keys, ctx.model.run([[21011, st, nm] for st, nm in keys])):
        tags[(st, nm)] = bytes(mv)
    docs = []      # (family, note, soup, enc, style)
    # (1) declarations at controlled byte offsets (the documents of c08_r4), both styles, four kinds of material in front
    offsets = [300, 1000, 1023, 1024, 1025, 1536, 2000, 2030, 2040, 2047, 2048, 2049, 2100, 2300]
    fills = ["title-ascii", "title-references", "comment", "head-elements"]
    plan = [(t, f, 0) for t in offsets for f in (fills if ctx.thorough else rng.sample(fills, 2))]
    for total in ((60000, 100000) if ctx.thorough else (60000,)):
        w = int(total * 0.05)
        plan += [(w - 400, rng.choice(fills), total), (w - 30, rng.choice(fills), total), (w + 600, rng.choice(fills), total)]
    for tgt, fill, total in plan:
        enc, body = rng.choice(AUTODETECT_TARGETS)
        st = rng.choice([0, 1])
        style_fn = c08_r4.META_STYLES[st][1]
        n = max(tgt - 80, 1)
        d = None
        for _ in range(4):
            d = c08_r4.build_offset_doc(style_fn, fill, n, body, max(total - tgt, 0))
            r = c08.call(c08.build_doc(d).encode, enc)
            if r[0] != "ok":
                break
            i = r[1].find(tags[(st, enc)])
            if i < 0:
                break
            delta = tgt - (i + len(tags[(st, enc)]))
            if abs(delta) <= (1 if fill in ("title-ascii", "comment") else 45):
                break
            n = max(n + delta, 1)
        docs.append(("offset", {"wanted_end_offset": tgt, "in_front": fill, "total": total, "doc": d}, c08.build_doc(d), enc, st))
    # (2) adversarial material in front of / inside the declaration (parsed by html.parser, so the tree is the library's own)
    for label, prefix in ADVERSARIAL_PREFIXES:
        for enc, body in rng.sample(AUTODETECT_TARGETS, 3 if not ctx.thorough else len(AUTODETECT_TARGETS)):
            for st, tagsrc in ((0, '<meta charset="koi8-r"/>'), (1, '<meta http-equiv="Content-Type" content="text/html; charset=koi8-r"/>')):
                markup = prefix + "<head>" + tagsrc + "</head><p>" + body + "</p>"
                docs.append(("adversarial-prefix", {"what": label, "markup": markup}, c08.make_soup(markup), enc, st))
    for label, tagsrc in ADVERSARIAL_TAGS:
        for enc, body in rng.sample(AUTODETECT_TARGETS, 2):
            markup = "<head>" + tagsrc + "</head><p>" + body + "</p>"
            docs.append(("adversarial-tag", {"what": label, "markup": markup}, c08.make_soup(markup), enc, 0))
    for cls, markup, enc, st in MISLED_WITNESSES:      # fixed, seed-independent: every class of the open finding, every tier
        docs.append(("misled-witness", {"what": cls, "markup": markup}, c08.make_soup(markup), enc, st))
    cmds, info = [], []
    for family, note, soup, enc, st in docs:
        r = c08.call(soup.encode, enc)
        case = dict(note, family=family, encoding=enc, meta_style=("charset", "content")[st], theorem="C08_autodetect_declared")
        case.pop("doc", None)
        ctx.case(("cd-autodetect", family, repr(note.get("markup") or (note.get("wanted_end_offset"), note.get("in_front"), note.get("total"))), enc, st))
        if r[0] != "ok":
            ctx.disagree("soup.encode(target) ~ C08_concrete_entry_points_never_raise", case, r[1], "bytes")
            continue
        b = r[1]
        i = b.find(tags[(st, enc)])
        if i < 0:
            ctx.count("cd_autodetect_outside_tag_shape")          # e.g. another attribute inside the tag: not the theorem's tag
            if misled_hypothesis_fails("charset-in-other-attribute", b, enc, st):
                _, obs, want = redetect(b, enc)
                if obs != want:
                    ctx.fail(dict(case, misled_by="charset-in-other-attribute", data_hex=b.hex(), output_bytes=len(b)),
                             "re-parsing the encoded bytes does not auto-detect the encoding used: another attribute of the same <meta> "
                             "tag contains the word charset and the sniffer reports the rightmost one", obs, want, tag="autodetect-misled")
                    ctx.count("cd_autodetect_misled_charset-in-other-attribute")
            continue
        bpre, bpost = b[:i], b[i + len(tags[(st, enc)]):]
        cmds.append([21010, st, enc, bpre, bpost])
        info.append((case, b, enc, i))
    ctx.count("cd_autodetect_instances", len(cmds))
    second, second_info = [], []
    for (case, b, enc, i), mv in zip(info, ctx.model.run(cmds, chunk=50)):
        if merr(mv):
            ctx.disagree("hypotheses of C08_autodetect_declared (21010)", case, "7 values", repr(mv)[:80])
            continue
        in_names, no_bom, in_window, no_xml, no_meta, allc, window = mv
        case = dict(case, bytes_hex=None, output_bytes=len(b), tag_at=i, search_window=window,
                    hypotheses={"name_modelled": bool(in_names), "no_bom": bool(no_bom), "in_window": bool(in_window),
                                "no_xml_declaration": bool(no_xml), "no_earlier_match": bool(no_meta)})
        if len(b) <= 4000:
            case["data_hex"] = b.hex()
        # the window the model computed is the code's: max(2048, int(len * 0.05))
        if window != max(2048, int(len(b) * 0.05)):
            ctx.disagree("search window ~ Model.Autodetect.html_window", case, max(2048, int(len(b) * 0.05)), window)
        d, obs, want = redetect(b, enc)
        if allc and in_names:
            ctx.count("cd_autodetect_in_domain")
            if obs != want:
                ctx.disagree("conclusion of C08_autodetect_declared on the implementation (instance inside the theorem's domain)",
                             case, obs, want)
        else:
            why = [k for k, v in case["hypotheses"].items() if not v][0]
            ctx.count("cd_autodetect_outside_" + why)
            ctx.count("cd_autodetect_outside_and_detected_" + ("right" if obs == want else "wrong"))
            cls = {"no_bom": "mark-lookalike", "no_xml_declaration": "xml-declaration",
                   "no_earlier_match": "declaration-in-comment-or-script"}.get(why)
            if obs != want and cls is not None:
                # the direct oracle: the property's last sentence fails on this document (open finding
                # C08-autodetect-misled-by-other-bytes); a declaration beyond the search window is outside the clause
                ctx.fail(dict(case, misled_by=cls, data_hex=b.hex()),
                         "re-parsing the encoded bytes does not auto-detect the encoding used: %s" % {
                             "mark-lookalike": "the rendering starts with bytes that look like a byte-order mark in the target encoding",
                             "xml-declaration": "an XML declaration naming another encoding stands in front (it is not rewritten and is searched first)",
                             "declaration-in-comment-or-script": "earlier bytes (a comment, a script) look like a <meta> declaration"}[cls],
                         obs, want, tag="autodetect-misled")
                ctx.count("cd_autodetect_misled_" + cls)
        # the fully concrete model on the same bytes, inside or outside the domain (when every name the run meets - mark,
        # declaration, candidates - is one on which the model and codecs.lookup agree)
        if case_supported(ctx, b, [bom_name(b)] if bom_name(b) else [], list(d.detector.encodings) + ([obs["declared"]] if obs["declared"] else [])):
            second.append(dammit_cmd(b, [], [], [], [], True))
            second_info.append((dict(case, api="UnicodeDammit", concrete=True, data_hex=b.hex() if len(b) <= 8000 else None), b))
        else:
            ctx.count("cd_autodetect_redetection_outside_model_names")
    for (case, b), mv in zip(second_info, ctx.model.run(second, chunk=200)):
        compare_dammit(ctx, case, observe_dammit(b, [], [], [], [], True), mv,
                       name="UnicodeDammit(soup.encode(target)) ~ Model.Codecs.c_dammit (re-detection of rendered bytes)")
    ctx.sample({"autodetect_instances": "declarations ending at byte offsets %s (+ around the 5 %% mark of 60 kB documents) behind four kinds of head "
                                        "material, both declaration styles, 8 spellings of the 4 targets; %d kinds of adversarial material in front "
                                        "(mark look-alikes, stale XML declarations, declarations inside comments / scripts) and %d tag variants"
                                        % (offsets, len(ADVERSARIAL_PREFIXES), len(ADVERSARIAL_TAGS))})


# --------------------------------------------------------------------------------------------------------- C07: call shapes
SHAPE_NAMES = ["latin-1", "latin1", "iso-8859-1", "cp1252", "windows-1252", "windows_1252", "ascii", "us-ascii", "utf-8", "utf8",
               "utf_8", "utf-16le", "utf-16be", "utf-32le", "utf-32be", "utf_16le"]
UNKNOWN_DECLARED = ["bogus-8", "no-such-codec", "utf-9", "x-unknown"]


def shape_cases(ctx):
    """C07_known_encoding_detection / _from_encoding_detection / _declared_encoding_detection / _excluded_encodings_detection /
    _unknown_declared_encoding_detection evaluated on generated instances: the model (21012) evaluates each theorem's
    hypotheses (name modelled, bytes non-empty, no byte-order mark, what the modelled sniffer finds) and its closed-form
    right-hand side [concrete_outcome ...]; for every instance inside the domain the real UnicodeDammit (and, for shape 0, the
    BeautifulSoup constructor with from_encoding) must return exactly that (text, original_encoding, flag)."""
    if not ctx.build.model_ok or not chardet_absent():
        return
    from bs4 import BeautifulSoup
    from bs4.exceptions import ParserRejectedMarkup
    rng = ctx.rng
    bodies = [b"", b"abc", b"caf\xc3\xa9", b"caf\xe9", b"caf\xe9\x81", b"\x93x\x94", b"\x81", b"\xe2\x82", b"\xff\xfe", b"\xff\xfea\x00",
              b"\xef\xbb\xbfx", b"<p>\xc3\xa9\x81</p>", b"\x00\xd8\x00\xdc", b"a\x00b\x00", b"\x00\x00\x00a", b"\xf0\x9f\x98\x80", b"\xed\xa0\x80"]
    bodies += FRAGMENTS
    for _ in range(400 if ctx.thorough else 120):
        c = rng.random()
        if c < 0.4:
            bodies.append(bytes(rng.choice(ADVERSARIAL) for _ in range(rng.randint(1, 8))))
        elif c < 0.7:
            t = "".join(rng.choice(TEXT_POOL) for _ in range(rng.randint(1, 6)))
            bodies.append(t.encode(rng.choice(["utf-8", "latin-1", "windows-1252", "utf-16-le", "utf-32-be"]), "ignore"))
        else:
            bodies.append(bytes(rng.randrange(256) for _ in range(rng.randint(1, 10))))
    bodies = list(dict.fromkeys(bodies))
    inst = []           # (shape, name, exclude, data)
    for body in bodies:
        e = rng.choice(SHAPE_NAMES)
        inst.append((0, e, [], body))
        inst.append((0, rng.choice(["ascii", "latin-1", "utf-8", "windows-1252"]), [], body))
        d = rng.choice(SHAPE_NAMES)
        decl = rng.choice(['<meta charset="%s">', "<meta http-equiv='Content-Type' content='text/html; charset=%s'>",
                           '<?xml version="1.0" encoding="%s"?>']) % d
        inst.append((1, d, [], decl.encode("ascii") + body))
        X = rng.choice([["utf-8"], ["windows-1252"], ["UTF-8", "Windows-1252"], ["utf-8", "windows-1252"], ["latin-1"], ["utf8"], []])
        inst.append((2, "", X, body))
        u = rng.choice(UNKNOWN_DECLARED)
        inst.append((3, u, [], ('<meta charset="%s">' % u).encode("ascii") + body))
    res = ctx.model.run([[21012, sh, nm, ex, data] for sh, nm, ex, data in inst], chunk=2000)
    dom = {0: 0, 1: 0, 2: 0, 3: 0}
    for (sh, nm, ex, data), mv in zip(inst, res):
        case = {"theorem": ["C07_known_encoding_detection", "C07_declared_encoding_detection", "C07_excluded_encodings_detection",
                            "C07_unknown_declared_encoding_detection"][sh],
                "data_hex": data.hex(), "known": [nm] if sh == 0 else [], "user": [], "exclude": ex, "override": [], "is_html": True,
                "api": "UnicodeDammit", "concrete": True, "named": nm}
        ctx.case(("cd-shape", sh, nm, tuple(ex), data))
        if merr(mv):
            ctx.disagree("hypotheses / right-hand side of the C07 call-shape theorems (21012)", case, "6 values", repr(mv)[:80])
            continue
        in_names, nonempty, no_mark, decl, unknown, rhs = mv
        decl, unknown = s_(unopt(decl)), s_(unopt(unknown))
        want = {"text": s_(unopt(rhs[0])), "orig": s_(unopt(rhs[1])), "flag": bool(rhs[2])}
        base = bool(nonempty) and bool(no_mark)
        if sh == 0:
            inside = base and bool(in_names) and decl is None
        elif sh == 1:
            inside = base and bool(in_names) and decl == nm
        elif sh == 2:
            inside = base and decl is None
        else:
            # the declared name must be unknown to Python too (the model's notion of "not a modelled codec" alone is not enough)
            inside = base and decl == nm and unknown is not None and all(py_codec(v) is None for v in name_variants(nm) if v)
        if not inside:
            ctx.count("cd_shape%d_outside_domain" % sh)
            continue
        dom[sh] += 1
        obs = observe_dammit(data, [nm] if sh == 0 else [], [], ex, [], True)
        got = {k: obs[k] for k in ("text", "orig", "flag")} if isinstance(obs, dict) else obs
        if got != want:
            ctx.disagree("conclusion of %s on the implementation (instance inside the theorem's domain)" % case["theorem"],
                         case, show(got), show(want))
        if sh in (1, 3) and isinstance(obs, dict) and obs["declared"] != decl:
            ctx.disagree("declared_html_encoding ~ conclusion of %s" % case["theorem"], case, obs["declared"], decl)
        if sh == 0:
            # BeautifulSoup(data, from_encoding=name): C07_from_encoding_detection
            with warnings.catch_warnings():
                warnings.simplefilter("ignore")
                try:
                    soup = BeautifulSoup(data, "html.parser", from_encoding=nm)
                    cobs = {"orig": soup.original_encoding, "flag": soup.contains_replacement_characters}
                except ParserRejectedMarkup:
                    cobs = "REJECTED" if want["text"] is None else None      # html.parser itself may refuse the decoded text
                except Exception as ex_:          # noqa: BLE001
                    cobs = "EXC:" + type(ex_).__name__
            cwant = "REJECTED" if want["text"] is None else {"orig": want["orig"], "flag": want["flag"]}
            if cobs is not None and cobs != cwant:
                ctx.disagree("conclusion of C07_from_encoding_detection on the implementation", dict(case, api="BeautifulSoup", from_encoding=nm),
                             cobs, cwant)
    for sh, n in dom.items():
        ctx.count("cd_shape%d_in_domain" % sh, n)
    ctx.count("cd_shape_instances", len(inst))


# --------------------------------------------------------------------------------------------------------- C08: byte-order mark
def bom_cases(ctx):
    """C08_autodetect_bom on generated instances: strings (first character from the classes low-byte-zero / high-byte-zero /
    astral / lone surrogate / U+0000, then random text) are encoded by the model (21013) and by
    str.encode("utf-16" / "utf-32", "xmlcharrefreplace"); the bytes must be equal; for instances inside the theorem's domain
    (non-empty; for UTF-16 the first character is not U+0000) the real UnicodeDammit must report utf-16le / utf-32le, flag
    off, and the text must be the decoding; the concrete model is run on the same bytes."""
    if not ctx.build.model_ok or not chardet_absent():
        return
    rng = ctx.rng
    firsts = [0x41, 0x3c, 0xe9, 0xff, 0x100, 0x400, 0x3000, 0x4e00, 0xfeff, 0xfffe, 0xffff, 0x10000, 0x1f600, 0x10ffff, 0xd800, 0xdfff, 0x0, 0x26]
    strs = [""]
    for c in firsts:
        strs.append(chr(c))
        strs.append(chr(c) + "".join(rng.choice(TEXT_POOL) for _ in range(rng.randint(0, 6))))
        strs.append(chr(c) + '<meta charset="latin-1"/><p>é</p>')
    for _ in range(300 if ctx.thorough else 60):
        strs.append("".join(chr(rng.choice([rng.randrange(0x100), rng.randrange(0x3000), rng.randrange(0xd7f0, 0xe010), rng.randrange(0x110000)]))
                            for _ in range(rng.randint(1, 6))))
    strs = list(dict.fromkeys(strs))
    cmds, info = [], []
    for s in strs:
        for w, enc in ((0, "utf-16"), (1, "utf-32")):
            cmds.append([21013, w, s])
            info.append((s, w, enc))
    second, second_info = [], []
    for (s, w, enc), mv in zip(info, ctx.model.run(cmds)):
        p = s.encode(enc, "xmlcharrefreplace")
        m = "MODEL-ERR" if merr(mv) else (bytes(mv[1]) if mv and mv[0] == 1 else None)
        case = {"code_points": [ord(c) for c in s], "codec": enc, "errors": "xmlcharrefreplace", "theorem": "C08_autodetect_bom"}
        ctx.case(("cd-bom", s, enc))
        if p != m:
            ctx.disagree("str.encode(%r, 'xmlcharrefreplace') ~ Model.Codecs.wide_encode" % enc, case, list(p), m if not isinstance(m, bytes) else list(m))
            continue
        inside = len(s) > 0 and not (w == 0 and s[0] == "\x00")
        if not inside:
            ctx.count("cd_bom_outside_domain")
            continue
        ctx.count("cd_bom_in_domain")
        obs = observe_dammit(p, [], [], [], [], True)
        want_name = "utf-16le" if w == 0 else "utf-32le"
        got = {k: obs[k] for k in ("text", "orig", "flag")} if isinstance(obs, dict) else obs
        want = {"text": p.decode(enc), "orig": want_name, "flag": False}
        if got != want:
            ctx.disagree("conclusion of C08_autodetect_bom on the implementation (instance inside the theorem's domain)",
                         dict(case, data_hex=p.hex()), show(got), show(want))
        if isinstance(obs, dict) and case_supported(ctx, p, [want_name], list(obs["cands"]) + ([obs["declared"]] if obs["declared"] else [])):
            second.append(dammit_cmd(p, [], [], [], [], True))
            second_info.append((dict(case, data_hex=p.hex(), known=[], user=[], exclude=[], override=[], is_html=True, api="UnicodeDammit", concrete=True), obs))
    for (case, obs), mv in zip(second_info, ctx.model.run(second)):
        compare_dammit(ctx, case, obs, mv, name="UnicodeDammit(s.encode('utf-16'/'utf-32')) ~ Model.Codecs.c_dammit")
    ctx.count("cd_bom_instances", len(cmds))
