"""C07 — encoding detection: precedence, exact decoding, the reported attributes.

Three things run on every case:
  implementation  UnicodeDammit / EncodingDetector / the BeautifulSoup constructor (from VERIF_REPO)
  model           coq/Model/Dammit.v (extracted), its external functions instantiated from the interpreter
                  (str.lower, codecs.lookup, str(bytes, codec, errors)) and from the generator's ground truth
                  (the declared encoding; the two sniffing regexes are not modelled)
  direct oracle   an independent Python statement of the property (below: o_*), which imports no constant
                  from the implementation
"""
import codecs, glob, itertools, json, os, warnings
from bs4 import BeautifulSoup
from bs4.dammit import UnicodeDammit, EncodingDetector
from bs4.builder._htmlparser import HTMLParserTreeBuilder
from bs4.exceptions import ParserRejectedMarkup
import common
import cdcodecs as cd

RULE = ("(H) call hygiene: in every batch empty arguments are omitted (the API's default object is used), passed as None or as a "
        "fresh list by a rule depending on the case; after every call the caller-owned argument lists and the default argument "
        "values of UnicodeDammit / EncodingDetector / prepare_markup / the constructors must be unchanged; call histories: seeded "
        "sequences of 3-8 UnicodeDammit / EncodingDetector calls in one process over 9 documents, with caller-owned known / user / "
        "exclude lists reused between calls, omitted or fresh, and the deprecated override_encodings now and then - every call is "
        "judged by the history-free oracle on its own arguments; "
        "(0) find_declared_encoding on its own (implementation / scanner model / index-level oracle): every string of <=4 "
        "(thorough <=5) tokens over alphabets of the pieces the two patterns look at (<, meta, charset, =, quotes, terminators, white "
        "space, <?, encoding=, ?>, newline; upper/mixed case; for str patterns also NBSP, U+001C, U+0085, long s, dotted/dotless i; the "
        "same as UTF-8/Latin-1 bytes), 15 <meta> and 7 XML spellings x 4 names pushed across the 2048 / 1024 borders one position at a "
        "time (dense for some, 12 offsets for the rest in quick), across 5% of 41-60 KB documents, small documents with several "
        "declarations, random token soups; is_html and search_entire_document both ways, bytes and str; "
        "(1) corpus of past defects and directed families (two names resolving to one codec; every exclusion pattern of the "
        "defaults; 'ascii' in the replace pass; override_encodings); (2) exhaustive: every byte string of length <=5 (thorough <=6) over "
        "{00,41,BB,BF,EF,FE,FF} through strip_byte_order_mark; the candidate list of EncodingDetector for every "
        "known list of length <=2 x user list <=1 x {no exclusion, 5 single exclusions} over {utf-8, UTF-8, latin-1, "
        "ascii, windows-1252} x 9 documents (no/UTF-8/UTF-16LE mark x no/latin-1/utf-8 declaration); UnicodeDammit on the "
        "same grid (known <=1; thorough <=2) x 3 bodies (valid UTF-8, Latin-1 bytes, bytes undecodable everywhere); "
        "(3) seeded random documents: text drawn from each codec's repertoire, encoded in one of 31 codecs, with/without a "
        "right or wrong byte-order mark, with/without an XML declaration or <meta> (5 syntaxes) naming the right / an alias / "
        "a wrong / an unknown / a python-specific / an empty name, placed at the start, near the 1024-byte and 2048-byte "
        "window edges, on both sides of 5% of a >41 KB document, or far outside the window (there the oracle accepts either "
        "reading and only the correspondence pins the as-implemented window); known/override/user/exclude/is_html drawn "
        "from right, wrong, unknown, alias, case-variant, non-ASCII and empty names; through UnicodeDammit, EncodingDetector "
        "and (when the arguments can be expressed) the BeautifulSoup constructor with from_encoding/exclude_encodings; str "
        "input; (4) a malformed stream: random bytes, truncated multi-byte sequences, marks alone or followed by 1-3 bytes. "
        "Non-trivial = has a non-ASCII byte, a mark, a declaration or any argument. Distinct by (input, arguments).")
ASSUMPTIONS = [
    "Python's codecs (str(bytes, codec, errors), codecs.lookup) and str.lower are parameters of the model, recorded per case from the interpreter; nothing is assumed about them in the theorems",
    "find_declared_encoding is modelled (Model/Sniff.v): hand-written scanners for the two patterns, both windows, both flags, bytes and str; the declared encoding is computed by the model from the document, no longer supplied. Not modelled: the regular-expression ENGINE - the scanners' equivalence with pattern.search (which match a backtracking engine reports) is tied by exhaustive token-string sweeps, documents pushed across both window borders one position at a time and fuzzing, not proved; the pattern texts, flags and window constants are pinned by table obligations; the interpreter's meaning of \\s, '.', and of the keyword letters under re.I is oracle data generated from the interpreter",
    "smart_quotes_to is None throughout (the smart-quote step of _convert_from is C19's); chardet is absent in this environment (its answer would be a recorded input)",
    "the BeautifulSoup constructor is observed through HTMLParserTreeBuilder.prepare_markup's yielded tuple and the attributes of the finished object",
]

# ---------------------------------------------------------------------------------------------------------
# the direct oracle: the property, stated independently (no constant imported from bs4)
# ---------------------------------------------------------------------------------------------------------
O_ALIASES = {"macintosh": "mac-roman", "x-sjis": "shift-jis"}      # documented CHARSET_ALIASES


def o_strip_bom(data):
    """(data without its byte-order mark, encoding the mark implies)."""
    if data[:4] == b"\xff\xfe\x00\x00":
        return data[4:], "utf-32le"
    if data[:4] == b"\x00\x00\xfe\xff":
        return data[4:], "utf-32be"
    if data[:3] == b"\xef\xbb\xbf":
        return data[3:], "utf-8"
    if len(data) >= 4 and data[2:4] != b"\x00\x00":
        if data[:2] == b"\xfe\xff":
            return data[2:], "utf-16be"
        if data[:2] == b"\xff\xfe":
            return data[2:], "utf-16le"
    return data, None


def o_lookup(name):
    try:
        codecs.lookup(name)
        return True
    except (LookupError, ValueError):
        return False


def o_variants(name):
    return [O_ALIASES.get(name, name), name.replace("-", ""), name.replace("-", "_")]


def o_resolve(name):
    """The codec name handed to Python for a charset name: the name (or its documented alias), without dashes,
    with underscores - whichever Python knows first - else the name itself; lower-cased. None for ''."""
    if not name:
        return None
    for v in o_variants(name):
        if v and o_lookup(v):
            return v.lower()
    return name.lower()


def o_decode(data, codec, errors):
    try:
        return str(data, codec, errors)
    except Exception:
        return None


def o_candidates(known, override, bom, user, declared, exclude):
    """documented order, minus excluded, each once (case-insensitive)."""
    order = list(known) + list(override) + ([bom] if bom is not None else []) + list(user) + \
        ([declared] if declared is not None else []) + ["utf-8", "windows-1252"]
    excl = {x.lower() for x in exclude}
    seen, out = set(), []
    for e in order:
        k = e.lower()
        if k in excl or k in seen:
            continue
        seen.add(k)
        out.append(e)
    return out


def same_codec(a, b):
    if a is None or b is None:
        return a is b
    if a == b:
        return True
    try:
        return codecs.lookup(a).name == codecs.lookup(b).name
    except (LookupError, ValueError):
        return False


def o_expect(case):
    """What the property requires of (text, original_encoding, flag). Returns a dict."""
    data = case["data"]
    if isinstance(data, str):
        return {"kind": "str", "text": data}
    if data == b"":
        return {"kind": "empty", "text": ""}
    stripped, bom = o_strip_bom(data)
    cands = o_candidates(case["known"], case["override"], bom, case["user"], case["declared"], case["exclude"])
    for c in cands:
        codec = o_resolve(c)
        if codec is None:
            continue
        u = o_decode(stripped, codec, "strict")
        if u is not None:
            return {"kind": "clean", "text": u, "codec": codec, "via": c, "cands": cands, "stripped": stripped}
    repl = [c for c in cands if o_resolve(c) is not None and o_decode(stripped, o_resolve(c), "replace") is not None]
    return {"kind": "replace" if [c for c in repl if c != "ascii"] else "nothing", "cands": cands, "stripped": stripped}


def oracle_failures(case, obs, api):
    """obs: dict(text, orig, flag, declared[, tried]) observed on the implementation through `api`.
    Returns the list of (what, observed, expected, tag) by which it violates the property."""
    out = []
    if isinstance(obs, str):
        return [("unexpected exception from " + api, obs, "a result", "exception")]
    exp = o_expect(case)
    k = exp["kind"]
    got = [obs["text"], obs["orig"], obs["flag"]]
    if k == "str":
        if obs["text"] != exp["text"] or obs["orig"] is not None or obs["flag"]:
            out.append(("str input not passed through untouched with original_encoding None", got, [exp["text"], None, False],
                        "passthrough"))
    elif k == "empty":
        # the property fixes the text of an empty bytestring (every codec decodes it to ""), not a name for its encoding
        if obs["text"] != "" or obs["flag"]:
            out.append(("empty bytestring does not become the empty text", got, ["", "<any>", False], "passthrough"))
    elif k == "clean":
        if obs["text"] != exp["text"] or not same_codec(obs["orig"], exp["codec"]) or obs["flag"]:
            out.append(("not the decoding under the first candidate (documented order) that decodes without error", got,
                        [exp["text"], exp["codec"], False, "via " + exp["via"]], "precedence"))
    elif k == "replace":
        ok = obs["flag"] is True and obs["orig"] is not None and \
            any(same_codec(obs["orig"], o_resolve(c)) for c in exp["cands"]) and \
            obs["text"] is not None and obs["text"] == o_decode(exp["stripped"], obs["orig"], "replace")
        if not ok:
            out.append(("no candidate decodes cleanly: expected a replacement decoding under a candidate, flag set", got,
                        ["<decoding with U+FFFD>", "<a candidate>", True], "replacement"))
    else:
        if obs["text"] is not None or obs["orig"] is not None or obs["flag"]:
            out.append(("nothing decodes even with replacement: expected no text, no encoding, flag off", got,
                        [None, None, False], "nothing"))
    # each (codec, error mode) is tried once
    tried = obs.get("tried")
    if tried is not None and len({tuple(t) for t in tried}) != len(tried):
        out.append(("an encoding was tried twice (tried_encodings has a repeated entry)", tried, "no repetition", "tried-twice"))
    # the candidate list, as the property words it
    if obs.get("cands") is not None and isinstance(case["data"], bytes):
        _, bom = o_strip_bom(case["data"])
        exp_c = o_candidates(case["known"], case["override"], bom, case["user"], case["declared"], case["exclude"])
        if obs["cands"] != exp_c:
            out.append(("candidate encodings are not the documented order minus exclusions, each once", obs["cands"], exp_c,
                        "candidates"))
    # declared_html_encoding: what the document declares (HTML only)
    if api != "BeautifulSoup(str)":
        want = case["declared"] if case["is_html"] else None
        if obs["declared"] != want:
            out.append(("declared_html_encoding does not report what the document declares", obs["declared"], want, "declared"))
    return out


def check_oracle(ctx, case, obs, api):
    """A declaration the generator placed outside the part of the document that is searched (or in a form a
    byte-level search cannot see) may or may not count as `declared`: the oracle then accepts either reading.
    (The correspondence with the model still pins the as-implemented window.)"""
    readings = [case]
    if not case.get("decl_claim", True) and case.get("declared_alt") is not None and case["declared"] is None:
        readings.append(dict(case, declared=case["declared_alt"]))
    results = [oracle_failures(r, obs, api) for r in readings]
    if any(not r for r in results):
        return
    cj = case_json(case)
    cj["api"] = api
    for what, observed, expected, tag in results[0]:
        ctx.fail(cj, what, observed, expected, tag=tag)



# ---------------------------------------------------------------------------------------------------------
# the direct oracle for the declared encoding: an index-level statement of "the document declares e",
# independent of the implementation (no `re`, nothing imported from bs4) and of the Coq scanners
# ---------------------------------------------------------------------------------------------------------
O_QUOTES = (34, 39)
O_TERMINATORS = (32, 47, 59, 39, 34, 62)            # space / ; ' " >
O_CI_EXTRA = {105: (0x130, 0x131), 115: (0x17F,)}   # what else matches i and s in a case-insensitive str pattern
O_XML_WINDOW, O_HTML_WINDOW, O_HTML_FRACTION = 1024, 2048, 20


def o_ws(c, isstr):
    return chr(c).isspace() if isstr else c in (9, 10, 11, 12, 13, 32)


def o_ci(c, p, isstr):
    """character c is the (lower-case ASCII) pattern character p, up to case"""
    if c == p or (97 <= p <= 122 and c == p - 32):
        return True
    return isstr and c in O_CI_EXTRA.get(p, ())


def o_word_at(s, i, word, isstr):
    return i + len(word) <= len(s) and all(o_ci(s[i + j], word[j], isstr) for j in range(len(word)))


def o_xml_declaration(s, isstr):
    """s: code points. The value of the last encoding=<quote>...<quote> of an XML declaration that starts the
    text (after white space) and is closed by ?> on the same line; None when there is none."""
    n, i = len(s), 0
    while i < n and o_ws(s[i], isstr):
        i += 1
    if not (i + 1 < n and s[i] == 60 and s[i + 1] == 63):
        return None
    p = e = i + 2
    while e < n and s[e] != 10:
        e += 1
    for k in range(e, p - 1, -1):
        if k + 9 < e and o_word_at(s[:e], k, b"encoding=", isstr) and s[k + 9] in O_QUOTES:
            j = k + 10
            while j < e and s[j] not in O_QUOTES:
                j += 1
            if j < e and any(s[m] == 63 and s[m + 1] == 62 for m in range(j + 1, e - 1)):
                return s[k + 10:j]
    return None


def o_meta_declaration(s, isstr):
    """The value of the last charset= of the first <meta ...> tag that has one (see the module docstring of
    Model/Sniff.v for the corner cases: nothing terminating the value, a lone quote)."""
    n = len(s)
    for st in range(n):
        if s[st] != 60:
            continue
        i = st + 1
        while i < n and o_ws(s[i], isstr):
            i += 1
        if not o_word_at(s, i, b"meta", isstr):
            continue
        m = r = i + 4
        while r < n and s[r] != 62:
            r += 1
        for c in range(r, m, -1):
            if not o_word_at(s, c, b"charset", isstr):
                continue
            u = c + 7
            while u < n and o_ws(s[u], isstr):
                u += 1
            if not (u < n and s[u] == 61):
                continue
            q = p0 = u + 1
            while p0 < n and o_ws(s[p0], isstr):
                p0 += 1

            def value_from(p):
                j = p
                while j < n and s[j] not in O_TERMINATORS:
                    j += 1
                return s[p:j] if j < n else None
            if p0 < n and s[p0] in O_QUOTES:
                g = value_from(p0 + 1)
                return g if g is not None else s[0:0]
            g = value_from(p0)
            if g is not None:
                return g
            if any(s[x] == 32 for x in range(q, p0)):
                return s[0:0]
    return None


def o_find_declared_raw(data, is_html, entire):
    """the declared name before lower-casing (a bytes value decoded as ASCII, anything else U+FFFD)"""
    isstr = isinstance(data, str)
    s = [ord(ch) for ch in data] if isstr else list(data)
    xe = len(s) if entire else O_XML_WINDOW
    he = len(s) if entire else max(O_HTML_WINDOW, len(s) // O_HTML_FRACTION)
    g = o_xml_declaration(s[:xe], isstr)
    if g is None and is_html:
        g = o_meta_declaration(s[:he], isstr)
    if not g:
        return None
    return "".join(chr(c) if (isstr or c < 128) else "\ufffd" for c in g)


def o_find_declared(data, is_html, entire):
    raw = o_find_declared_raw(data, is_html, entire)
    return None if raw is None else raw.lower()

# ---------------------------------------------------------------------------------------------------------
# running the implementation
# ---------------------------------------------------------------------------------------------------------
MODE_ID = {"strict": 0, "replace": 1}


def arg(l, none_if_empty):
    return None if (none_if_empty and not l) else list(l)


# ---- call hygiene: how arguments reach the API, and what a call may not touch -----------------------------
def api_defaults():
    """The default argument values of the entry points. A mutable default is one object shared by every call that
    omits the argument: if a call changes it, all later calls in the process are affected."""
    fs = [UnicodeDammit.__init__, EncodingDetector.__init__, EncodingDetector.find_declared_encoding.__func__,
          EncodingDetector.strip_byte_order_mark.__func__, HTMLParserTreeBuilder.prepare_markup,
          HTMLParserTreeBuilder.__init__, BeautifulSoup.__init__]
    return repr([(f.__qualname__, f.__defaults__, f.__kwdefaults__) for f in fs])


API_DEFAULTS_SEEN = [api_defaults()]
_API_FUNCS = [UnicodeDammit.__init__, EncodingDetector.__init__, HTMLParserTreeBuilder.prepare_markup,
              HTMLParserTreeBuilder.__init__, BeautifulSoup.__init__]
_API_BASELINE = [[(d, list(d)) for d in (f.__defaults__ or ()) if isinstance(d, list)] for f in _API_FUNCS]


def restore_api_defaults():
    """put list-valued defaults back to what they were at import (so that a sequence of calls starts from a clean
    process state and its replay in a fresh process reproduces it)"""
    for pairs in _API_BASELINE:
        for obj, orig in pairs:
            obj[:] = orig
    API_DEFAULTS_SEEN[0] = api_defaults()
SIDE_EFFECTS = []          # (what, observed, expected, tag) of the call just made; drained by the caller


def call_style(case):
    """0: empty arguments are omitted (the API's own default is used); 1: passed as None; 2: passed as a fresh [].
    Depends only on the case, so a replay makes the same call."""
    if case.get("none_args"):
        return 1
    d = case["data"]
    return (len(d) + 3 * len(case["known"]) + 5 * len(case["exclude"]) + 7 * len(case["user"])) % 3


def call_args(case, params):
    """keyword arguments for this call, and the caller-owned list objects to look at afterwards"""
    st = call_style(case)
    kw, owned = {}, []
    for param, key in params:
        v = case[key]
        if v:
            lst = list(v)
            kw[param] = lst
            owned.append((param, lst, list(v)))
        elif key == "override" or st == 0:
            pass
        elif st == 1:
            kw[param] = None
        else:
            lst = []
            kw[param] = lst
            owned.append((param, lst, []))
    return kw, owned


def after_call(owned):
    for param, lst, want in owned:
        if lst != want:
            SIDE_EFFECTS.append(("the caller's %s list was modified by the call (reusing it gives a different precedence)" % param,
                                 list(lst), want, "arg-mutated"))
    snap = api_defaults()
    if snap != API_DEFAULTS_SEEN[0]:
        SIDE_EFFECTS.append(("a default argument value of the API was modified by this call: every later call that omits "
                             "the argument is affected", snap, API_DEFAULTS_SEEN[0], "default-mutated"))
        API_DEFAULTS_SEEN[0] = snap          # reported once, at the call that did it


def drain_side_effects(ctx, cj):
    while SIDE_EFFECTS:
        what, observed, expected, tag = SIDE_EFFECTS.pop(0)
        ctx.fail(cj, what, observed, expected, tag=tag)


DAMMIT_PARAMS = (("known_definite_encodings", "known"), ("exclude_encodings", "exclude"), ("user_encodings", "user"),
                 ("override_encodings", "override"))


def run_dammit(case):
    kw, owned = call_args(case, DAMMIT_PARAMS)
    try:
        d = UnicodeDammit(case["data"], is_html=case["is_html"], **kw)
        obs = {"text": d.unicode_markup, "orig": d.original_encoding, "flag": d.contains_replacement_characters,
               "declared": d.declared_html_encoding,
               "tried": [[c, MODE_ID.get(m, m)] for c, m in d.tried_encodings], "markup": d.markup,
               "sniffed": d.detector.sniffed_encoding, "cands": list(d.detector.encodings)}
    except Exception as e:
        obs = "EXC:" + type(e).__name__ + ":" + str(e)[:80]
    after_call(owned)
    return obs


def run_detector(case):
    kw, owned = call_args(case, DAMMIT_PARAMS)
    try:
        det = EncodingDetector(case["data"], is_html=case["is_html"], **kw)
        cands = list(det.encodings)
        again = list(det.encodings)
        if again != cands:
            SIDE_EFFECTS.append(("iterating detector.encodings a second time gives a different list", again, cands, "candidates"))
        obs = {"cands": cands, "sniffed": det.sniffed_encoding, "markup": det.markup, "declared": det.declared_encoding}
    except Exception as e:
        obs = "EXC:" + type(e).__name__ + ":" + str(e)[:80]
    after_call(owned)
    return obs


class RecBuilder(HTMLParserTreeBuilder):
    """Records what prepare_markup yields (the text the parser is fed and the three reported values)."""
    def prepare_markup(self, *a, **kw):
        self.recorded = []
        for t in super().prepare_markup(*a, **kw):
            self.recorded.append(t)
            yield t


def ctor_ok(case):
    return (not case["override"] and not case["user"] and len(case["known"]) <= 1 and case["is_html"])


def run_ctor(case):
    b = RecBuilder()
    b.recorded = []
    fe = case["known"][0] if case["known"] else None
    kw, owned = call_args(case, (("exclude_encodings", "exclude"),))
    if fe is not None or call_style(case) == 1:
        kw["from_encoding"] = fe
    try:
        try:
            soup = BeautifulSoup(case["data"], builder=b, **kw)
        finally:
            after_call(owned)
    except ParserRejectedMarkup:
        if not b.recorded:
            return "REJECTED"
        soup = None       # the text was produced but html.parser refused it: keep what prepare_markup yielded
    except Exception as e:
        return "EXC:" + type(e).__name__ + ":" + str(e)[:80]
    if len(b.recorded) != 1:
        return "EXC:prepare_markup yielded %d tuples" % len(b.recorded)
    t = b.recorded[0]
    obs = {"text": t[0], "orig": t[1], "declared": t[2], "flag": t[3]}
    if soup is not None:
        got = (soup.original_encoding, soup.declared_html_encoding, soup.contains_replacement_characters)
        if got != (t[1], t[2], t[3]):
            return "EXC:constructor attributes %r differ from prepare_markup's %r" % (got, t[1:])
    return obs


# ---------------------------------------------------------------------------------------------------------
# instantiating the model's parameters
# ---------------------------------------------------------------------------------------------------------
class Texts:
    """decoded texts are opaque to the model: send a one-code-point token instead."""
    def __init__(self):
        self.ids, self.texts = {}, []

    def tok(self, t):
        if t is None:
            return []
        i = self.ids.get(t)
        if i is None:
            i = self.ids[t] = len(self.texts)
            self.texts.append(t)
        return [[i]]

    def back(self, l):
        return None if l is None else self.texts[l[0]]


def case_names(case, bom):
    names = list(case["known"]) + list(case["override"]) + list(case["user"]) + list(case["exclude"])
    names += ["utf-8", "windows-1252", "ascii"]
    if bom is not None:
        names.append(bom)
    if case["declared"] is not None:
        names.append(case["declared"])
    names += [n for n in (case.get("decl_raw") or []) if n]
    out, seen = [], set()
    for n in names:
        if n not in seen:
            seen.add(n)
            out.append(n)
    return out


def model_tables(case, texts):
    data = case["data"]
    if isinstance(data, str):
        stripped, bom = data, None
        blobs = []
    else:
        stripped, bom = o_strip_bom(data)
        blobs = [stripped] + ([data] if data != stripped else [])
    names = case_names(case, bom)
    lower_keys, known_keys = [], []
    for n in names:
        vs = o_variants(n)
        for s in [n] + vs + [n.lower()] + [v.lower() for v in vs]:
            if s not in lower_keys:
                lower_keys.append(s)
        for v in vs:
            if v not in known_keys:
                known_keys.append(v)
    lower_tbl = [[s, s.lower()] for s in lower_keys if s.lower() != s]
    known_tbl = [[v, o_lookup(v)] for v in known_keys if v]
    codecs_ = []
    for s in lower_keys:
        k = s.lower()
        if k and k not in codecs_:
            codecs_.append(k)
    decode_tbl = []
    for blob in blobs:
        rows = []
        for k in codecs_:
            for mode, errors in ((0, "strict"), (1, "replace")):
                u = o_decode(blob, k, errors)
                if u is not None:
                    rows.append([k, mode, texts.tok(u)])
        decode_tbl.append([blob, rows])
    kind = 0 if isinstance(data, str) else 1
    sniff_tbl = []
    if case["declared"] is not None:
        sniff_tbl.append([kind, stripped, case["is_html"], [case["declared"]]])
    if case.get("declared_if_html") is not None and not case["is_html"]:
        sniff_tbl.append([kind, stripped, True, [case["declared_if_html"]]])
    return kind, sniff_tbl, lower_tbl, known_tbl, decode_tbl


def cmd_dammit(case, texts):
    kind, sn, lo, kw, de = model_tables(case, texts)
    return [7006, kind, case["data"], case["known"], case["override"], case["user"], case["exclude"], case["is_html"],
            sn, [], lo, kw, de]


def cmd_detector(case, texts):
    kind, sn, lo, kw, de = model_tables(case, texts)
    return [7007, kind, case["data"], case["known"], case["override"], case["user"], case["exclude"], case["is_html"],
            sn, [], lo]


def cmd_ctor(case, texts):
    kind, sn, lo, kw, de = model_tables(case, texts)
    fe = case["known"][0] if case["known"] else None
    return [7008, kind, case["data"], common.opt(fe), case["exclude"], sn, [], lo, kw, de]


def s_(l):
    return None if l is None else "".join(map(chr, l))


def dec_dammit(mv, texts, case):
    if isinstance(mv, tuple):
        return "MODEL-" + str(mv)
    text, orig, flag, decl, tried, markup, sniffed, cands = mv
    t = common.unopt(text)
    if isinstance(case["data"], str) or case["data"] == b"":
        t = s_(t)
    else:
        t = texts.back(t)
    mk = s_(markup[1]) if markup[0] == 0 else bytes(markup[1])
    return {"text": t, "orig": s_(common.unopt(orig)), "flag": bool(flag), "declared": s_(common.unopt(decl)),
            "tried": [[s_(c), m] for c, m in tried], "markup": mk, "sniffed": s_(common.unopt(sniffed)),
            "cands": [s_(c) for c in cands]}


def dec_detector(mv):
    if isinstance(mv, tuple):
        return "MODEL-" + str(mv)
    cands, sniffed, markup, decl = mv
    mk = s_(markup[1]) if markup[0] == 0 else bytes(markup[1])
    return {"cands": [s_(c) for c in cands], "sniffed": s_(common.unopt(sniffed)), "markup": mk,
            "declared": s_(common.unopt(decl))}


def dec_ctor(mv, texts, case):
    if isinstance(mv, tuple):
        return "MODEL-" + str(mv)
    if mv[0] == 0:
        return "REJECTED"
    _, text, orig, decl, flag = mv
    if isinstance(case["data"], str) or case["data"] == b"":
        t = s_(text)
    else:
        t = texts.back(text)
    return {"text": t, "orig": s_(common.unopt(orig)), "declared": s_(common.unopt(decl)), "flag": bool(flag)}


# ---------------------------------------------------------------------------------------------------------
# cases
# ---------------------------------------------------------------------------------------------------------
def mkcase(data, known=(), user=(), exclude=(), override=(), is_html=True, declared=None, decl_claim=True,
           declared_if_html=None, note=None, none_args=False, declared_alt=None, decl_raw=()):
    """declared: ground truth of the declared encoding of the BOM-stripped document under is_html;
    declared_if_html: what it would be with is_html=True when is_html is False (unused by the property);
    decl_claim: the oracle may insist on declared_html_encoding (declaration well inside the searched part)."""
    return {"data": data, "known": list(known), "user": list(user), "exclude": list(exclude), "override": list(override),
            "is_html": bool(is_html), "declared": declared, "decl_claim": decl_claim, "declared_if_html": declared_if_html,
            "note": note, "none_args": none_args, "declared_alt": declared_alt, "decl_raw": list(decl_raw)}


def case_json(case):
    d = dict(case)
    data = d.pop("data")
    if isinstance(data, str):
        d["data_str"] = data if len(data) <= 400 else None
        d["data_str_codepoints"] = [ord(c) for c in data] if len(data) > 400 else None
    else:
        d["data_hex"] = data.hex()
    return d


def case_from_json(d):
    d = dict(d)
    d.pop("api", None)
    if d.get("data_hex") is not None:
        data = bytes.fromhex(d["data_hex"])
    elif d.get("data_str") is not None:
        data = d["data_str"]
    else:
        data = "".join(map(chr, d.get("data_str_codepoints") or []))
    for k in ("data_hex", "data_str", "data_str_codepoints"):
        d.pop(k, None)
    d["data"] = data
    for k, v in (("known", []), ("user", []), ("exclude", []), ("override", []), ("is_html", True), ("declared", None),
                 ("decl_claim", True), ("declared_if_html", None), ("note", None), ("none_args", False), ("declared_alt", None), ("decl_raw", [])):
        d.setdefault(k, v)
    return d


def case_key(case):
    return (case["data"], tuple(case["known"]), tuple(case["user"]), tuple(case["exclude"]), tuple(case["override"]),
            case["is_html"])


def nontrivial(case):
    d = case["data"]
    hi = any(ord(c) > 127 for c in d) if isinstance(d, str) else (any(b > 127 for b in d) or d[:2] == b"\x00\x00")
    return bool(hi or case["declared"] or case["known"] or case["user"] or case["exclude"] or case["override"])


# ---- corpus: witnesses of the defects found (all fixed), plus files in corpus/C07 ----
META_L1 = b'<html><head><meta charset="iso-8859-1"></head><body>caf\xe9</body></html>'
CORPUS = [
    mkcase(b"\xef\xbb\xbf", note="C07-bom-only-flag: a UTF-8 mark alone set contains_replacement_characters"),
    mkcase(b"\x00\x00\xfe\xff", note="C07-bom-only-flag (UTF-32BE mark alone)"),
    mkcase(b"\xff\xfe\x00\x00", note="C07-bom-only-flag (UTF-32LE mark alone)"),
    mkcase(b"\xff\xfe", known=["utf-16"], note="C07-bom-only-flag (decodes to the empty string under a known codec)"),
    mkcase(b"\xef\xbb\xbf", known=["ascii"], note="C07-bom-only-flag (stale value in the replace pass)"),
    mkcase(b"", note="C07-empty-bytes-repr: UnicodeDammit(b'') gave the text \"b''\""),
    mkcase(b"", known=["latin-1"], note="C07-empty-bytes-repr through from_encoding"),
    mkcase(META_L1, known=["iso-8859-1"], declared="iso-8859-1",
           note="C07-declared-lazy: declared_html_encoding was None when from_encoding succeeded"),
    mkcase(META_L1, known=["windows-1252"], declared="iso-8859-1", note="C07-declared-lazy"),
    mkcase(b"\xef\xbb\xbf" + META_L1.replace(b"\xe9", b"\xc3\xa9"), declared="iso-8859-1",
           note="C07-declared-lazy: ... or when the byte-order mark's encoding succeeded"),
    mkcase(META_L1, user=["latin-1"], declared="iso-8859-1", note="C07-declared-lazy (user encoding)"),
    mkcase(META_L1.decode("latin-1"), declared="iso-8859-1", note="C07-declared-lazy (str input to UnicodeDammit)"),
]


def corpus_cases():
    out = list(CORPUS)
    for p in sorted(glob.glob(os.path.join(common.VERIF, "corpus", "C07", "*.json"))):
        try:
            d = json.load(open(p))
            out.append(case_from_json(d.get("case", d)))
        except Exception:
            pass
    return out


# ---- codecs, repertoires, names ----
POOL = ("abcdefghijklmnopqrstuvwxyzABCDEFGHIJKLMNOPQRSTUVWXYZ0123456789 .,;:!?-_()[]{}+*%$#@~^|`\\&\n\t"
        "éèüñçßøÅ£©±¿×÷ ­"
        "€“”‘’…—™ŒšžŸ"
        "ąęłńśźżőűčř"
        "αβγδωΩΑ"
        "абвгджяЯё"
        "אבגשת"
        "ابتث"
        "กขค"
        "あいアイ日本語中文字漢가나한"
        "─│█☺☃❤�\U0001f600\U0001f4a9\U00010348")
CODECS = ["utf-8", "utf-16le", "utf-16be", "utf-32le", "utf-32be", "ascii", "iso-8859-1", "iso-8859-2", "iso-8859-5",
          "iso-8859-7", "iso-8859-8", "iso-8859-15", "windows-1250", "windows-1251", "windows-1252", "windows-1255",
          "windows-1256", "koi8-r", "cp437", "mac-roman", "shift_jis", "euc-jp", "iso-2022-jp", "big5", "gb2312",
          "gbk", "gb18030", "euc-kr", "cp500", "utf-7", "tis-620"]
REP = {}
for _c in CODECS:
    REP[_c] = [ch for ch in POOL if o_decode(ch.encode(_c, "ignore"), _c, "strict") == ch and ch.encode(_c, "ignore")]
HIGH = {c: [ch for ch in REP[c] if ord(ch) > 127] for c in CODECS}
BOM_OF = {"utf-8": b"\xef\xbb\xbf", "utf-16le": b"\xff\xfe", "utf-16be": b"\xfe\xff",
          "utf-32le": b"\xff\xfe\x00\x00", "utf-32be": b"\x00\x00\xfe\xff"}
ALL_BOMS = list(BOM_OF.values())
ALIASES_OF = {
    "utf-8": ["utf8", "UTF-8", "Utf-8", "utf_8", "U8", "utf-8-sig"],
    "iso-8859-1": ["latin-1", "latin1", "ISO-8859-1", "ISO_8859-1", "l1", "iso8859-1", "Latin-1"],
    "windows-1252": ["cp1252", "cp-1252", "Windows-1252", "WINDOWS-1252", "windows_1252"],
    "mac-roman": ["macintosh", "Macintosh", "macroman", "mac_roman"],
    "shift_jis": ["x-sjis", "shift-jis", "sjis", "Shift_JIS", "X-SJIS"],
    "utf-16le": ["utf-16-le", "UTF-16LE", "utf_16_le", "utf-16"],
    "utf-16be": ["utf-16-be", "UTF-16BE"],
    "ascii": ["us-ascii", "ASCII", "646"],
    "koi8-r": ["KOI8-R", "koi8_r"],
    "euc-jp": ["eucjp", "EUC-JP", "euc_jp"],
    "big5": ["BIG5", "big5-tw", "csbig5"],
    "gb2312": ["GB2312", "euc-cn", "gb-2312"],
    "windows-1251": ["cp1251", "cp-1251", "Windows-1251"],
    "iso-8859-2": ["latin2", "iso-8859-2", "ISO_8859-2", "l2"],
}
UNKNOWN = ["bogus-8", "x-user-defined", "unicode", "utf-9", "none", "8859", "cp-9999", "Ütf-8", "İSO-8859-1",
           "ß", "utf 8 ", "-", "_"]
PYSPECIFIC = ["idna", "punycode", "unicode_escape", "raw_unicode_escape", "undefined", "rot13", "hex", "base64",
              "string-escape", "mbcs", "oem", "utf-8-sig", "utf_16", "utf-7", "quopri", "uu", "zlib"]


LONG_CODECS = ["utf-8", "iso-8859-1", "windows-1252", "koi8-r", "shift_jis", "ascii", "cp437", "gbk"]


def variants_of(rng, codec):
    c = rng.random()
    if c < 0.45:
        return codec
    al = ALIASES_OF.get(codec)
    if al and c < 0.8:
        return rng.choice(al)
    return rng.choice([codec.upper(), codec.title(), codec.replace("-", "_"), codec.replace("-", ""), codec.replace("_", "-")])


def pick_name(rng, right):
    c = rng.random()
    if c < 0.4:
        return variants_of(rng, right)
    if c < 0.7:
        return variants_of(rng, rng.choice(CODECS))
    if c < 0.82:
        return rng.choice(UNKNOWN)
    if c < 0.95:
        return rng.choice(PYSPECIFIC)
    return ""


def gen_text(rng, codec, n):
    rep, hi = REP[codec], HIGH[codec]
    out = []
    for _ in range(n):
        if hi and rng.random() < 0.3:
            out.append(rng.choice(hi))
        else:
            out.append(rng.choice(rep))
    return "".join(out)


# declaration templates: returns (text, offset just past the regex match, name as the regex captures it)
def decl_xml(rng, name):
    q = rng.choice(['"', "'"])
    extra = rng.choice(["", ' standalone="yes"', " "])
    head = rng.choice(['<?xml version="1.0" ', "<?xml version='1.1' ", "<?xml "])
    t = "%sencoding=%s%s%s%s?>" % (head, q, name, q, extra)
    return t, len(t)


def decl_meta(rng, name):
    style = rng.randrange(7)
    meta = rng.choice(["meta", "META", "Meta"])
    cs = rng.choice(["charset", "CHARSET", "charSet"])
    if style == 0:
        t, term = '<%s %s="%s">' % (meta, cs, name), '"'
    elif style == 1:
        t, term = "<%s %s='%s'>" % (meta, cs, name), "'"
    elif style == 2:
        t, term = "<%s %s=%s>" % (meta, cs, name), ">"
    elif style == 3:
        t, term = '<%s http-equiv="Content-Type" content="text/html; %s=%s">' % (meta, cs, name), '"'
    elif style == 4:
        t, term = '<%s %s = "%s" />' % (meta, cs, name), '"'
    elif style == 5:
        t, term = "<%s content='text/html;%s=%s;x=y' http-equiv=content-type>" % (meta, cs, name), ";"
    else:
        t, term = '< %s name="a" %s=%s />' % (meta, cs, name), " "
    i = t.lower().index(cs.lower()) + len(cs)
    j = t.index(name, i) + len(name) if name else None
    if name == "":
        # the match ends at the first terminator after the (optional) opening quote
        k = i
        while t[k] in " =":
            k += 1
        if t[k] in "\"'":
            k += 1
        return t, k + 1
    assert t[j] == term, (t, j, term)
    return t, j + 1


FILL = "abcdefghij klmnopqrst uvwxyz0123 456789\n"


def filler(n, comment):
    """n characters of ASCII that contain neither a tag nor the words the regexes look for."""
    if n <= 0:
        return ""
    if comment:
        if n < 7:
            return " " * n
        body = (FILL * (n // len(FILL) + 1))[: n - 7]
        return "<!--" + body + "-->"
    return (" \n\t\r" * (n // 4 + 1))[:n]


def gen_document(rng, long_ok):
    """Returns a dict: data (bytes), codec, declared ground truth for html / xml reading, decl_claim flags."""
    codec = rng.choice(CODECS)
    is_html_doc = rng.random() < 0.8
    body = gen_text(rng, codec, rng.choice([0, 1, 3, 8, 20, 60]))
    dk = rng.random()
    name = pick_name(rng, codec)
    # names must survive the regexes' own delimiters
    if any(ch in name for ch in " /;'\">\n\t") or not name.isascii():
        name = variants_of(rng, codec)
    where = rng.random()
    total_target = None
    if dk < 0.3:
        kind, decl, mend = None, "", 0
    elif dk < 0.5:
        kind = "xml"
        decl, mend = decl_xml(rng, name)
    else:
        kind = "meta"
        decl, mend = decl_meta(rng, name)
    # where the match should end (bytes from the start of the BOM-stripped document)
    pad = 0
    if kind is not None:
        if where < 0.45:
            pad = rng.choice([0, 0, 0, 1, 2, 17, 100])
        elif where < 0.6:
            pad = max(0, 1024 - mend + rng.choice([-3, -1, 0, 1, 2, 30]))       # around the XML window edge
        elif where < 0.75:
            pad = rng.randrange(1024, 1900)                                       # past 1024, inside the HTML window
        elif where < 0.9:
            pad = max(0, 2048 - mend + rng.choice([-3, -1, 0, 1, 2, 40]))       # around the HTML window edge
        elif where < 0.95 or not long_ok:
            pad = rng.randrange(4200, 6000)                                       # far outside (short document)
        else:
            if codec not in LONG_CODECS:
                codec = rng.choice(LONG_CODECS)
            total_target = rng.randrange(41500, 60000)                            # 5% rule
            edge = int(total_target * 0.05)
            pad = max(0, edge - mend + rng.choice([-40, -2, -1, 0, 1, 2, 50, 3000]))
            body = gen_text(rng, "ascii", 5)
    if kind == "xml":
        prefix = filler(pad, False)
        doc = prefix + decl + ("<html><body><p>%s</p></body></html>" if is_html_doc else "<root>%s</root>") % body
    elif kind == "meta":
        prefix = "<html><head>" if pad >= 12 and rng.random() < 0.7 else ""
        prefix = prefix + filler(pad - len(prefix), True)
        doc = prefix + decl + "</head><body><p>%s</p></body></html>" % body
    else:
        prefix = ""
        doc = rng.choice(["<html><body><p>%s</p></body></html>", "%s", "<p>%s", "<root>%s</root>"]) % body
    if total_target is not None and len(doc) + 7 < total_target:
        doc += "<p>" + (FILL * ((total_target - len(doc)) // len(FILL) + 1))[: total_target - len(doc) - 7] + "</p>"
    try:
        raw = doc.encode(codec)
    except UnicodeEncodeError:
        return None
    # byte-order mark
    bc = rng.random()
    if bc < 0.55:
        bom = b""
    elif bc < 0.85 and codec in BOM_OF:
        bom = BOM_OF[codec]
    elif bc < 0.85:
        bom = b""
    else:
        bom = rng.choice(ALL_BOMS)
    data = bom + raw
    stripped, _ = o_strip_bom(data)
    # ground truth of the declaration as the (ASCII, byte-level) search can see it in `stripped`
    truth_html = truth_xml = alt = None
    claim = True
    low = stripped.lower()
    if kind is not None:
        dbytes = decl.encode("ascii")
        pos = stripped.find(dbytes)
        words = low.count(b"charset") + low.count(b"encoding")
        if pos < 0:
            if words:
                return None              # not visible as generated, yet the words occur: ambiguous, drop
            claim = False                # declared in a way a byte-level search cannot see (UTF-16/32, EBCDIC)
        else:
            if words != 1 or stripped.count(dbytes) != 1:
                return None
            if b"<meta" in low[:pos] or b"<?" in low[:pos]:
                return None
            end = pos + mend
            window_html = max(2048, int(len(stripped) * 0.05))
            lowered = name.lower() if name else None
            if kind == "xml":
                only_ws = all(b in b" \t\n\r\x0b\x0c" for b in stripped[:pos])
                if only_ws and end <= 1024:
                    truth_html = truth_xml = lowered
                claim = only_ws and end <= 1024
            else:
                if end <= window_html:
                    truth_html = lowered
                claim = end <= window_html
            if not name:
                claim = True
            elif not claim:
                alt = lowered
    else:
        if low.count(b"charset") + low.count(b"encoding"):
            return None
    return {"data": data, "codec": codec, "truth_html": truth_html, "truth_xml": truth_xml, "claim": claim, "alt": alt,
            "has_decl": kind, "name": name, "bom": bom}


def gen_args(rng, right, declared):
    def names(pmany):
        r = rng.random()
        if r < 0.45:
            return []
        n = 1 if r < 0.45 + pmany else rng.choice([2, 2, 3])
        return [pick_name(rng, right) for _ in range(n)]
    known = names(0.4)
    user = names(0.45)
    if rng.random() < 0.06:
        pair = list(rng.choice(SAME_CODEC_PAIRS))
        rng.shuffle(pair)
        if rng.random() < 0.5:
            known = pair
        else:
            known, user = known[:1] + pair[:1], pair[1:]
    override = names(0.5) if rng.random() < 0.08 else []
    exclude = []
    r = rng.random()
    if r > 0.5:
        pool = ["utf-8", "UTF-8", "windows-1252", "Windows-1252", "ascii", right, right.upper(), "utf8", "latin-1",
                "iso-8859-1", "ÜTF-8"] + known + user + ([declared] if declared else []) + \
               ([declared.upper()] if declared else [])
        exclude = [rng.choice(pool) for _ in range(rng.choice([1, 1, 2, 3]))]
        if r > 0.95:
            exclude += ["utf-8", "windows-1252"]
    return known, user, override, exclude


def random_cases(ctx, count):
    rng = ctx.rng
    out = []
    longs = 0
    max_long = 60 if ctx.thorough else 12
    while len(out) < count:
        doc = gen_document(rng, longs < max_long)
        if doc is None:
            continue
        if len(doc["data"]) > 30000:
            longs += 1
        is_html = rng.random() < 0.75
        declared = doc["truth_html"] if is_html else doc["truth_xml"]
        known, user, override, exclude = gen_args(rng, doc["codec"], declared)
        if rng.random() < 0.4:                       # expressible through the constructor
            user, override, known, is_html = [], [], known[:1], True
            declared = doc["truth_html"]
        if len(doc["data"]) > 30000:                 # keep the tables small for the long documents
            known, user, override = known[:1], user[:1], []
        out.append(mkcase(doc["data"], known, user, exclude, override, is_html, declared, decl_claim=doc["claim"],
                          declared_if_html=doc["truth_html"], none_args=rng.random() < 0.2,
                          declared_alt=(doc["alt"] if (is_html or doc["has_decl"] == "xml") else None),
                          decl_raw=[doc["name"]],
                          note="%s%s%s" % (doc["codec"], " +BOM" if doc["bom"] else "",
                                           " decl=%s:%s" % (doc["has_decl"], doc["name"]) if doc["has_decl"] else "")))
    return out


def str_cases(ctx, count):
    rng = ctx.rng
    out = []
    while len(out) < count:
        name = variants_of(rng, rng.choice(CODECS))
        body = gen_text(rng, "utf-8", rng.choice([0, 2, 10]))
        k = rng.random()
        if k < 0.4:
            doc, truth = body, None
        elif k < 0.7:
            d, _ = decl_meta(rng, name)
            doc, truth = "<html><head>" + d + "</head><body>" + body + "</body></html>", name.lower()
        else:
            d, _ = decl_xml(rng, name)
            doc, truth = d + "<p>" + body + "</p>", name.lower()
        low = doc.lower()
        if low.count("charset") + low.count("encoding") != (0 if truth is None else 1):
            continue
        is_html = rng.random() < 0.8
        if not is_html and k >= 0.4 and k < 0.7:
            truth_now = None
        else:
            truth_now = truth
        known = [pick_name(rng, "utf-8")] if rng.random() < 0.4 else []
        out.append(mkcase(doc, known, [], [pick_name(rng, "utf-8")] if rng.random() < 0.2 else [], [], is_html,
                          truth_now, declared_if_html=truth, note="str input", decl_raw=[name]))
    return out


def malformed_cases(ctx, count):
    rng = ctx.rng
    out = []
    frag = [b"\xef\xbb\xbf", b"\xff\xfe", b"\xfe\xff", b"\x00\x00\xfe\xff", b"\xff\xfe\x00\x00", b"\x00", b"\x00\x00",
            b"\xc3", b"\xe2\x82", b"\xf0\x9f\x98", b"\x81", b"\x8d\x8f\x90\x9d", b"\x80", b"\xc3\xa9", b"a", b"<p>",
            b"\xe9", b"\x1b$B", b"+AGE-", b"\xa4\xa2", b"\xff", b"\xfe", b"\xed\xa0\x80", b"\xc0\x80", b"\n"]
    for m in ALL_BOMS:                                  # marks alone or followed by 1-3 bytes
        for tail in (b"", b"a", b"\x00", b"ab", b"\x00\x00", b"a\x00", b"\x00a", b"abc", b"\x00\x00a", b"a\x00\x00",
                     b"\x00\x00\x00", b"\x00\x00\x00\x00", b"a\x00b\x00"):
            out.append(mkcase(m + tail, note="mark + tail"))
            out.append(mkcase(m + tail, known=[rng.choice(["ascii", "utf-16", "utf-8", "latin-1", "bogus-8"])],
                              note="mark + tail, known"))
    while len(out) < count:
        k = rng.random()
        if k < 0.5:
            data = b"".join(rng.choice(frag) for _ in range(rng.randint(1, 6)))
        else:
            data = bytes(rng.choice([rng.randrange(256), rng.randrange(0x80, 0x100), 0, 0xff, 0xfe])
                         for _ in range(rng.randint(1, 14)))
        known, user, override, exclude = gen_args(rng, rng.choice(CODECS), None)
        if rng.random() < 0.3:
            known = [rng.choice(["ascii", "ASCII", "us-ascii"])] + known[:1]
        low = data.lower()
        if b"charset" in low or b"encoding" in low:
            continue
        if rng.random() < 0.4:
            user, override, known = [], [], known[:1]
        out.append(mkcase(data, known, user, exclude, override, rng.random() < 0.8, None, note="malformed"))
    return out


SAME_CODEC_PAIRS = [("cp-1252", "cp1252"), ("x-sjis", "shift-jis"), ("cp-1251", "cp1251"), ("macintosh", "mac-roman"),
                    ("cp-437", "cp437"), ("utf-8", "utf_8"), ("UTF-8", "utf-8"), ("latin-1", "latin_1")]


def directed_cases(ctx):
    """Small families aimed at the corners of the precedence logic."""
    out = []
    hard = [b"\x81\xff ab", b"\x98\x81", b"<p>\x81\x8d\x8f\x90\x9d</p>", b"caf\xe9", b"\xc3\xa9", b"\xe9\x81"]
    for a, b in SAME_CODEC_PAIRS:
        for x, y in ((a, b), (b, a)):
            for data in hard:
                for excl in ([], ["utf-8", "windows-1252"], ["UTF-8"], [y]):
                    out.append(mkcase(data, [x, y], [], excl, note="two names, one codec"))
                    out.append(mkcase(data, [x], [y], excl, note="two names, one codec"))
                    out.append(mkcase(data, [], [x], excl, [y], note="two names, one codec (override)"))
    for data in hard + [b"plain", b"\xef\xbb\xbfplain", b"\xff\xfea\x00"]:
        for known in ([], ["ascii"], ["ASCII"], ["us-ascii"], ["ascii", "utf-8"], ["bogus-8"], [""], ["", "latin-1"]):
            for excl in ([], ["utf-8"], ["windows-1252"], ["utf-8", "windows-1252"], ["UTF-8", "WINDOWS-1252", "ascii"],
                         ["utf-16le"], ["UTF-16LE", "utf-8"]):
                out.append(mkcase(data, known, [], excl, note="exclusions / ascii in the replace pass"))
                out.append(mkcase(data, [], known, excl, [], False, note="exclusions / ascii in the replace pass (xml)"))
        for ov in (["latin-1"], ["utf-8", "latin-1"], ["bogus-8"]):
            out.append(mkcase(data, ["ascii"], ["koi8-r"], [], ov, note="override_encodings follow known_definite_encodings"))
            out.append(mkcase(data, [], [], ["latin-1"], ov, note="override_encodings, excluded"))
    return out


GRID_NAMES = ["utf-8", "UTF-8", "latin-1", "ascii", "windows-1252"]
GRID_EXCL = [[], ["utf-8"], ["UTF-8"], ["latin-1"], ["Windows-1252"], ["ascii"]]


def grid_docs(body):
    docs = []
    for bom in (b"", b"\xef\xbb\xbf", b"\xff\xfe"):
        for decl in (None, "latin-1", "utf-8"):
            meta = b"" if decl is None else b'<meta charset="' + decl.encode() + b'">'
            data = bom + meta + body
            stripped, b = o_strip_bom(data)
            docs.append((data, decl))
    return docs


def grid_cases(ctx, bodies, max_known):
    out = []
    lists = [[]]
    for n in range(1, max_known + 1):
        lists += [list(t) for t in itertools.product(GRID_NAMES, repeat=n)]
    users = [[]] + [[n] for n in GRID_NAMES]
    for body in bodies:
        for data, decl in grid_docs(body):
            for kn in lists:
                for us in users:
                    for ex in GRID_EXCL:
                        out.append(mkcase(data, kn, us, ex, [], True, decl, note="grid"))
    return out


# ---------------------------------------------------------------------------------------------------------
# the run
# ---------------------------------------------------------------------------------------------------------
def o_same_obs(a, b, keys):
    if isinstance(a, str) or isinstance(b, str):
        return a == b
    return all(a[k] == b[k] for k in keys)


def show(o):
    if isinstance(o, dict):
        return {k: (v if not isinstance(v, (bytes, str)) or len(v) < 200 else repr(v[:200]) + "...") for k, v in o.items()}
    return o


def bom_sweep(ctx):
    alpha = [0x00, 0x41, 0xBB, 0xBF, 0xEF, 0xFE, 0xFF]
    L = 6 if ctx.thorough else 5
    strings = []
    for n in range(L + 1):
        strings += [bytes(t) for t in itertools.product(alpha, repeat=n)]
    impl = []
    for s in strings:
        got = EncodingDetector.strip_byte_order_mark(s)
        exp = o_strip_bom(s)
        impl.append(got)
        ctx.case(("bom", s), nontrivial=len(s) >= 2)
        if tuple(got) != exp:
            ctx.fail({"data_hex": s.hex(), "api": "strip_byte_order_mark"}, "byte-order mark not stripped / reported as documented",
                     [got[0].hex(), got[1]], [exp[0].hex(), exp[1]], tag="bom")
    ctx.count("bom_sweep", len(strings))
    if ctx.build.model_ok:
        res = ctx.model.run([[7003, s] for s in strings])
        for s, got, mv in zip(strings, impl, res):
            m = (bytes(mv[0]), s_(common.unopt(mv[1]))) if not isinstance(mv, tuple) else mv
            if tuple(got) != m:
                ctx.disagree("strip_byte_order_mark ~ Model.Dammit.strip_bom", {"data_hex": s.hex()},
                             [got[0].hex(), got[1]], [m[0].hex(), m[1]] if isinstance(m[0], bytes) else m)
    # str input is returned untouched
    got = EncodingDetector.strip_byte_order_mark("﻿abc")
    ctx.case(("bom-str",))
    if got != ("﻿abc", None):
        ctx.fail({"data_str": "﻿abc", "api": "strip_byte_order_mark"}, "str input altered", got, ("﻿abc", None), tag="bom")


def find_codec_sweep(ctx):
    names = []
    for c in CODECS:
        names += [c] + ALIASES_OF.get(c, []) + [c.upper(), c.replace("-", "_"), c.replace("-", "")]
    names += UNKNOWN + PYSPECIFIC + ["", "a\x00b", "cp-437", "iso-8859-1-", "--", "utf--8", "UTF_8", "x-SJIS", "MACINTOSH"]
    names = list(dict.fromkeys(names))
    d = UnicodeDammit(b"x")
    cmds, impl = [], []
    for n in names:
        try:
            got = d.find_codec(n)
        except Exception as e:
            got = "EXC:" + type(e).__name__
        impl.append(got)
        exp = o_resolve(n)
        ctx.case(("find_codec", n))
        if got != exp:
            ctx.fail({"name": n, "api": "find_codec"}, "charset name not resolved as documented (alias, dashes removed, underscores, itself)",
                     got, exp, tag="find_codec")
        keys = list(dict.fromkeys([n] + o_variants(n) + [n.lower()] + [v.lower() for v in o_variants(n)]))
        cmds.append([7004, n, [[s, s.lower()] for s in keys if s.lower() != s], [[v, o_lookup(v)] for v in o_variants(n) if v]])
    if ctx.build.model_ok:
        for n, got, mv in zip(names, impl, ctx.model.run(cmds)):
            m = s_(common.unopt(mv)) if not isinstance(mv, tuple) else mv
            if got != m:
                ctx.disagree("UnicodeDammit.find_codec ~ Model.Dammit.find_codec", {"name": n}, got, m)


def check_detector_oracle(ctx, case, obs):
    """EncodingDetector alone: the mark, the candidate list, the declaration."""
    cj = dict(case_json(case), api="EncodingDetector")
    if isinstance(obs, str):
        ctx.fail(cj, "unexpected exception from EncodingDetector", obs, "a result", tag="exception")
        return
    if (obs["markup"], obs["sniffed"]) != o_strip_bom(case["data"]):
        ctx.fail(cj, "byte-order mark not removed / reported", [obs["markup"][:8].hex(), obs["sniffed"]],
                 [o_strip_bom(case["data"])[0][:8].hex(), o_strip_bom(case["data"])[1]], tag="bom")
    readings = [case["declared"]]
    if not case.get("decl_claim", True) and case.get("declared_alt") is not None and case["declared"] is None:
        readings.append(case["declared_alt"])
    _, bom = o_strip_bom(case["data"])
    ok = False
    for decl in readings:
        exp_c = o_candidates(case["known"], case["override"], bom, case["user"], decl, case["exclude"])
        if obs["cands"] == exp_c and obs["declared"] == decl:
            ok = True
    if not ok:
        exp_c = o_candidates(case["known"], case["override"], bom, case["user"], case["declared"], case["exclude"])
        ctx.fail(cj, "candidate encodings are not the documented order minus exclusions, each once (or the declaration is misread)",
                 [obs["cands"], obs["declared"]], [exp_c, case["declared"]], tag="candidates")


def run_cases(ctx, cases, label, detector=True, dammit=True, ctor=True, budget_note=None):
    """implementation, model and oracle on a batch of cases."""
    texts = Texts()
    todo = []     # (api, case, impl_obs)
    cmds = []
    for case in cases:
        key = case_key(case)
        if dammit:
            obs = run_dammit(case)
            drain_side_effects(ctx, dict(case_json(case), api="UnicodeDammit"))
            ctx.case(("dammit",) + key, nontrivial=nontrivial(case))
            check_oracle(ctx, case, obs, "UnicodeDammit")
            if not isinstance(obs, str) and isinstance(case["data"], bytes) and case["data"] != b"" and \
                    isinstance(obs["markup"], bytes) and (obs["markup"], obs["sniffed"]) != o_strip_bom(case["data"]):
                ctx.fail(dict(case_json(case), api="UnicodeDammit.markup"), "byte-order mark not removed / reported",
                         [obs["markup"][:8].hex(), obs["sniffed"]],
                         [o_strip_bom(case["data"])[0][:8].hex(), o_strip_bom(case["data"])[1]], tag="bom")
            todo.append(("dammit", case, obs))
            cmds.append(cmd_dammit(case, texts))
            if ctx.build.model_ok and len(case["data"]) <= 30000 and isinstance(obs, dict) and cd.chardet_absent() and \
                    cd.case_supported(ctx, case["data"], case_names(case, obs["sniffed"]), list(obs["cands"]) +
                                      ([obs["declared"]] if obs["declared"] else [])):
                todo.append(("concrete", case, obs))
                cmds.append(cd.dammit_cmd(case["data"], case["known"], case["user"], case["exclude"], case["override"],
                                          case["is_html"]))
                ctx.count("cd_dammit_cases_from_c07_generators")
        if len(case["data"]) > 30000:
            continue                      # long documents: UnicodeDammit only (the model's tables carry the bytes)
        if detector and isinstance(case["data"], bytes):
            obs = run_detector(case)
            drain_side_effects(ctx, dict(case_json(case), api="EncodingDetector"))
            ctx.case(("detector",) + key, nontrivial=nontrivial(case))
            check_detector_oracle(ctx, case, obs)
            todo.append(("detector", case, obs))
            cmds.append(cmd_detector(case, texts))
        if ctor and ctor_ok(case):
            obs = run_ctor(case)
            drain_side_effects(ctx, dict(case_json(case), api="BeautifulSoup"))
            ctx.case(("ctor",) + key, nontrivial=nontrivial(case))
            if obs == "REJECTED":
                exp = o_expect(case)
                if exp["kind"] != "nothing":
                    ctx.fail(dict(case_json(case), api="BeautifulSoup"), "constructor rejected markup that decodes",
                             obs, exp["kind"], tag="rejected")
            else:
                cc = case
                if isinstance(case["data"], str):
                    cc = dict(case, declared=None)
                check_oracle(ctx, cc, obs, "BeautifulSoup(str)" if isinstance(case["data"], str) else "BeautifulSoup")
            todo.append(("ctor", case, obs))
            cmds.append(cmd_ctor(case, texts))
    ctx.count(label, len(cases))
    if todo:
        i = len(todo) // 2
        ctx.sample({"batch": label, "api": todo[i][0], "case": case_json(todo[i][1]), "impl": show(todo[i][2])})
    if not ctx.build.model_ok:
        return
    res = ctx.model.run(cmds, chunk=2000)
    for (api, case, obs), mv in zip(todo, res):
        if api == "concrete":
            cd.compare_dammit(ctx, dict(case_json(case), api="UnicodeDammit", concrete=True), obs, mv)
            continue
        if api == "dammit":
            m = dec_dammit(mv, texts, case)
            keys = ("text", "orig", "flag", "declared", "tried", "markup", "sniffed", "cands")
            name = "UnicodeDammit.__init__ ~ Model.Dammit.dammit"
        elif api == "detector":
            m = dec_detector(mv)
            keys = ("cands", "sniffed", "markup", "declared")
            name = "EncodingDetector ~ Model.Dammit.encodings"
        else:
            m = dec_ctor(mv, texts, case)
            keys = ("text", "orig", "declared", "flag")
            name = "BeautifulSoup(...)/prepare_markup ~ Model.Dammit.prepare_markup"
        if not o_same_obs(obs, m, keys):
            diff = [k for k in keys if isinstance(obs, dict) and isinstance(m, dict) and obs[k] != m[k]]
            ctx.disagree(name, dict(case_json(case), api=api, differs=diff), show(obs), show(m))



# ---------------------------------------------------------------------------------------------------------
# find_declared_encoding on its own: implementation / scanner model (7005) / index-level oracle
# ---------------------------------------------------------------------------------------------------------
def sniff_impl(data, h, e):
    try:
        return EncodingDetector.find_declared_encoding(data, h, e)
    except Exception as ex:
        return "EXC:" + type(ex).__name__ + ":" + str(ex)[:60]


def sniff_case_json(data, h, e, note):
    d = {"sniff": True, "is_html": h, "search_entire_document": e, "note": note, "api": "find_declared_encoding",
         "length": len(data)}
    if len(data) <= 4000:
        if isinstance(data, str):
            d["data_str_codepoints"] = [ord(c) for c in data]
        else:
            d["data_hex"] = data.hex()
    else:
        d["head_hex"] = (data[:3200].encode("utf-8", "replace") if isinstance(data, str) else data[:3200]).hex()
    return d


def sniff_batch(ctx, items, label):
    """items: (data, is_html, search_entire_document, note)"""
    cmds, got_all = [], []
    for data, h, e, note in items:
        got = sniff_impl(data, h, e)
        raw = o_find_declared_raw(data, h, e)
        exp = None if raw is None else raw.lower()
        ctx.case(("sniff", data, h, e), nontrivial=(exp is not None or got is not None))
        if got != exp:
            ctx.fail(sniff_case_json(data, h, e, note),
                     "find_declared_encoding does not report what the document declares (XML declaration at the very start "
                     "within 1024, else for HTML the first <meta ... charset=> within max(2048, 5%); case-insensitive keywords)",
                     got, exp, tag="sniff")
        lo = [[raw, raw.lower()]] if raw and raw.lower() != raw else []
        cmds.append([7005, 0 if isinstance(data, str) else 1, data, h, e, lo])
        got_all.append(got)
    ctx.count(label, len(items))
    if items:
        i = len(items) // 3
        ctx.sample({"batch": label, "case": sniff_case_json(*items[i]), "impl": got_all[i]})
    if not ctx.build.model_ok:
        return
    for (data, h, e, note), got, mv in zip(items, got_all, ctx.model.run(cmds, chunk=4000)):
        m = ("MODEL-" + str(mv)) if isinstance(mv, tuple) else s_(common.unopt(mv))
        if got != m:
            ctx.disagree("EncodingDetector.find_declared_encoding ~ Model.Sniff.find_declared_encoding",
                         sniff_case_json(data, h, e, note), got, m)


ALL_FLAGS = [(True, False), (False, False), (True, True), (False, True)]


def token_strings(toks, L):
    for l in range(L + 1):
        for combo in itertools.product(toks, repeat=l):
            yield "".join(combo)


def sniff_token_sweeps(ctx):
    """every string of <= L tokens over small alphabets built from the pieces the two patterns look at"""
    L = 5 if ctx.thorough else 4
    html_a = ["<", "meta", " ", "charset", "=", '"', "x", ">", ";", "\t"]
    html_b = ["<meta ", "<META\t", "ChArSeT", "charset=", "'", "Y", ">", "/", " ", "\n", "="]
    xml_a = [" ", "<?", "encoding=", '"', "'", "X", "?>", "\n", "ENCODING='"]
    items = []
    for t in token_strings(html_a, L):
        items.append((t.encode(), True, False, "html tokens"))
    for t in token_strings(html_b, L if ctx.thorough else L - 1):
        items.append((t.encode(), True, False, "html tokens"))
        if len(t) % 3 == 0:
            items.append((t.encode(), True, True, "html tokens"))
            items.append((t.encode(), False, False, "html tokens"))
    for t in token_strings(xml_a, L):
        items.append((t.encode(), False, False, "xml tokens"))
        if len(t) % 2 == 0:
            items.append((t.encode(), True, True, "xml tokens"))
    # str patterns: the characters that only a str pattern treats as white space / as letters
    html_s = ["<", "meta", " ", "\xa0", "\x1c", "charſet", "CHARSET", "=", '"', "\xe9", ">", "İ"]
    xml_s = [" ", "\xa0", "<?", "encodıng=", "ENCODİNG=", "encoding=", '"', "\xfc", "?>", "\n", "\x85"]
    Ls = 4 if ctx.thorough else 3
    for t in token_strings(html_s, Ls):
        items.append((t, True, False, "html tokens (str)"))
    for t in token_strings(xml_s, Ls):
        items.append((t, len(t) % 2 == 0, False, "xml tokens (str)"))
    # the same specials as UTF-8 / Latin-1 *bytes* must not be treated that way
    for t in token_strings(["<meta ", "charſet", "charset", "=", "x", ">", "\xa0"], 4):
        items.append((t.encode("utf-8"), True, False, "html tokens (non-ASCII bytes)"))
        items.append((t.replace("ſ", "s").encode("latin-1"), True, False, "html tokens (non-ASCII bytes)"))
    sniff_batch(ctx, items, "sniff_token_sweeps")


META_TEMPLATES = ['<meta charset="%s">', "<meta charset='%s'>", "<meta charset=%s>", '<META CHARSET="%s">',
                  '<MeTa ChArSeT = "%s" />', '<meta http-equiv="Content-Type" content="text/html; charset=%s">',
                  "<meta\tcharset\n=\r\n'%s' >", '< meta name=x charset=%s;y>', '<meta charset="%s', "<meta charset=%s",
                  '<meta name="a"><meta charset=%s>', '<meta charset=a charset="%s">', "<meta charset= %s >",
                  '<metadata x="1" charset=%s>', "<meta charset=\"%s'>"]
XML_TEMPLATES = ['<?xml version="1.0" encoding="%s"?>', "<?XML ENCODING='%s' ?>", '<?xml encoding="%s\'?>',
                 '<?xml encoding=%s?>', '<?xml encoding="%s"?><?pi encoding="other"?>', '<?xml encoding="%s" ?',
                 '<?xml\tversion="1.0"\tEnCoDiNg="%s"\tstandalone="yes"?>']
SNIFF_TAIL = "</head><body>text</body></html>"


def sniff_documents(ctx):
    """declarations pushed across both window borders one position at a time, in many spellings"""
    rng = ctx.rng
    items = []
    full = ctx.thorough
    names = ["Big5", "ISO-8859-1", "x", ""]

    def offsets(edge, decl, dense):
        lo, hi = max(0, edge - len(decl) - 3), edge + 3
        if dense:
            return list(range(lo, hi + 1))
        return sorted({max(0, edge - len(decl) + d) for d in range(-3, 4)} | {lo, hi} |
                      {rng.randrange(lo, hi + 1) for _ in range(3)})
    for ti, tpl in enumerate(META_TEMPLATES):
        for ni, name in enumerate(names if (full or ti % 3 == 0) else names[:2]):
            decl = tpl % name
            for pad in offsets(2048, decl, full or (ti < 3 and ni == 0)):
                if pad >= 23:
                    pre = "<html><head><!--" + (FILL * 60)[:pad - 19] + "-->"
                else:
                    pre = " " * pad
                doc = pre + decl + SNIFF_TAIL
                assert len(pre) == pad
                flags = ALL_FLAGS if (full or pad % 5 == 0) else [(True, False)]
                for h, e in flags:
                    items.append((doc.encode("ascii"), h, e, "meta across the 2048 border"))
                if pad % 4 == 0:
                    items.append((doc, True, False, "meta across the 2048 border (str)"))
    for ti, tpl in enumerate(XML_TEMPLATES):
        for ni, name in enumerate(names if full else names[:2]):
            decl = tpl % name
            for pad in offsets(1024, decl, full or (ti < 2 and ni == 0)):
                doc = (" \n\t\r" * 300)[:pad] + decl + '<html><meta charset="late"></html>'
                flags = ALL_FLAGS if (full or pad % 5 == 0) else [(False, False), (True, False)]
                for h, e in flags:
                    items.append((doc.encode("ascii"), h, e, "XML declaration across the 1024 border"))
                if pad % 4 == 0:
                    items.append((doc, True, False, "XML declaration across the 1024 border (str)"))
    # small documents with several declarations / distractions
    small = ['<?xml encoding="a"?><meta charset=b>', '\n<?xml encoding="a"?>', 'x<?xml encoding="a"?><meta charset=b>',
             '<?xml encoding="a"\n?><meta charset=b>', '<meta name=a><meta charset=b><meta charset=c>',
             '<meta charset=b charset=c>', '<meta charset=b><?xml encoding="a"?>', '<meta>charset=b>', '<meta charset>=b>',
             '<meta charset=>', '<meta charset="', "<meta charset='>", '<meta charset= ', '<meta charset=\t', '<metacharset=b>',
             '<meta xcharset=b>', '<meta\ncharset=b/>', '<META HTTP-EQUIV=content-type CONTENT="text/html;CHARSET=B;x">',
             '<?xml encoding="a" encoding=\'b\'?>', '<?xml encoding="a"?> ?>', '<?xml encoding="a?>', "<?xml encoding=\"a'?>x'?>",
             '<?xml version="1.0"?><meta charset=b>', '<!-- <meta charset=a> --><meta charset=b>', '<meta charset=\xe9\xe8>',
             '<  meta charset=b>', '<\n\t meta charset=b>', '<meta  charset=b>', '<meta charset\t\t=\n\nb>', '<?xml  encoding="a"  ?>',
             '<?xml encoding="\xe9"?>', ' \x0b\x0c<?xml encoding="a"?>', '\x1c<?xml encoding="a"?>', '\xa0<?xml encoding="a"?>']
    for d in small:
        for h, e in ALL_FLAGS:
            items.append((d.encode("latin-1"), h, e, "small document"))
            items.append((d, h, e, "small document (str)"))
    # the 5% rule, one position at a time
    for Ln in ([41000, 50020, 59999] if full else [41000, 59999]):
        edge = Ln // 20
        decl = "<meta charset=Big5>"
        for d in (range(-4, 5) if full else (-2, -1, 0, 1, 2)):
            pad = edge - len(decl) + d
            doc = "a" * pad + decl
            doc = doc + "b" * (Ln - len(doc))
            items.append((doc.encode("ascii"), True, False, "meta across the 5% border"))
            if d == 1 or full:
                items.append((doc.encode("ascii"), True, True, "meta across the 5% border"))
                items.append((doc, True, False, "meta across the 5% border (str)"))
    sniff_batch(ctx, items, "sniff_documents")


def sniff_fuzz(ctx):
    rng = ctx.rng
    toks = ["<", "<meta", "<META ", "meta", " ", "\t", "\n", "charset", "Charset", "charset=", "=", '"', "'", "x", "utf-8", ">",
            "/", ";", "<?", "<?xml ", "encoding=", "ENCODING=", "?>", "?", "\xe9", "ſ", "İ", "ı", "\xa0", "\x1c",
            "a", "-"]
    items = []
    for _ in range(30000 if ctx.thorough else 2500):
        t = "".join(rng.choice(toks) for _ in range(rng.randint(3, 14)))
        h, e = rng.choice(ALL_FLAGS)
        if rng.random() < 0.5:
            items.append((t, h, e, "fuzz (str)"))
        else:
            items.append((t.encode("utf-8") if rng.random() < 0.7 else t.encode("latin-1", "replace"), h, e, "fuzz"))
    sniff_batch(ctx, items, "sniff_fuzz")



# ---------------------------------------------------------------------------------------------------------
# call histories: the answer of a call depends on that call's own arguments only
# ---------------------------------------------------------------------------------------------------------
HIST_DOCS = ["<p>Sacré bleu ☃ Räksmörgås</p>".encode("utf-8"), "<p>café “quoted”</p>".encode("windows-1252"),
             b"<p>\xed\xe5\xec\xf9</p>", b"<p>plain</p>", b"\xef\xbb\xbf<p>caf\xc3\xa9</p>",
             b'<html><head><meta charset="iso-8859-1"></head><body>caf\xe9</body></html>',
             b'<?xml version="1.0" encoding="koi8-r"?><p>\xd0\xd2\xc9\xd7\xc5\xd4</p>', b"\xff\xfea\x00b\x00", b"<p>\x81\x8d</p>"]
HIST_ENCS = ["iso-8859-1", "iso-8859-8", "ascii", "utf-8", "koi8-r", "windows-1252", "bogus-8", "utf-16le", "ISO-8859-5", "cp437"]
HIST_PARAMS = (("known_definite_encodings", "known"), ("user_encodings", "user"), ("exclude_encodings", "exclude"))


def history_step(step, shared):
    """Make the call described by `step` (json-able). Lists marked `shared` are the sequence's caller-owned list
    objects, reused from call to call. Returns (case for the history-free oracle, observation)."""
    data = bytes.fromhex(step["data_hex"])
    kw, intended = {}, {}
    for param, key in HIST_PARAMS:
        mode, vals = step[key]
        intended[key] = list(vals)
        if mode == "none":
            kw[param] = None
        elif mode == "shared":
            kw[param] = shared[key]
        elif mode == "fresh":
            kw[param] = list(vals)
    if step["override"]:
        kw["override_encodings"] = list(step["override"])
    stripped, _ = o_strip_bom(data)
    case = mkcase(data, intended["known"], intended["user"], intended["exclude"], step["override"], step["is_html"],
                  o_find_declared(stripped, step["is_html"], False))
    try:
        if step["api"] == "UnicodeDammit":
            d = UnicodeDammit(data, is_html=step["is_html"], **kw)
            obs = {"text": d.unicode_markup, "orig": d.original_encoding, "flag": d.contains_replacement_characters,
                   "declared": d.declared_html_encoding, "tried": [[c, MODE_ID.get(m, m)] for c, m in d.tried_encodings],
                   "cands": list(d.detector.encodings)}
        else:
            det = EncodingDetector(data, is_html=step["is_html"], **kw)
            obs = {"cands": list(det.encodings), "sniffed": det.sniffed_encoding, "markup": det.markup,
                   "declared": det.declared_encoding}
    except Exception as e:
        obs = "EXC:" + type(e).__name__ + ":" + str(e)[:80]
    return case, obs


def history_check(ctx, step, shared, shared_orig, hist):
    case, obs = history_step(step, shared)
    case["history"] = {"shared_lists": shared_orig, "earlier_calls": list(hist), "this_call": step}
    case["note"] = "call %d of a sequence in one process" % (len(hist) + 1)
    ctx.case(("history", json.dumps(step, sort_keys=True), len(hist)), nontrivial=True)
    if step["api"] == "UnicodeDammit":
        check_oracle(ctx, case, obs, "UnicodeDammit")
    else:
        check_detector_oracle(ctx, case, obs)
    for key in shared:
        if shared[key] != shared_orig[key]:
            ctx.fail(dict(case_json(case), api=step["api"]),
                     "the caller's %s list was modified by the call (the caller reuses it for the next call)" % key,
                     list(shared[key]), shared_orig[key], tag="arg-mutated")
            shared[key][:] = shared_orig[key]
    after_call([])
    drain_side_effects(ctx, dict(case_json(case), api=step["api"]))
    return obs


def history_batch(ctx):
    rng = ctx.rng
    n = 0
    for _ in range(1500 if ctx.thorough else 150):
        shared_orig = {"known": [rng.choice(HIST_ENCS) for _ in range(rng.choice([0, 1, 1, 2]))],
                       "user": [rng.choice(HIST_ENCS) for _ in range(rng.choice([0, 1, 1]))],
                       "exclude": [rng.choice(["utf-8", "windows-1252", "iso-8859-1", "UTF-8", "ascii"])
                                   for _ in range(rng.choice([0, 0, 1]))]}
        shared = {k: list(v) for k, v in shared_orig.items()}
        hist = []
        restore_api_defaults()
        for _ in range(rng.randint(3, 8)):
            step = {"api": rng.choice(["UnicodeDammit", "UnicodeDammit", "EncodingDetector"]),
                    "data_hex": rng.choice(HIST_DOCS).hex(), "is_html": rng.random() < 0.7,
                    "override": [rng.choice(HIST_ENCS)] if rng.random() < 0.3 else []}
            for _, key in HIST_PARAMS:
                mode = rng.choice(["omit", "omit", "none", "shared", "shared", "fresh"])
                vals = shared_orig[key] if mode == "shared" else \
                    ([rng.choice(HIST_ENCS)] if (mode == "fresh" and rng.random() < 0.7) else [])
                step[key] = [mode, list(vals)]
            history_check(ctx, step, shared, shared_orig, hist)
            hist.append(step)
            n += 1
    ctx.count("history_calls", n)
    ctx.sample({"batch": "history", "shared_lists": shared_orig, "calls": hist[:3]})

def run(ctx):
    with warnings.catch_warnings():
        warnings.simplefilter("ignore")
        run_cases(ctx, corpus_cases(), "corpus")
        run_cases(ctx, directed_cases(ctx), "directed")
        history_batch(ctx)
        sniff_token_sweeps(ctx)
        sniff_documents(ctx)
        sniff_fuzz(ctx)
        bom_sweep(ctx)
        find_codec_sweep(ctx)
        utf8 = "<p>café €</p>".encode("utf-8")
        l1 = "<p>café</p>".encode("latin-1")
        bad = b"<p>\x81\x8d</p>"
        # exhaustive grids
        run_cases(ctx, grid_cases(ctx, [utf8], 2), "grid_detector", detector=True, dammit=False, ctor=False)
        run_cases(ctx, grid_cases(ctx, [utf8, l1, bad], 2 if ctx.thorough else 1), "grid_dammit", detector=False,
                  dammit=True, ctor=True)
        # random
        n = 40000 if ctx.thorough else 2200
        run_cases(ctx, random_cases(ctx, n), "random_documents")
        run_cases(ctx, str_cases(ctx, 3000 if ctx.thorough else 300), "str_input", detector=False)
        run_cases(ctx, malformed_cases(ctx, 12000 if ctx.thorough else 1200), "malformed")
        # concrete codecs (Model/Codecs.v): nothing recorded per case
        cd.sweeps(ctx, encode=False)
        cd.dammit_cases(ctx)
        cd.shape_cases(ctx)
    ctx.extra_cov["concrete_codecs"] = ("ascii, iso-8859-1, windows-1252, utf-8, utf-16-le/be, utf-32-le/be decoders defined in "
                                        "Coq and compared with bytes.decode (strict / replace) on all 256 single bytes, on "
                                        "adversarial and random byte strings, and end to end through UnicodeDammit / "
                                        "BeautifulSoup with no recorded codec result (counts: cd_*)")
    ctx.extra_cov["exhaustive"] = True
    ctx.extra_cov["exhaustive_scope"] = ("strip_byte_order_mark on all byte strings <=%d over 7 bytes; candidate grid "
                                         "(known<=2 x user<=1 x 6 exclusions x 9 documents); UnicodeDammit/constructor grid x 3 bodies"
                                         % (6 if ctx.thorough else 5))
    ctx.extra_cov["codecs"] = len(CODECS)


def replay(ctx, data):
    f = (data.get("failure") or {})
    cj = f.get("case") or ((data.get("disagreements") or [{}])[0].get("case")) or {}
    if cd.replay(cj):
        return 1
    if cj.get("history"):
        h = cj["history"]
        shared = {k: list(v) for k, v in h["shared_lists"].items()}
        with warnings.catch_warnings():
            warnings.simplefilter("ignore")
            print("caller-owned lists reused between the calls:", h["shared_lists"])
            for i, step in enumerate(h["earlier_calls"] + [h["this_call"]]):
                case, obs = history_step(step, shared)
                e = o_expect(case)
                e.pop("stripped", None)
                print("call %d: %s(%r, known=%r user=%r exclude=%r override=%r is_html=%r)" % (
                    i + 1, step["api"], bytes.fromhex(step["data_hex"])[:40], step["known"], step["user"], step["exclude"],
                    step["override"], step["is_html"]))
                print("   ->", show(obs))
                print("   its own arguments require:", show(e))
                print("   shared lists afterwards:", shared, "| API defaults unchanged:", api_defaults() == API_DEFAULTS_SEEN[0])
        return 1
    if cj.get("sniff"):
        if cj.get("data_hex") is not None:
            data = bytes.fromhex(cj["data_hex"])
        elif cj.get("data_str_codepoints") is not None:
            data = "".join(map(chr, cj["data_str_codepoints"]))
        else:
            print("document too long to be stored; first bytes:", bytes.fromhex(cj.get("head_hex", ""))[:200])
            return 1
        h, e = cj["is_html"], cj["search_entire_document"]
        print("find_declared_encoding(%r, is_html=%r, search_entire_document=%r) = %r ; the document declares %r"
              % (data if len(data) < 300 else data[:300], h, e, sniff_impl(data, h, e), o_find_declared(data, h, e)))
        return 1
    if "name" in cj:
        print("find_codec(%r) = %r ; documented resolution %r" % (cj["name"], UnicodeDammit(b"x").find_codec(cj["name"]), o_resolve(cj["name"])))
        return 1
    if "data_hex" in cj and set(cj) <= {"data_hex", "api"}:
        s = bytes.fromhex(cj["data_hex"])
        print("strip_byte_order_mark(%r) = %r ; documented %r" % (s, EncodingDetector.strip_byte_order_mark(s), o_strip_bom(s)))
        return 1
    if not cj:
        print("nothing to replay in", data.get("kind"), data.get("no_longer_checks"))
        return 1
    case = case_from_json(cj)
    with warnings.catch_warnings():
        warnings.simplefilter("ignore")
        print("case:", {k: v for k, v in case_json(case).items()})
        print("UnicodeDammit:", show(run_dammit(case)))
        print("side effects of that call:", SIDE_EFFECTS or "none")
        del SIDE_EFFECTS[:]
        if isinstance(case["data"], bytes):
            print("EncodingDetector:", show(run_detector(case)))
        if ctor_ok(case):
            print("BeautifulSoup:", show(run_ctor(case)))
        e = o_expect(case)
        e.pop("stripped", None)
        print("property requires:", show(e), "declared:", case["declared"] if case["is_html"] else None)
    return 1
