"""C08 — output in any target encoding is valid, lossless and self-describing.

Correspondence with coq/Model/Encode.v (commands 8001..8010) and a direct oracle on the implementation:
bytes from encode()/prettify(enc)/encode_contents() -> bytes.decode(enc) -> re-parse -> texts, attribute values,
<meta> declarations, original_encoding.
"""
import codecs, copy, html, itertools, re, warnings
import cdcodecs as cd
from bs4 import BeautifulSoup
from bs4.builder import HTMLParserTreeBuilder
from bs4.element import (Tag, NavigableString, Comment, CData, Doctype, Declaration, ProcessingInstruction,
                         CharsetMetaAttributeValue, ContentMetaAttributeValue)

RULE = ("(a) the two substitute_encoding methods: every string of <=4 (quick) / <=5 (thorough, sampled) tokens over a "
        "17-token alphabet of the charset-parameter syntax (';', blanks, newline, charset in three cases incl. U+017F, "
        "'=', values) x {real name, name with leading blank, python-specific name}, plus random longer ones; "
        "(b) set_up_substitutions: tag name x presence/absence/kind of charset, content, http-equiv (case variants, list "
        "value); (c) str.encode: every Unicode scalar value in blocks through every codec of the set (validity of the "
        "bytes), and sampled code points singly through the model of xmlcharrefreplace; (d) seeded random documents "
        "(built through the builder's new_tag, parsed from written markup, copies, plain tags) with texts / attribute "
        "values drawn from 14 pools covering the whole Unicode range (ASCII markup characters, Latin-1, C1 controls, "
        "European, RTL, CJK, kana, hangul, symbols, private use, specials and noncharacters, astral), both <meta> styles "
        "in 12 spellings, x 34 codecs (single-byte, multi-byte, stateful, UTF-16/32 with and without BOM) in several "
        "name spellings x {html.parser builder, an XML-flavoured subclass of it (is_xml = True: XML formatter registry, XML declaration from the BeautifulSoup object)} x encode / prettify(enc) / encode_contents / decode / decode_contents / prettify() x indent "
        "levels x {minimal, None} formatter x {default, strict} errors. Non-trivial = the document has a character the "
        "codec cannot represent or a <meta> declaration; distinct by (document, codec, entry point, arguments). "
        "Lone surrogates are outside the generator (not Unicode scalar values).")
ASSUMPTIONS = [
    "Python's codecs (encode per code point, BOM, decode) are parameters of the model; the harness instantiates them "
    "per case from the interpreter; the hypotheses of the theorems (ASCII is encodable; decode inverts strict encode) "
    "are measured per codec and per case, not proved",
    "stateful codecs (iso-2022-jp, hz, utf-7) are compared at the level of the decoded text (xcr_text), not bytes",
    "html.parser tokenizer and html.unescape when the output is read back (Base/Reader.v with tables from the "
    "interpreter: html._invalid_charrefs, html._invalid_codepoints, windows-1252)",
    "str.lower() coincides with ASCII lower-casing on strings equal to 'content-type' after lowering (checked over every "
    "code point by the harness); str.strip()/\\s = Gen/Stdlib.v py_whitespace",
    "the re-parse's auto-detection of the whole document (EncodingDetector + the two sniffing regexes) is exercised by "
    "the oracle only",
    "is_empty_element/can_be_empty_element and the string classes of a built tree are read from the implementation",
]

# ----------------------------------------------------------------------------------------- codecs
SINGLE = ["ascii", "latin-1", "iso-8859-2", "iso-8859-5", "iso-8859-7", "iso-8859-15", "cp1250", "cp1251",
          "cp1252", "cp437", "cp850", "koi8-r", "mac-roman", "cp037"]
MULTI = ["utf-8", "shift_jis", "euc_jp", "cp932", "gb2312", "gbk", "gb18030", "big5", "euc_kr"]
STATEFUL = ["iso-2022-jp", "hz", "utf-7"]
WIDE = ["utf-16", "utf-16-le", "utf-16-be", "utf-32", "utf-32-le", "utf-32-be", "utf-8-sig"]
ALL_CODECS = SINGLE + MULTI + STATEFUL + WIDE
SPELLINGS = {"ascii": ["ascii", "us-ascii", "ASCII"], "latin-1": ["latin-1", "iso-8859-1", "latin1", "ISO-8859-1"],
             "utf-8": ["utf-8", "utf8", "UTF-8"], "shift_jis": ["shift_jis", "shift-jis", "sjis"],
             "euc_jp": ["euc_jp", "euc-jp"], "cp1252": ["cp1252", "windows-1252"], "cp1251": ["cp1251", "windows-1251"],
             "koi8-r": ["koi8-r", "KOI8-R"], "big5": ["big5", "Big5"], "euc_kr": ["euc_kr", "euc-kr"],
             "utf-16": ["utf-16", "UTF-16", "utf16"], "utf-32": ["utf-32", "utf_32"], "gb2312": ["gb2312", "GB2312"],
             "iso-8859-5": ["iso-8859-5", "iso8859_5", "ISO-8859-5"]}
PYSPECIFIC_USED = ["idna", "punycode", "unicode_escape", "raw_unicode_escape", "undefined", "palmos", "mbcs", "oem"]
BOM_EQUIV = {"utf-16": {"utf-16le", "utf-16be", "utf-16-le", "utf-16-be"}, "utf-32": {"utf-32le", "utf-32be"},
             "utf-8-sig": {"utf-8"}}

_cinfo = {}


def cinfo(enc):
    """measured facts about a codec"""
    if enc in _cinfo:
        return _cinfo[enc]
    bom = "".encode(enc)
    ascii_compat = True
    ascii_encodable = True
    for c in range(128):
        try:
            b = chr(c).encode(enc)[len(bom):]
        except UnicodeEncodeError:
            ascii_encodable = False
            ascii_compat = False
            continue
        if b != bytes([c]):
            ascii_compat = False
    base = codecs.lookup(enc).name
    _cinfo[enc] = {"bom": bom, "ascii_compat": ascii_compat and not bom, "ascii_encodable": ascii_encodable,
                   "stateful": base in ("iso2022_jp", "hz", "utf-7"), "name": base}
    return _cinfo[enc]


def enc1(c, enc, bom):
    try:
        return c.encode(enc)[len(bom):]
    except UnicodeEncodeError:
        return None


def codec_table(enc, chars):
    """per-code-point strict encoding of `chars` + ASCII, for the model"""
    info = cinfo(enc)
    bom = info["bom"]
    tbl = []
    seen = set()
    for c in list(chars) + [chr(i) for i in range(128)]:
        if c in seen:
            continue
        seen.add(c)
        b = enc1(c, enc, bom)
        if b is not None:
            tbl.append([ord(c), b])
    return tbl, bom


# ----------------------------------------------------------------------------------------- (a) substitution
TOKENS = [";", " ", "\n", "charset", "=", "x", "c", "CHARſet", "Charset=", "\t", "harset", "\x0b", "charset =", "y;",
          "K", "text/html", "　"]


def oracle_params(v):
    """independent reading of a content="" value: the charset parameters (a MIME-style parameter parser:
    fields separated by ';', name = value around the first '=', names case-insensitive, blanks trimmed)"""
    out = []
    for fld in v.split(";"):
        if "=" in fld:
            k, _, val = fld.partition("=")
            if k.strip().lower() == "charset":
                out.append(val.strip())
    return out


def subst_cases(ctx):
    rng = ctx.rng
    L = 4
    strings = []
    for n in range(L + 1):
        for combo in itertools.product(TOKENS, repeat=n):
            strings.append("".join(combo))
    if ctx.thorough:
        for combo in itertools.product(TOKENS, repeat=5):
            if rng.random() < 0.15:
                strings.append("".join(combo))
    else:
        strings = strings[:6000] + rng.sample(strings, 14000)
    for _ in range(20000 if ctx.thorough else 3000):
        strings.append("".join(rng.choice(TOKENS) for _ in range(rng.randint(5, 10))))
    realistic = ["text/html; charset=x-sjis", "text/html;charset=utf8", "charset=koi8-r", "text/html; CHARSET=koi8-r",
                 "text/html; charset = koi8-r", "text/html", "", "text/html; charset=", "a=b; charset=\"utf-8\"; c=d",
                 "text/html;\ncharset=x", "text/html\ncharset=x;q=1", "text/html; charset=x; charset=y"]
    strings = realistic + strings
    encs = ["koi8-r", " E", "idna"]
    # codec aliases that are all digits (Python accepts "866", "1251", "8859", "437" ...): the encoding name must be
    # written into the value literally, whatever characters it is made of
    digit_encs = ["866", "1251", "8859", "437"]
    cmds, cases = [], []
    for vi, v in enumerate(strings):
        for e in (encs + digit_encs if vi < 600 else encs):
            try:
                got = ContentMetaAttributeValue(v).substitute_encoding(e)
            except Exception as ex:          # noqa: BLE001
                got = "EXC:" + type(ex).__name__
            cmds.append([8002, 1, e, v])
            cases.append(({"style": "content", "original": v, "eventual": e}, got))
            ctx.case(("subst", v, e), nontrivial=("harset" in v.lower() or "ſ" in v))
            # direct oracle: every well-formed charset parameter of the original names the encoding afterwards;
            # nothing else changes
            if isinstance(got, str) and not got.startswith("EXC:") and "ſ" not in v:
                before = oracle_params(v)
                after = oracle_params(got)
                if e == "idna":
                    if after:
                        ctx.fail(cases[-1][0], "python-specific target encoding still named in the content value",
                                 got, "no charset parameter", tag="meta-specific")
                else:
                    # parameters at a field start (after ';' or at a line start) are the declared ones
                    if any(a != e.strip() for a in after) or len(after) != len(before):
                        # a 'charset' parameter the MIME reading sees but which is not at a field/line start is the
                        # documented known class (undelimited); anything else is a violation
                        ctx.fail(cases[-1][0], "charset parameter of the content value not rewritten to the encoding",
                                 got, "every charset parameter = %r" % e.strip(), tag="meta-content-subst")
    ctx.sample({"substitute_encoding_case": cases[40][0], "impl": cases[40][1]})
    for e in ["utf-8", "koi8-r", ""] + PYSPECIFIC_USED + ["UTF-8", "Idna", "string-escape"]:
        got = CharsetMetaAttributeValue("orig").substitute_encoding(e)
        cmds.append([8002, 0, e, "orig"])
        cases.append(({"style": "charset", "original": "orig", "eventual": e}, got))
        ctx.case(("subst0", e))
        if e not in PYSPECIFIC_USED and e != "string-escape" and got != e:
            ctx.fail(cases[-1][0], "charset attribute does not name the target encoding", got, e, tag="meta-charset-subst")
        if e in PYSPECIFIC_USED and got != "":
            ctx.fail(cases[-1][0], "python-specific encoding named in charset", got, "", tag="meta-specific")
    if ctx.build.model_ok:
        res = ctx.model.run(cmds)
        for (case, got), mv in zip(cases, res):
            mt = "".join(map(chr, mv)) if isinstance(mv, list) else mv
            if mt != got:
                ctx.disagree("substitute_encoding ~ Model.Encode.content_subst/charset_subst", case, got, mt)


# ----------------------------------------------------------------------------------------- (b) set_up_substitutions
def aval_enc(v):
    if v is None:
        return [4]
    if isinstance(v, CharsetMetaAttributeValue):
        return [2, str(v)]
    if isinstance(v, ContentMetaAttributeValue):
        return [3, str(v)]
    if isinstance(v, str):
        return [0, str(v)]
    if isinstance(v, (list, tuple)):
        return [1, [str(x) for x in v]]
    raise TypeError(v)


def aval_dec(m):
    t = m[0]
    if t == 4:
        return ("none",)
    if t == 1:
        return ("list", tuple("".join(map(chr, x)) for x in m[1]))
    return ({0: "str", 2: "charset", 3: "content"}[t], "".join(map(chr, m[1])))


def aval_canon(v):
    if v is None:
        return ("none",)
    if isinstance(v, CharsetMetaAttributeValue):
        return ("charset", str(v))
    if isinstance(v, ContentMetaAttributeValue):
        return ("content", str(v))
    if isinstance(v, str):
        return ("str", str(v))
    return ("list", tuple(str(x) for x in v))


def lower_check(ctx):
    """measured hypothesis of the model: only ASCII letters lower-case into the letters of 'content-type'"""
    target = set("content-type")
    bad = [cp for cp in range(128, 0x110000) if any(ch in target for ch in chr(cp).lower()) and len(chr(cp).lower()) == 1]
    if bad:
        ctx.disagree("str.lower ~ lower_ascii on 'content-type'", {"code_points": bad[:10]}, "non-ASCII lowers into it", "ASCII only")
    ctx.count("lower_hypothesis_code_points", 0x110000)


def install_cases(ctx):
    builders = {fl: make_soup("", fl).builder for fl in FLAVOURS}
    names = ["meta", "META", "p", "metadata"]
    charsets = [None, "", "utf8", "x-sjis"]
    contents = [None, "", "text/html; charset=x", "text/html"]
    equivs = [None, "content-type", "Content-Type", "CONTENT-TYPE", "content-language", " content-type", "Content-type",
              ["refresh", "Content-Type"], "Kontent-type"]
    cmds, cases = [], []
    for nm, cs, ct, he in itertools.product(names, charsets, contents, equivs):
        for order in (0, 1):
            attrs = []
            if ct is not None:
                attrs.append(("content", ct))
            if he is not None:
                attrs.append(("http-equiv", he))
            if cs is not None:
                attrs.append(("charset", cs))
            attrs.append(("id", "k"))
            if order:
                attrs.reverse()
            for flavour in FLAVOURS:
                tag = Tag(None, builders[flavour], nm, None, None, dict(attrs))
                got = [(str(k), aval_canon(v)) for k, v in tag.attrs.items()]
                cmds.append([8001, nm, [[k, aval_enc(v)] for k, v in attrs]])
                case = {"name": nm, "attrs": [[k, v] for k, v in attrs], "builder": flavour}
                cases.append((case, got))
                ctx.case(("install", nm, cs, ct, repr(he), order, flavour), nontrivial=(nm == "meta"))
                # direct oracle (documented behaviour of the two styles)
                d = dict(got)
                if nm == "meta" and cs is not None and d["charset"][0] != "charset":
                    ctx.fail(case, "<meta charset> did not get its placeholder", got, "charset placeholder", tag="install")
                if (nm == "meta" and cs is None and ct is not None and he is not None and
                        any(x.strip() == x and x.lower() == "content-type" for x in ([he] if isinstance(he, str) else he))
                        and d["content"][0] != "content"):
                    ctx.fail(case, "<meta http-equiv=content-type content> did not get its placeholder", got,
                             "content placeholder", tag="install")
                if nm != "meta" and any(v[0] in ("charset", "content") for v in d.values()):
                    ctx.fail(case, "placeholder installed on a non-meta tag", got, None, tag="install")
    if ctx.build.model_ok:
        res = ctx.model.run(cmds)
        for (case, got), mv in zip(cases, res):
            m = [("".join(map(chr, k)), aval_dec(v)) for k, v in mv]
            if m != got:
                ctx.disagree("set_up_substitutions ~ Model.Encode.set_up_substitutions", case, got, m)


# ----------------------------------------------------------------------------------------- (c) str.encode
def is_scalar(cp):
    return not (0xD800 <= cp <= 0xDFFF)


def expected_xcr(s, enc, bom):
    out = []
    for ch in s:
        out.append(ch if enc1(ch, enc, bom) is not None else "&#%d;" % ord(ch))
    return "".join(out)


_cexc = {}


def codec_exceptions(enc, chars):
    """code points of `chars` whose strict encoding does not decode back to themselves in the interpreter's codec"""
    out = []
    bom = cinfo(enc)["bom"]
    for ch in set(chars):
        key = (enc, ch)
        if key not in _cexc:
            try:
                b = ch.encode(enc)
            except UnicodeEncodeError:
                _cexc[key] = False
            else:
                try:
                    _cexc[key] = (b.decode(enc) != ch)
                except UnicodeDecodeError:
                    _cexc[key] = True
        if _cexc[key]:
            out.append(ord(ch))
    return out


QUICK_BLOCK_CODECS = ["ascii", "cp1252", "koi8-r", "utf-8", "shift_jis", "gb18030", "euc_kr", "iso-2022-jp", "utf-16"]


_IDEAL = re.compile(r"&(?:#(\d+)|#[xX]([0-9a-fA-F]+)|(amp|lt|gt|quot));")
_NAMED = {"amp": "&", "lt": "<", "gt": ">", "quot": '"'}


def ideal_unescape(s):
    def rep(m):
        if m.group(1):
            n = int(m.group(1))
        elif m.group(2):
            n = int(m.group(2), 16)
        else:
            return _NAMED[m.group(3)]
        return chr(n) if n < 0x110000 else m.group(0)
    return _IDEAL.sub(rep, s)


def first_diff(a, b):
    for i, (x, y) in enumerate(zip(a, b)):
        if x != y:
            return {"index": i, "got": a[i:i + 12], "want": b[i:i + 12]}
    return {"len_got": len(a), "len_want": len(b)}


def encode_cases(ctx):
    rng = ctx.rng
    # every scalar value, in blocks, as the text of a <p>, through Tag.encode / encode_contents and every codec
    # (quick: 9 codecs): the bytes decode, to the expected text
    blocks = []
    blk = []
    for cp in range(0x110000):
        if not is_scalar(cp):
            continue
        blk.append(chr(cp))
        if len(blk) == 8192:
            blocks.append("".join(blk))
            blk = []
    if blk:
        blocks.append("".join(blk))
    soup = BeautifulSoup("<p></p>", "html.parser")
    tags = []
    for b in blocks:
        t = soup.new_tag("p")
        t.string = b
        tags.append(t)
    codecs_used = ALL_CODECS if ctx.thorough else QUICK_BLOCK_CODECS
    for enc in codecs_used:
        info = cinfo(enc)
        for bi, (b, t) in enumerate(zip(blocks, tags)):
            runs = [(call(t.encode, enc), "<p>", "</p>")]
            if ctx.thorough or bi % 3 == 0:
                runs.append((call(t.encode_contents, None, enc), "", ""))
            ctx.case(("blk", enc, bi))
            for r, pre, post in runs:
                if r[0] != "ok":
                    ctx.fail({"codec": enc, "block_first": ord(b[0]), "text_block": True}, "rendering a text block to bytes raised",
                             r[1], "bytes", tag="encode-raised")
                    continue
                try:
                    back = r[1].decode(enc)
                except Exception as ex:          # noqa: BLE001
                    culprits = codec_exceptions(enc, b)
                    if culprits:
                        # the interpreter's codec does not decode its own strict encoding of these characters
                        # (e.g. U+3164 in euc_kr): a measured exception to the codec hypothesis, not bs4's doing
                        cur = ctx.extra_cov.setdefault("codec_hypothesis_exceptions", {}).get(enc, [])
                        ctx.extra_cov["codec_hypothesis_exceptions"][enc] = sorted(set(cur) | set(culprits))[:20]
                    else:
                        ctx.fail({"codec": enc, "block_first": ord(b[0]), "text_block": True},
                                 "bytes do not decode in the target encoding", type(ex).__name__, "text", tag="undecodable")
                    continue
                if info["ascii_encodable"]:
                    # semantic statement: markup intact, and un-escaping the character data with an ideal reader
                    # (named amp/lt/gt/quot, decimal or hexadecimal references = that code point) gives the block
                    inner = back[len(pre):len(back) - len(post)] if post else back
                    if not back.startswith(pre) or not back.endswith(post) or ideal_unescape(inner) != b:
                        if codec_exceptions(enc, b):
                            ctx.count("codec_not_injective_blocks")
                        else:
                            ctx.fail({"codec": enc, "block_first": ord(b[0]), "text_block": True},
                                     "decoded bytes do not denote the text (characters not represented by themselves "
                                     "or by a numeric reference to themselves)", first_diff(ideal_unescape(inner), b),
                                     "the block", tag="reference-denotes-char")
    ctx.count("scalar_values_x_codecs_in_blocks", (0x110000 - 2048) * len(codecs_used))
    # single code points through the model
    cmds, cases = [], []
    specials = [0, 9, 10, 13, 34, 38, 39, 60, 62, 127, 128, 129, 150, 159, 160, 165, 255, 256, 0x17f, 0x20ac, 0x2603,
                0x203e, 0xfdd0, 0xfeff, 0xfffd, 0xfffe, 0xffff, 0x10000, 0x1f600, 0x10ffff]
    for enc in ALL_CODECS:
        info = cinfo(enc)
        if info["stateful"]:
            continue
        cps = list(specials) + [rng.randrange(0x110000) for _ in range(120 if ctx.thorough else 25)]
        for cp in cps:
            if not is_scalar(cp):
                continue
            s = "a" + chr(cp) + "&" + chr(cp)
            for pol, pname in ((1, "xmlcharrefreplace"), (0, "strict")):
                try:
                    got = list(s.encode(enc, pname))
                except UnicodeEncodeError:
                    got = "UnicodeEncodeError"
                tbl, bom = codec_table(enc, s)
                cmds.append([8003, pol, tbl, bom, s])
                cases.append(({"codec": enc, "text": [ord(c) for c in s], "errors": pname}, got))
                ctx.case(("enc1", enc, cp, pol), nontrivial=(enc1(chr(cp), enc, info["bom"]) is None))
    for n in [0, 1, 9, 10, 99, 100, 128, 9731, 65535, 65536, 1114111, 999999, 1000000] + [rng.randrange(0x110000) for _ in range(200)]:
        cmds.append([8009, n])
        cases.append(({"decimal": n}, [ord(c) for c in "%d" % n]))
    if ctx.build.model_ok:
        res = ctx.model.run(cmds)
        for (case, got), mv in zip(cases, res):
            if "decimal" in case:
                m = mv
            else:
                m = mv[1] if mv and mv[0] == 1 else "UnicodeEncodeError"
            if m != got:
                ctx.disagree("str.encode(enc, errors) ~ Model.Encode.str_encode", case, got, m)


# ----------------------------------------------------------------------------------------- (d) documents
CLS = {0: NavigableString, 1: CData, 2: ProcessingInstruction, 4: Comment, 5: Declaration, 6: Doctype}
CLS_ID = {NavigableString: 0, CData: 1, ProcessingInstruction: 2, Comment: 4, Declaration: 5, Doctype: 6}
POOLS = [
    ("ascii", [chr(c) for c in range(0x61, 0x7b)] + list("AZ 09.,-")),
    ("markup", list("&<>\"';#=0123456789 ") + ["&amp;", "&#9731;", "&#x26;", "&lt", "AT&T", "&copy", "&#", "&#;"]),
    ("latin1", [chr(c) for c in range(0xa0, 0x100)]),
    ("c1", [chr(c) for c in range(0x80, 0xa0)]),
    ("european", [chr(c) for c in list(range(0x100, 0x250)) + list(range(0x370, 0x400)) + list(range(0x400, 0x500))]),
    ("rtl", [chr(c) for c in list(range(0x5d0, 0x5eb)) + list(range(0x621, 0x64b))]),
    ("cjk", [chr(c) for c in range(0x4e00, 0x9fa6, 7)]),
    ("kana", [chr(c) for c in list(range(0x3041, 0x3097)) + list(range(0x30a1, 0x30fb))]),
    ("hangul", [chr(c) for c in range(0xac00, 0xd7a4, 11)]),
    ("symbols", [chr(c) for c in list(range(0x2010, 0x2060)) + list(range(0x20a0, 0x20c0)) + list(range(0x2190, 0x2200)) + list(range(0x2600, 0x2700))]),
    ("private", [chr(c) for c in (0xe000, 0xe123, 0xf8ff, 0xf0000, 0x100000)]),
    ("specials", [chr(c) for c in (0xfffd, 0xfeff, 0xfffe, 0xffff, 0xfdd0, 0xfdef, 0x1fffe, 0x10ffff, 0x7f, 0x1, 0xa5, 0x203e, 0x17f)]),
    ("astral", [chr(c) for c in list(range(0x1f300, 0x1f650, 5)) + [0x10000, 0x1d11e, 0x20000, 0x2a6d6, 0xe0041]]),
    ("space", [" ", "\n", "\t", " ", "　", " "]),
]
POOL_W = [6, 3, 3, 0.3, 3, 1, 3, 2, 1, 3, 1, 0.6, 2, 2]
META_FORMS = [
    ("charset", None),
    ("content", "text/html; charset=%s"),
    ("content", "text/html;charset=%s"),
    ("content", "charset=%s"),
    ("content", "text/html; CHARSET=%s"),
    ("content", "text/html; charset = %s"),
    ("content", "text/html; Charset=%s; q=1"),
    ("content", "text/html;\ncharset=%s"),
    ("content", "application/xhtml+xml;  charset=%s ; foo=bar"),
    ("content", "text/html; charset=\"%s\""),
    ("content", "text/html"),
    ("content", "text/html charset=%s"),          # undelimited: known finding class
]
META_W = [6, 5, 3, 2, 2, 2, 2, 1, 1, 1, 1, 0.7]
EQUIV_SPELL = ["Content-Type", "content-type", "CONTENT-TYPE", "Content-type"]
VOID = {"br", "img", "meta", "hr", "input", "link"}
CONTAINER = ["div", "p", "span", "b", "a", "ul", "li", "td", "em", "section", "h1"]
ATTR_NAMES = ["id", "title", "href", "alt", "data-x", "lang", "name", "value"]


def rtext(rng, lo=1, hi=8, pools=None):
    n = rng.randint(lo, hi)
    out = []
    pw = pools or POOL_W
    for _ in range(n):
        p = rng.choices(POOLS, weights=pw)[0][1]
        out.append(rng.choice(p))
    return "".join(out)


def gen_attrs(rng):
    attrs = []
    for k in rng.sample(ATTR_NAMES, rng.choice([0, 0, 1, 1, 2, 3])):
        attrs.append((k, ("s", rtext(rng, 0, 6))))
    if rng.random() < 0.15:
        attrs.append(("class", ("l", [rng.choice(["a", "b-c", "é", "日本", "x1"]) for _ in range(rng.randint(1, 3))])))
    return attrs


def gen_kids(rng, depth, budget):
    kids = []
    n = rng.randint(0, 4)
    last_text = False
    for _ in range(n):
        if budget[0] <= 0:
            break
        budget[0] -= 1
        r = rng.random()
        if r < 0.45 and not last_text:
            t = rtext(rng)
            kids.append(("t", 0, t))
            last_text = True
        elif r < 0.52:
            kids.append(("t", 4, rtext(rng, 1, 4).replace("--", "- ").replace(">", " ")))
            last_text = False
        elif r < 0.62:
            kids.append(("e", rng.choice(["br", "img", "hr"]), None, gen_attrs(rng), [], True))
            last_text = False
        elif r < 0.70:
            nm = rng.choice(["pre", "textarea", "script", "style", "title"])
            body = rtext(rng, 1, 5)
            if nm in ("script", "style"):
                body = body.replace("<", " ").replace("&", "+")
            sub = [("t", 0, body)] if body else []
            if nm == "pre" and rng.random() < 0.5:
                sub.append(("e", "b", None, [], [("t", 0, rtext(rng))], True))
            kids.append(("e", nm, None, gen_attrs(rng), sub, True))
            last_text = False
        elif depth < 4:
            kids.append(("e", rng.choice(CONTAINER), None, gen_attrs(rng), gen_kids(rng, depth + 1, budget), True))
            last_text = False
    return kids


def gen_meta(rng, declared):
    style, tmpl = rng.choices(META_FORMS, weights=META_W)[0]
    if style == "charset":
        attrs = [("charset", ("s", declared))]
        form = "charset"
    else:
        val = tmpl % declared if "%s" in tmpl else tmpl
        attrs = [("http-equiv", ("s", rng.choice(EQUIV_SPELL))), ("content", ("s", val))]
        form = tmpl
    if rng.random() < 0.3:
        attrs.append(("id", ("s", "m")))
    if rng.random() < 0.5:
        attrs.reverse()
    return ("e", "meta", None, attrs, [], True), form


def gen_doc(rng):
    """a document description: (root description, list of meta forms used)"""
    budget = [rng.randint(3, 16)]
    forms = []
    head_kids = []
    nmeta = rng.choice([0, 1, 1, 1, 2])
    for _ in range(nmeta):
        m, f = gen_meta(rng, rng.choice(["x-sjis", "utf8", "koi8-r", "ISO-8859-1", "windows-1252", ""]))
        head_kids.append(m)
        forms.append(f)
    if rng.random() < 0.5:
        head_kids.append(("e", "title", None, [], [("t", 0, rtext(rng))], True))
    if rng.random() < 0.2:
        head_kids.append(("e", "meta", None, [("name", ("s", "keywords")), ("content", ("s", rtext(rng, 1, 4)))], [], True))
    body = ("e", "body", None, gen_attrs(rng), gen_kids(rng, 1, budget), True)
    head = ("e", "head", None, [], head_kids, True)
    htmlk = [head, body]
    top = []
    if rng.random() < 0.12:
        top.append(("t", 6, "html"))
    top.append(("e", "html", None, gen_attrs(rng) if rng.random() < 0.3 else [], htmlk, True))
    return ("e", "[document]", None, [], top, True), forms


PLAIN = set()
_KEEP = []


def plain_val(v):
    return v[1] if v[0] == "s" else list(v[1])


def build_impl(soup, d):
    """route A: through the builder (new_tag); strings through their classes"""
    if d[0] == "t":
        return CLS[d[1]](d[2])
    _, name, prefix, attrs, kids, inst = d
    if inst:
        tag = soup.new_tag(name, None, prefix, attrs={k: plain_val(v) for k, v in attrs})
    else:
        # made without the builder: the library installs no placeholder (documented route is new_tag / parsing)
        tag = Tag(name=name, prefix=prefix, attrs={k: plain_val(v) for k, v in attrs})
        PLAIN.add(id(tag))
        _KEEP.append(tag)
    for k in kids:
        tag.append(build_impl(soup, k))
    return tag


class XHTMLBuilder(HTMLParserTreeBuilder):
    """an XML-flavoured html.parser builder (XHTML): a TreeBuilder subclass that declares is_xml = True. Its trees
    use the XML formatter registry and the BeautifulSoup object writes an XML declaration; <meta> placeholders are
    HTMLTreeBuilder's business and must be installed all the same."""
    NAME = "c08-xhtml"
    is_xml = True


FLAVOURS = ("html", "xhtml")


def make_soup(markup, flavour="html"):
    with warnings.catch_warnings():
        warnings.simplefilter("ignore")
        if flavour == "xhtml":
            return BeautifulSoup(markup, builder=XHTMLBuilder())
        return BeautifulSoup(markup, "html.parser")


def xmlize(d):
    """a description fit for the XML flavour: the XML formatters know no CDATA-containing tags, which the model does
    not cover, so script/style elements are renamed"""
    if d[0] == "t":
        return d
    _, name, prefix, attrs, kids, inst = d
    name = {"script": "code", "style": "samp"}.get(name, name)
    return ("e", name, prefix, attrs, [xmlize(k) for k in kids], inst)


def xml_declaration(evn):
    """what BeautifulSoup.decode writes first for an XML-flavoured document (documented: the declaration names the
    eventual encoding unless there is none or it is a python-specific one)"""
    if evn is None or evn in PYSPECIFIC_USED:
        return '<?xml version="1.0"?>\n'
    return '<?xml version="1.0" encoding="%s"?>\n' % evn


def build_doc(d, flavour="html"):
    soup = make_soup("", flavour)
    for k in d[4]:
        soup.append(build_impl(soup, k))
    return soup


def esc_text(s):
    return s.replace("&", "&amp;").replace("<", "&lt;").replace(">", "&gt;")


def esc_attr(s):
    return s.replace("&", "&amp;").replace('"', "&quot;")


def write_markup(d, parent=None):
    if d[0] == "t":
        if d[1] == 0:
            return d[2] if parent in ("script", "style") else esc_text(d[2])
        if d[1] == 4:
            return "<!--" + d[2] + "-->"
        if d[1] == 6:
            return "<!DOCTYPE " + d[2] + ">"
        raise ValueError(d)
    _, name, prefix, attrs, kids, inst = d
    if name == "[document]":
        return "".join(write_markup(k, name) for k in kids)
    a = "".join(' %s="%s"' % (k, esc_attr(" ".join(v[1]) if v[0] == "l" else v[1])) for k, v in attrs)
    if name in VOID:
        return "<%s%s>" % (name, a)
    return "<%s%s>%s</%s>" % (name, a, "".join(write_markup(k, name) for k in kids), name)


def describe(el):
    """what a built / parsed tree is, in the shape of a description (classes of attribute values dropped)"""
    if isinstance(el, Tag):
        return ("e", el.name, el.prefix, [(str(k), ("l", [str(x) for x in v]) if isinstance(v, list) else ("s", str(v)))
                                          for k, v in el.attrs.items()],
                [describe(c) for c in el.contents], True)
    return ("t", CLS_ID.get(type(el), 0), str(el))


def strip_desc(d):
    if d[0] == "t":
        return ("t", d[1], d[2])
    return ("e", d[1], d[2], sorted((k, tuple(v[1]) if v[0] == "l" else v[1]) for k, v in d[3]), [strip_desc(k) for k in d[4]])


def model_node(d, el):
    """description + facts read from the implementation's element (can_be_empty_element, hidden, string class)"""
    if d[0] == "t":
        return [0, d[1], d[2]]
    _, name, prefix, attrs, kids, inst = d
    return [1, name, [] if prefix is None else [prefix],
            [[k, [1, list(v[1])] if v[0] == "l" else [0, v[1]]] for k, v in attrs],
            el.can_be_empty_element is True, bool(el.hidden), bool(inst),
            [model_node(k, c) for k, c in zip(kids, el.contents)]]


def doc_chars(d, acc):
    if d[0] == "t":
        acc.update(d[2])
        return
    acc.update(d[1])
    for k, v in d[3]:
        acc.update(k)
        for x in ([v[1]] if v[0] == "s" else v[1]):
            acc.update(x)
    for k in d[4]:
        doc_chars(k, acc)


def texts_and_attrs(soup):
    """observables of the lossless clause: ordinary text (NavigableString proper outside script/style) and
    attribute values, in document order"""
    out = []
    for el in soup.descendants:
        if isinstance(el, Tag):
            for k in sorted(el.attrs):
                v = el.attrs[k]
                out.append(("a", el.name, str(k), " ".join(v) if isinstance(v, list) else str(v)))
        elif type(el) is NavigableString or type(el).__name__ in ("Script", "Stylesheet", "TemplateString",
                                                                      "RubyTextString", "RubyParenthesisString"):
            if el.parent is not None and el.parent.name in ("script", "style"):
                continue
            out.append(("t", str(el)))
    return out


def merge_text(obs):
    """adjacent text observables merge on re-parse"""
    out = []
    for o in obs:
        if o[0] == "t" and out and out[-1][0] == "t":
            out[-1] = ("t", out[-1][1] + o[1])
        elif o[0] == "t" and o[1] == "":
            continue
        else:
            out.append(o)
    return out


def drop_decl(obs):
    """the charset / content attributes of <meta> are compared by the meta clause, not the lossless clause"""
    return [o for o in obs if not (o[0] == "a" and o[1] == "meta" and o[2] in ("charset", "content"))]


def desc_metas(d, acc):
    """(charset, content) of every meta element of a description, in document order"""
    if d[0] == "e":
        if d[1] == "meta":
            a = {k: (v[1] if v[0] == "s" else " ".join(v[1])) for k, v in d[3]}
            acc.append((a.get("charset"), a.get("content")))
        for k in d[4]:
            desc_metas(k, acc)
    return acc


def is_decl_meta(el):
    if not isinstance(el, Tag) or el.name != "meta":
        return None
    if el.get("charset") is not None:
        return "charset"
    he = el.get("http-equiv")
    if el.get("content") is not None and he is not None and str(he).lower() == "content-type":
        return "content"
    return None


C1 = set(range(0x80, 0xa0))


def is_nonchar(cp):
    return 0xfdd0 <= cp <= 0xfdef or (cp & 0xfffe) == 0xfffe


def relax(obs, enc, bom):
    """what the HTML reference rules make of the numeric references of characters `enc` cannot represent:
    C1 controls read as windows-1252, noncharacters in attribute values are dropped (known finding class)"""
    out = []
    for o in obs:
        s = o[-1]
        r = []
        for ch in s:
            cp = ord(ch)
            if enc1(ch, enc, bom) is None:
                if cp in C1:
                    try:
                        r.append(bytes([cp]).decode("cp1252"))
                    except UnicodeDecodeError:
                        r.append(ch)
                    continue
                if o[0] == "a" and is_nonchar(cp):
                    continue
            r.append(ch)
        out.append(o[:-1] + ("".join(r),))
    return out


def call(fn, *a, **kw):
    try:
        with warnings.catch_warnings():
            warnings.simplefilter("ignore")
            return ("ok", fn(*a, **kw))
    except UnicodeEncodeError:
        return ("err", "UnicodeEncodeError")
    except Exception as ex:          # noqa: BLE001
        return ("err", type(ex).__name__)


def parse_str(s):
    with warnings.catch_warnings():
        warnings.simplefilter("ignore")
        return BeautifulSoup(s, "html.parser")


def name_equiv(enc, detected):
    if detected is None:
        return False
    try:
        a, b = codecs.lookup(enc).name, codecs.lookup(detected).name
    except LookupError:
        return False
    if a == b:
        return True
    return b in {codecs.lookup(x).name for x in BOM_EQUIV.get(a, set())} or detected in BOM_EQUIV.get(a, set())


def find_path(root, path):
    el = root
    for i in path:
        el = el.contents[i]
    return el


def pick_paths(d, rng):
    """paths of element nodes (as child indexes from the root description)"""
    out = []

    def walk(n, p):
        if n[0] == "e":
            if p:
                out.append(p)
            for i, k in enumerate(n[4]):
                walk(k, p + [i])
    walk(d, [])
    return out


def desc_at(d, path):
    for i in path:
        d = d[4][i]
    return d


def doc_case(ctx, d, forms, route, encs, cmds, pend, corpus_tag=None, flavour="html"):
    rng = ctx.rng
    if flavour == "xhtml":
        d = xmlize(d)
    if route in ("parsed", "parsed-copy"):
        markup = write_markup(d)
        soup = make_soup(markup, flavour)
        if strip_desc(describe(soup)) != strip_desc(d):
            ctx.count("parse_shape_mismatch")
            return
        if route == "parsed-copy":
            soup = copy.copy(soup)
    else:
        soup = build_doc(d, flavour)
        if route == "copy":
            soup = copy.copy(soup)
    ctx.count("documents_" + flavour)
    chars = set()
    doc_chars(d, chars)
    paths = pick_paths(d, rng)
    has_meta = any(is_decl_meta(el) for el in soup.find_all("meta"))
    orig_obs_root = merge_text(texts_and_attrs(soup))
    for enc in encs:
        info = cinfo(enc)
        stateless = not info["stateful"]
        tbl, bom = codec_table(enc, chars | set(enc))
        unenc = sorted(ord(c) for c in chars if enc1(c, enc, info["bom"]) is None)
        # which element, which entry points
        targets = [[]]
        if paths:
            targets.append(rng.choice(paths))
        for path in targets:
            el = find_path(soup, path)
            dd = desc_at(d, path)
            mnode = model_node(dd, el)
            entries = [("encode", None, "minimal", None), ("prettify", 0, "minimal", None),
                       ("encode_contents", None, "minimal", None)]
            extra = [("encode", rng.choice([0, 2]), "minimal", None), ("encode_contents", rng.choice([0, 1]), "minimal", None),
                     ("encode", None, None, None), ("encode", None, "minimal", "strict"), ("prettify", 0, None, None)]
            entries += rng.sample(extra, 2 if not ctx.thorough else 4)
            for (ep, indent, fm, errs) in entries:
                key = (repr(d), enc, tuple(path), ep, indent, fm, errs, route)
                nontriv = bool(unenc) or has_meta
                ctx.case(key, nontrivial=nontriv)
                if ep == "encode":
                    kw = {"encoding": enc, "indent_level": indent, "formatter": fm}
                    if errs:
                        kw["errors"] = errs
                    r = call(el.encode, **kw)
                    mcmd = [8004, 0, mnode, enc, [] if indent is None else [indent], 0 if fm else 1, 0 if errs == "strict" else 1, tbl, bom]
                elif ep == "prettify":
                    r = call(el.prettify, enc, fm)
                    mcmd = [8004, 1, mnode, enc, [], 0 if fm else 1, 1, tbl, bom]
                else:
                    r = call(el.encode_contents, indent, enc, fm)
                    mcmd = [8004, 2, mnode, enc, [] if indent is None else [indent], 0 if fm else 1, 1, tbl, bom]
                case = {"route": route, "markup": write_markup(d) if route.startswith("parsed") else None, "doc": d, "path": path,
                        "entry": ep, "encoding": enc, "indent_level": indent, "formatter": fm, "errors": errs,
                        "meta_forms": forms, "corpus": corpus_tag, "flavour": flavour,
                        "xml_declaration": xml_declaration(enc) if (flavour == "xhtml" and not path) else None}
                # ---------------- correspondence
                if stateless:
                    cmds.append(mcmd)
                    pend.append(("bytes", case, r))
                    if ctx.build.model_ok and cd.model_codec(ctx, enc) is not None:
                        # the same call against the fully concrete model: codec defined in Coq, nothing measured
                        cmds.append([21006] + mcmd[1:7])
                        pend.append(("cbytes", case, r))
                        ctx.count("cd_encode_calls_concrete_codec")
                else:
                    # text level: model decode + xcr_text with the measured encodable set
                    sub = {"encode": 0, "prettify": 0, "encode_contents": 1}[ep]
                    ind = [0] if ep == "prettify" else ([] if indent is None else [indent])
                    cmds.append([8005, sub, mnode, [enc], ind, 0 if fm else 1])
                    pend.append(("text", case, r, enc, sorted(ord(c) for c in chars | set(map(chr, range(128))) if enc1(c, enc, info["bom"]) is not None)))
                # ---------------- direct oracle
                oracle(ctx, case, soup, el, r, enc, info, unenc, orig_obs_root if not path else None)
        # str-level rendering: eventual_encoding given / None
        el = soup
        mnode = model_node(d, soup)
        for evn in (enc, None):
            for sub, fn, ind in ((0, el.decode, None), (1, el.decode_contents, None), (0, el.decode, 0)):
                r = call(fn, ind, evn, "minimal")
                cmds.append([8005, sub, mnode, [] if evn is None else [evn], [] if ind is None else [ind], 0])
                pend.append(("str", {"route": route, "doc": d, "entry": fn.__name__, "eventual_encoding": evn,
                                     "indent_level": ind, "flavour": flavour,
                                     "xml_declaration": xml_declaration(evn) if flavour == "xhtml" else None}, r))
                ctx.case((repr(d), "str", evn, sub, ind), nontrivial=has_meta)
            if evn is None and has_meta:
                # untouched when there is no target encoding
                r = call(el.decode, None, None, "minimal")
                if r[0] == "ok":
                    s2 = parse_str(r[1])
                    a = desc_metas(d, [])
                    b = [(m.get("charset"), m.get("content")) for m in s2.find_all("meta")]
                    if a != [tuple(None if x is None else str(x) for x in t) for t in b]:
                        ctx.fail({"route": route, "doc": d, "entry": "decode", "eventual_encoding": None, "flavour": flavour},
                                 "meta declaration changed although no target encoding was given", b, a, tag="meta-untouched")
    r = call(soup.prettify)
    cmds.append([8005, 2, model_node(d, soup), [], [], 0])
    pend.append(("str", {"route": route, "doc": d, "entry": "prettify()", "flavour": flavour,
                         "xml_declaration": xml_declaration("utf-8") if flavour == "xhtml" else None}, r))


def oracle(ctx, case, soup, el, r, enc, info, unenc, orig_obs_root):
    ep, errs = case["entry"], case["errors"]
    if errs == "strict":
        # strict is the caller's choice: raises iff something is unencodable in the rendering; not part of the property
        return
    if r[0] != "ok":
        ctx.fail(case, "rendering to bytes raised", r[1], "bytes", tag="encode-raised")
        return
    data = r[1]
    if not isinstance(data, bytes):
        ctx.fail(case, "entry point with an encoding did not return bytes", type(data).__name__, "bytes", tag="type")
        return
    base0 = call(el.decode_contents if ep == "encode_contents" else el.decode, None, enc, case["formatter"])
    if base0[0] == "ok" and codec_exceptions(enc, base0[1]):
        ctx.count("case_outside_codec_hypothesis")
        return
    try:
        text = data.decode(enc)
    except Exception as ex:          # noqa: BLE001
        ctx.fail(case, "bytes do not decode in the target encoding", type(ex).__name__, "text", tag="undecodable")
        return
    if not info["ascii_encodable"]:
        return
    if case["formatter"] is None:
        return          # no entity substitution requested: '&' in text is ambiguous by the caller's choice
    pretty = (ep == "prettify") or case["indent_level"] is not None
    # baseline: the same rendering without the encoding step (isolates C05/C14 effects of re-parsing)
    if ep == "encode_contents":
        base = call(el.decode_contents, case["indent_level"], enc, "minimal")
    else:
        base = call(el.decode, 0 if ep == "prettify" else case["indent_level"], enc, "minimal")
    if base[0] != "ok":
        return
    re_enc = parse_str(text)
    re_base = parse_str(base[1])
    obs_enc = drop_decl(merge_text(texts_and_attrs(re_enc)))
    obs_base = drop_decl(merge_text(texts_and_attrs(re_base)))
    if obs_enc != obs_base:
        rel = relax(obs_base, enc, info["bom"])
        if obs_enc == rel and ctx.counts.get("known_class_c1_nonchar", 0) >= 3:
            ctx.count("known_class_c1_nonchar")
        elif obs_enc == rel:
            ctx.count("known_class_c1_nonchar")
            ctx.fail(case, "numeric character reference of an unencodable C1 control / noncharacter does not read back as the character",
                     [o for o, b in zip(obs_enc, obs_base) if o != b][:3], [b for o, b in zip(obs_enc, obs_base) if o != b][:3],
                     tag="c1-nonchar-reference")
        else:
            diff = [(o, b) for o, b in zip(obs_enc, obs_base) if o != b][:3]
            ctx.fail(case, "text / attribute values recovered from the bytes differ from those of the unencoded rendering",
                     diff or [len(obs_enc), len(obs_base)], "equal", tag="lossless")
        return
    if not pretty and ep == "encode" and orig_obs_root is not None:
        # full statement on documents that re-parse to themselves: the original text and attribute values
        # (declaration metas compared separately)
        if obs_base == drop_decl(orig_obs_root):
            ctx.count("full_roundtrip_checked")
        else:
            ctx.count("baseline_not_roundtrippable")
    # ---- meta rewritten (what a MIME-parameter reading and what a sniffing reader find afterwards)
    metas_o = order_metas(el, ep)
    metas_n = re_enc.find_all("meta")
    if len(metas_o) == len(metas_n):
        for mo, mn in zip(metas_o, metas_n):
            kind = is_decl_meta(mo)
            if id(mo) in PLAIN:
                continue
            if kind == "charset":
                if mn.get("charset") != enc:
                    ctx.fail(case, "<meta charset> does not name the encoding actually used", mn.get("charset"), enc,
                             tag="meta-charset")
            elif kind == "content":
                ov, nv = str(mo["content"]), str(mn.get("content"))
                before, after = oracle_params(ov), oracle_params(nv)
                if after != [enc] * len(before):
                    ctx.fail(case, "charset parameter of <meta content> does not name the encoding actually used",
                             nv, [enc] * len(before), tag="meta-content")
                elif sniffed(ov) is not None and sniffed(nv) != enc.lower():
                    form = undelimited(ov)
                    if form:
                        ctx.count("known_class_undelimited")
                        if ctx.counts["known_class_undelimited"] > 3:
                            continue
                    ctx.fail(dict(case, content=ov), "the charset a sniffing reader finds in <meta content> is not the encoding actually used",
                             nv, enc, tag="meta-content-undelimited" if form else "meta-content")
    # ---- auto-detection
    if ep == "encode" and not case["path"] and (info["ascii_compat"] or info["bom"]):
        decl = [m for m in soup.find_all("meta") if is_decl_meta(m) and
                ((is_decl_meta(m) == "charset") or oracle_params(str(m["content"])))]
        if (decl or info["bom"]) and not any(undelimited(str(m.get("content") or "")) or id(m) in PLAIN
                                            for m in soup.find_all("meta")):
            pos = data.find(b"<meta")
            if info["bom"] or 0 <= pos < 1500:
                with warnings.catch_warnings():
                    warnings.simplefilter("ignore")
                    s3 = BeautifulSoup(data, "html.parser")
                if not name_equiv(enc, s3.original_encoding):
                    ctx.fail(case, "re-parsing the bytes does not auto-detect the encoding", s3.original_encoding, enc, tag="autodetect")
                elif drop_decl(merge_text(texts_and_attrs(s3))) != obs_enc and not unenc_c1(unenc):
                    ctx.fail(case, "auto-detected re-parse reads different text", None, None, tag="autodetect-text")
                ctx.count("autodetect_checked")


def unenc_c1(unenc):
    return any(c in C1 for c in unenc)


def order_metas(el, ep):
    ms = list(el.find_all("meta"))
    if el.name == "meta" and ep != "encode_contents":
        ms = [el] + ms
    return ms


_UNDELIM = re.compile(r"charset\s*=", re.I)
_SNIFF = re.compile(r"charset\s*=\s*[\"']?([^;\"'\s>]*)", re.I)


def sniffed(v):
    """the charset a sniffing reader (HTML's 'extract a character encoding from a meta element', bs4's own
    declared-encoding regex) finds in a content value: the first charset = value, wherever it stands"""
    m = _SNIFF.search(v)
    return m.group(1).lower() if m else None


def undelimited(v):
    """does v contain a 'charset =' that starts neither a ';'-field nor a line? (the sniffing readers see it,
    a MIME-parameter reading does not)"""
    for m in _UNDELIM.finditer(v):
        pre = v[:m.start()]
        stripped = pre.rstrip()
        if stripped == "" or stripped.endswith(";") or "\n" in pre[len(stripped):]:
            continue
        return True
    return False


def finish_docs(ctx, cmds, pend):
    if not ctx.build.model_ok:
        return
    res = ctx.model.run(cmds)
    second, second_info = [], []
    for p, mv in zip(pend, res):
        kind, case, r = p[0], p[1], p[2]
        decl = case.get("xml_declaration")
        if kind == "bytes":
            impl = list(r[1]) if r[0] == "ok" else r[1]
            m = mv[1] if (isinstance(mv, list) and mv and mv[0] == 1) else "UnicodeEncodeError"
            if decl and isinstance(m, list):
                nb = len(cinfo(case["encoding"])["bom"])
                m = m[:nb] + list(decl.encode(case["encoding"])[nb:]) + m[nb:]
            if impl != m:
                ctx.disagree("%s ~ Model.Encode.tag_%s" % (case["entry"], case["entry"]), case, _short(impl), _short(m))
        elif kind == "cbytes":
            impl = list(r[1]) if r[0] == "ok" else r[1]
            m = cd.dec_encode(mv)
            if decl and isinstance(m, list):
                m = list(decl.encode(case["encoding"])) + m
            if impl != m:
                ctx.disagree("%s ~ Model.Codecs.c_tag_encode (codec defined in Coq)" % case["entry"], dict(case, concrete_codec=True),
                             _short(impl), _short(m))
        elif kind == "str":
            impl = r[1] if r[0] == "ok" else "EXC:" + r[1]
            m = "".join(map(chr, mv)) if isinstance(mv, list) else mv
            if decl and isinstance(m, str):
                m = decl + m
            if impl != m:
                ctx.disagree("%s ~ Model.Encode.tag_decode" % case["entry"], case, impl, m)
        else:
            _, _, _, enc, okl = p
            second.append([8008, okl, mv])
            second_info.append((case, r, enc))
    if second:
        res2 = ctx.model.run(second)
        for (case, r, enc), mv in zip(second_info, res2):
            m = (case.get("xml_declaration") or "") + "".join(map(chr, mv))
            if case["errors"] == "strict":
                continue
            if r[0] != "ok":
                ctx.disagree("%s (stateful codec, text level) ~ xcr_text" % case["entry"], case, r[1], m)
                continue
            try:
                impl = r[1].decode(enc)
            except Exception as ex:          # noqa: BLE001
                impl = "EXC:" + type(ex).__name__
            if impl != m:
                ctx.disagree("%s (stateful codec, text level) ~ xcr_text o tag_decode" % case["entry"], case, impl, m)


def _short(x):
    if isinstance(x, list) and len(x) > 400:
        return x[:400] + ["..."]
    return x


# ----------------------------------------------------------------------------------------- (e) readers
def reader_cases(ctx):
    rng = ctx.rng
    cmds, cases = [], []
    texts = []
    for _ in range(600 if ctx.thorough else 150):
        texts.append(rtext(rng, 1, 6))
    texts += [chr(c) for c in range(0x80, 0xa0)] + ["﷐", "￿", "a&b", "&amp;", "x<y>z", "\"'", "☃"]
    for t in texts:
        for enc in ("ascii", rng.choice(["koi8-r", "cp1252", "shift_jis", "latin-1"])):
            info = cinfo(enc)
            body = expected_xcr(esc_text(t), enc, info["bom"])
            soup = parse_str("<p>x" + body + "y</p>")      # x..y: whitespace-only strings are collapsed by the builder
            real = soup.p.get_text()[1:-1]
            cmds.append([8006, body]); cases.append(({"reader": "text", "input": body}, real))
            av = expected_xcr(esc_attr(t), enc, info["bom"])
            soup = parse_str('<p t="' + av + '"></p>')
            real = soup.p.get("t")
            cmds.append([8007, av]); cases.append(({"reader": "attr", "input": av}, real))
            ctx.case(("reader", t, enc))
    if ctx.build.model_ok:
        res = ctx.model.run(cmds)
        for (case, real), mv in zip(cases, res):
            m = "".join(map(chr, mv))
            ctx.traces_validated += 1
            if m != real:
                ctx.disagree("html.parser reading of the output ~ Model.Encode.read_%s" % case["reader"], case, real, m)


# ----------------------------------------------------------------------------------------- corpus
def T(s):
    return ("t", 0, s)


def E(name, attrs, kids):
    return ("e", name, None, [(k, ("s", v)) for k, v in attrs], kids, True)


CORPUS = [
    # fixed: encode_contents lacked xmlcharrefreplace
    ("fixed-encode-contents", ("e", "[document]", None, [], [E("p", [("a", "☃")], [T("☃ & x")])], True), [], ["ascii", "koi8-r"]),
    # fixed: CHARSET= / 'charset = ' not rewritten, mojibake on re-parse
    ("fixed-charset-case", ("e", "[document]", None, [], [E("html", [], [E("head", [], [
        E("meta", [("http-equiv", "Content-Type"), ("content", "text/html; CHARSET=koi8-r")], [])]),
        E("body", [], [E("p", [], [T("Привет, мир")])])])], True), ["text/html; CHARSET=%s"], ["utf-8", "cp1251"]),
    ("fixed-charset-spaces", ("e", "[document]", None, [], [E("html", [], [E("head", [], [
        E("meta", [("content", "text/html; charset = koi8-r"), ("http-equiv", "content-type")], [])]),
        E("body", [], [E("p", [], [T("Привет, мир")])])])], True), ["text/html; charset = %s"], ["utf-8", "iso-8859-5"]),
    ("snowman-meta", ("e", "[document]", None, [], [E("html", [], [E("head", [], [
        E("meta", [("charset", "x-sjis")], [])]), E("body", [], [E("p", [("title", "☃\"'")], [T("☃ &#9731; <b>")])])])], True),
     ["charset"], ["ascii", "shift_jis", "utf-16", "euc_jp", "latin-1"]),
]
KNOWN_WITNESS_DOCS = {
    "c1": ("e", "[document]", None, [], [E("p", [("t", "a\x96b")], [T("x\x96y")])], True),
    "undelimited": ("e", "[document]", None, [], [E("html", [], [E("head", [], [
        E("meta", [("http-equiv", "Content-Type"), ("content", "text/html charset=koi8-r")], [])]),
        E("body", [], [E("p", [], [T("Привет")])])])], True),
}


def load_corpus():
    """corpus/C08/*.json (witnesses of repaired defects and past disagreements) + the built-in list"""
    import glob, json, os
    here = os.path.dirname(os.path.dirname(os.path.dirname(os.path.abspath(__file__))))
    out = list(CORPUS)
    seen = {c[0] for c in out}
    for p in sorted(glob.glob(os.path.join(here, "corpus", "C08", "*.json"))):
        j = json.load(open(p))
        if j["tag"] not in seen:
            out.append((j["tag"], _tuplify(j["doc"]), j.get("forms", []), j["encodings"]))
    return out


def corpus(ctx, cmds, pend):
    for tag, d, forms, encs in load_corpus():
        for route in ("built", "parsed"):
            for flavour in FLAVOURS:
                doc_case(ctx, d, forms, route, encs, cmds, pend, corpus_tag=tag, flavour=flavour)


# ----------------------------------------------------------------------------------------- run
def concrete_codecs(ctx):
    """Model/Codecs.v against str.encode / bytes.decode (see harness/cdcodecs.py); the document runs above send every
    encode()/prettify()/encode_contents() call whose target is ascii / iso-8859-1 / windows-1252 / utf-8 (any spelling
    codecs.lookup and the model agree on) to the concrete model as well."""
    cd.sweeps(ctx)
    cd.autodetect_cases(ctx)
    cd.bom_cases(ctx)
    ctx.extra_cov["concrete_codecs"] = ("ascii, iso-8859-1, windows-1252, utf-8 defined in Coq: str.encode (strict / "
                                        "xmlcharrefreplace / replace) and bytes.decode compared on all single bytes, all code "
                                        "points (encodability), random strings; whole-tree encode calls compared with no "
                                        "measured codec table (counts: cd_*)")


def documents(ctx):
    rng = ctx.rng
    cmds, pend = [], []
    corpus(ctx, cmds, pend)
    n = 1500 if ctx.thorough else 300
    sampled = False
    for i in range(n):
        d, forms = gen_doc(rng)
        route = rng.choices(["built", "parsed", "copy", "parsed-copy"], weights=[4, 4, 1, 1])[0]
        k = 4 if ctx.thorough else 3
        encs = []
        for grp, cnt in ((SINGLE, 1), (MULTI, 1), (WIDE, 1), (SINGLE + MULTI + STATEFUL, k - 3)):
            for _ in range(cnt):
                base = rng.choice(grp)
                encs.append(rng.choice(SPELLINGS.get(base, [base])))
        if rng.random() < 0.15:
            encs.append("ascii")
        doc_case(ctx, d, forms, route, encs, cmds, pend, flavour=rng.choices(FLAVOURS, weights=[3, 1])[0])
        if not sampled and forms and i > 3:
            ctx.sample({"document": write_markup(d)[:300], "route": route, "encodings": encs})
            sampled = True
        if len(cmds) > 6000:
            finish_docs(ctx, cmds, pend)
            cmds, pend = [], []
    # python-specific names: str level only (decode), the declaration disappears
    for i in range(40 if ctx.thorough else 12):
        d, forms = gen_doc(rng)
        soup = build_doc(d)
        for e in rng.sample(PYSPECIFIC_USED, 2):
            r = call(soup.decode, None, e, "minimal")
            cmds.append([8005, 0, model_node(d, soup), [e], [], 0])
            pend.append(("str", {"doc": d, "entry": "decode", "eventual_encoding": e}, r))
            ctx.case((repr(d), "pyspec", e), nontrivial=bool(forms))
            if r[0] == "ok":
                s2 = parse_str(r[1])
                for mo, mn in zip(soup.find_all("meta"), s2.find_all("meta")):
                    if is_decl_meta(mo) == "charset" and mn.get("charset") != "":
                        ctx.fail({"doc": d, "eventual_encoding": e}, "python-specific encoding named in <meta charset>",
                                 mn.get("charset"), "", tag="meta-specific")
                    if is_decl_meta(mo) == "content" and \
                            not undelimited(str(mo["content"])) and oracle_params(str(mn.get("content"))):
                        ctx.fail({"doc": d, "eventual_encoding": e}, "python-specific encoding named in <meta content>",
                                 mn.get("content"), "no charset parameter", tag="meta-specific")
    # a plain (builder-less) meta tag and a later plain assignment carry no placeholder: rendered as they are
    for enc in ("koi8-r", "utf-16"):
        d = ("e", "[document]", None, [], [("e", "meta", None, [("charset", ("s", "x-sjis"))], [], False),
                                           E("meta", [("charset", "x-sjis")], [])], True)
        soup = build_doc(d)
        doc_case(ctx, d, ["charset"], "built", [enc], cmds, pend)
    finish_docs(ctx, cmds, pend)


def run(ctx):
    import time
    steps = [documents, subst_cases, install_cases, encode_cases, reader_cases, concrete_codecs]      # documents: the corpus runs first
    if not ctx.search_mode:
        steps.insert(0, lower_check)
    for fn in steps:
        t0 = time.time()
        fn(ctx)
        ctx.counts["wall_s_" + fn.__name__] = round(time.time() - t0, 1)
    from props import c08_r4; c08_r4.extra(ctx)      # round 4: renderings that start with text; declarations at byte offsets
    ctx.extra_cov["exhaustive"] = True
    ctx.extra_cov["exhaustive_scope"] = ("substitute_encoding over all strings of <=4 tokens (quick: 20k of them); "
                                         "every Unicode scalar value x every codec of the set through str.encode "
                                         "(blocks); set_up_substitutions grid 4x4x4x9x2")


# ----------------------------------------------------------------------------------------- known findings
def _tag_is(*names):
    return lambda f: f.get("tag") in names


KNOWN_MATCHERS = {
    "c1_nonchar_reference": _tag_is("c1-nonchar-reference"),
    # open finding C08-autodetect-misled-by-other-bytes: only failures tagged autodetect-misled, of one of the four classes, for
    # which the named hypothesis of C08_autodetect_declared really fails on the encoded bytes (re-evaluated in Python)
    "autodetect_misled": cd.known_misled,
    "undelimited_charset_parameter": lambda f: f.get("tag") == "meta-content-undelimited" or (
        f.get("tag") == "meta-content-subst" and undelimited((f.get("case") or {}).get("original", ""))),
}


def replay_known(ctx, k):
    w = k.get("witness", {})
    if k.get("matcher") == "c1_nonchar_reference":
        soup = build_doc(KNOWN_WITNESS_DOCS["c1"])
        b = soup.encode("ascii")
        s2 = parse_str(b.decode("ascii"))
        return s2.p.get_text() != "x\x96y"
    if k.get("matcher") == "autodetect_misled":
        return cd.misled_witness_still_fails()
    if k.get("matcher") == "undelimited_charset_parameter":
        soup = build_doc(KNOWN_WITNESS_DOCS["undelimited"])
        b = soup.encode("utf-8")
        return b"koi8-r" in b
    return False


def replay(ctx, data):
    f = (data.get("failure") or {})
    case = f.get("case") or {}
    if not case and data.get("disagreements"):
        case = data["disagreements"][0].get("case") or {}
    if cd.replay(case):
        return 1
    print("what:", f.get("what") or data.get("no_longer_checks"))
    if "doc" in case and case.get("entry") in ("encode", "prettify", "encode_contents"):
        d = _tuplify(case["doc"])
        fl = case.get("flavour") or "html"
        soup = make_soup(case["markup"], fl) if str(case.get("route")).startswith("parsed") and case.get("markup") else build_doc(d, fl)
        print("builder flavour:", fl)
        if str(case.get("route")).endswith("copy"):
            soup = copy.copy(soup)
        el = find_path(soup, case.get("path") or [])
        enc = case["encoding"]
        if case["entry"] == "encode":
            kw = {"encoding": enc, "indent_level": case.get("indent_level"), "formatter": case.get("formatter")}
            if case.get("errors"):
                kw["errors"] = case["errors"]
            r = call(el.encode, **kw)
        elif case["entry"] == "prettify":
            r = call(el.prettify, enc, case.get("formatter"))
        else:
            r = call(el.encode_contents, case.get("indent_level"), enc, case.get("formatter"))
        print("document:", str(soup)[:400])
        print("%s(%r) ->" % (case["entry"], enc), r[1] if r[0] != "ok" else r[1][:400])
        if r[0] == "ok":
            try:
                t = r[1].decode(enc)
                print("decoded and re-parsed:", texts_and_attrs(parse_str(t))[:8])
                print("auto-detected:", BeautifulSoup(r[1], "html.parser").original_encoding)
            except Exception as ex:          # noqa: BLE001
                print("decode failed:", ex)
        return 1
    if "attrs" in case and "name" in case:
        fl = case.get("builder") or "html"
        attrs = {k: v for k, v in case["attrs"]}
        tag = Tag(None, make_soup("", fl).builder, case["name"], None, None, attrs)
        print("Tag(builder=%s builder, name=%r, attrs=%r) ->" % (fl, case["name"], attrs))
        for k, v in tag.attrs.items():
            print("   %s = %r  (%s)" % (k, v, type(v).__name__))
        for enc in ("koi8-r", "utf-16"):
            print("   encode(%r): %r" % (enc, call(tag.encode, enc)[1]))
        return 1
    if case.get("text_block"):
        enc, first = case["codec"], case["block_first"]
        blk = "".join(chr(c) for c in range(first, min(first + 8192 + 2048, 0x110000)) if is_scalar(c))[:8192]
        soup = BeautifulSoup("<p></p>", "html.parser")
        soup.p.string = blk
        for nm, fn in (("encode", lambda: soup.p.encode(enc)), ("encode_contents", lambda: soup.p.encode_contents(None, enc))):
            r = call(fn)
            print("%s(%r) of <p> with U+%04X.. ->" % (nm, enc, first), r[1] if r[0] != "ok" else "%d bytes" % len(r[1]))
            if r[0] == "ok":
                try:
                    r[1].decode(enc)
                    print("  decodes in", enc)
                except Exception as ex:          # noqa: BLE001
                    print("  does not decode:", ex)
        return 1
    if "original" in case:
        v, e = case["original"], case["eventual"]
        cls = ContentMetaAttributeValue if case.get("style") == "content" else CharsetMetaAttributeValue
        print("%s(%r).substitute_encoding(%r) = %r" % (cls.__name__, v, e, cls(v).substitute_encoding(e)))
        return 1
    print("case:", str(case)[:600])
    return 1


def _tuplify(x):
    if isinstance(x, list):
        return tuple(_tuplify(y) for y in x) if x and isinstance(x[0], str) and x[0] in ("t", "e", "s", "l") else [_tuplify(y) for y in x]
    return x
