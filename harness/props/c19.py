"""C19 — smart quotes and detwingle. Correspondence with coq/Model/SmartQuotes.v; direct oracle:
html.unescape / the codecs / an independent byte-level reference."""
import html, warnings
from bs4 import BeautifulSoup
from bs4.dammit import UnicodeDammit
import cdcodecs as cd

RULE = ("smart quotes: exhaustive 32 bytes x {None,ascii,xml,html} x 3 carrier encodings, alone and embedded in "
        "markup; detwingle: every Unicode scalar value as UTF-8 (quick: all, in blocks + every 17th singly; "
        "thorough: all singly), seeded random interleavings of UTF-8 text with every cp1252-defined non-lead byte, "
        "and random arbitrary byte strings (model correspondence only). Non-trivial = contains a byte >= 0x80; "
        "distinct by input bytes.")
ASSUMPTIONS = ["Python codecs windows-1252 / iso-8859-1 / iso-8859-2 (oracle tables in Gen/Stdlib.v; windows-1252 and iso-8859-1 are "
               "also defined in Coq, Model/Codecs.v, proved invertible and compared with the interpreter on every byte and code point)",
               "html.unescape as the un-escaping oracle on the implementation side",
               "the stdlib html.parser tokenizer when validating read_text"]

CARRIERS = ["windows-1252", "iso-8859-1", "iso-8859-2"]
MODES = [None, "ascii", "xml", "html"]
MODE_ID = {None: 0, "ascii": 1, "xml": 2, "html": 3}
UNDEFINED = {0x81, 0x8d, 0x8f, 0x90, 0x9d}


def cp1252(b):
    try:
        return bytes([b]).decode("windows-1252")
    except UnicodeDecodeError:
        return None


def dammit(data, carrier, mode):
    with warnings.catch_warnings():
        warnings.simplefilter("ignore")
        try:
            d = UnicodeDammit(data, known_definite_encodings=[carrier], smart_quotes_to=mode)
            return d.unicode_markup, d.original_encoding
        except Exception as e:
            return "EXC:" + type(e).__name__, None


def long_documents(ctx):
    """Whole documents holding every smart-quote byte several times (more than any small constant), through both ways
    of naming the carrier encoding, and after an unrelated earlier call that used override_encodings: every byte of the
    document must be converted, and an earlier call must not change what a later one does."""
    with warnings.catch_warnings():
        warnings.simplefilter("ignore")
        try:
            UnicodeDammit(b"caf\xe9", override_encodings=["latin-1"])     # an unrelated earlier call
        except Exception:
            pass
    body = b"".join(b"<p>" + bytes([b]) + b"-x</p>" for b in range(0x80, 0xa0)) * 2
    cmds, rows = [], []
    for carrier in CARRIERS:
        for mode in MODES:
            for route in ("known_definite_encodings", "user_encodings"):
                with warnings.catch_warnings():
                    warnings.simplefilter("ignore")
                    try:
                        d = UnicodeDammit(body, smart_quotes_to=mode, **{route: [carrier]})
                        got, enc = d.unicode_markup, d.original_encoding
                    except Exception as e:
                        got, enc = "EXC:" + type(e).__name__, None
                case = {"document": "every byte 0x80-0x9f twice, in <p> elements", "mode": mode, "carrier": carrier, "carrier_given_as": route}
                ctx.case(("sq-long", carrier, mode, route))
                if enc != carrier:
                    ctx.fail(case, "the carrier encoding named by the caller was not used", enc, carrier, tag="long-document")
                    continue
                cmds.append([190, MODE_ID[mode], carrier, body])
                rows.append((case, got))
    if ctx.build.model_ok and cmds:
        for (case, got), mv in zip(rows, ctx.model.run(cmds)):
            try:
                mt = bytes(mv).decode(case["carrier"])
            except UnicodeDecodeError:
                continue
            if mt != got:
                ctx.fail(case, "not every smart-quote byte of a long document was converted as a single one is "
                               "(compared with the model's byte-by-byte conversion, which the sweep theorem is about)",
                         got[:120] if isinstance(got, str) else got, mt[:120], tag="long-document")


def smart_quotes(ctx):
    cmds, cases = [], []
    for carrier, spelled in [(c, c) for c in CARRIERS] + [(c, v) for c in CARRIERS for v in (c.upper(), c.title())]:
        for mode in MODES:
            for b in range(0x80, 0xa0):
                for ctxname, pre, post in (("alone", b"", b""), ("markup", b"<p>a", b"z</p>")):
                    if spelled != carrier and ctxname != "alone":
                        continue
                    data = pre + bytes([b]) + post
                    got, enc = dammit(data, spelled, mode)     # encoding names are case-insensitive
                    case = {"byte": b, "mode": mode, "carrier": carrier, "context": ctxname, "spelled": spelled}
                    ctx.case(("sq", b, mode, spelled, ctxname))
                    # ---- direct oracle (property wording)
                    ch = cp1252(b)
                    if mode is None:
                        try:
                            exp = data.decode(carrier)
                        except UnicodeDecodeError:
                            exp = None        # undefined in the carrier: no denotation
                        if exp is not None and got != exp:
                            ctx.fail(case, "no conversion requested but the character itself does not appear", got, exp)
                    elif mode == "ascii":
                        sub = UnicodeDammit.MS_CHARS_TO_ASCII.get(bytes([b]))
                        exp = pre.decode() + (sub if sub is not None else "") + post.decode()
                        if sub is None or not sub.isascii() or sub == "" or got != exp:
                            ctx.fail(case, "ascii mode does not yield the documented plain substitute", got, exp)
                    else:
                        if isinstance(got, str) and not got.startswith("EXC:"):
                            un = html.unescape(got[len(pre):len(got) - len(post)]) if post else html.unescape(got)
                        else:
                            un = got
                        if ch is not None:
                            if un != ch:
                                ctx.fail(case, "un-escaping the substitution does not give the Windows-1252 character", got, ch)
                        else:
                            plain = UnicodeDammit.MS_CHARS.get(bytes([b]))
                            if not isinstance(plain, str) or un != plain:
                                ctx.fail(case, "undefined byte not replaced by its plain substitute", got, plain)
                    if enc is not None and mode is not None and enc != carrier:
                        ctx.fail(case, "declared carrier encoding not used", enc, carrier)
                    cmds.append([190, MODE_ID[mode], carrier, data])
                    cases.append((case, data, got, carrier))
    ctx.sample({"smart_quote_case": cases[77][0], "impl": cases[77][2]})
    if ctx.build.model_ok:
        res = ctx.model.run(cmds)
        reads = []
        for (case, data, got, carrier), mv in zip(cases, res):
            mb = bytes(mv)
            try:
                mt = mb.decode(carrier)
            except UnicodeDecodeError:
                mt = None
            if mt is None:
                continue      # strict decoding fails: the implementation moves on to other candidates
            if mt != got:
                ctx.disagree("_convert_from smart-quote step ~ Model.SmartQuotes.convert_smart_quotes", case, got, mt)
            elif case["context"] == "alone" and case["mode"] in ("xml", "html"):
                reads.append((case, mt))
        # the reader used by the sweep theorem vs the real parser
        rr = ctx.model.run([[192, t] for _, t in reads])
        for (case, t), mv in zip(reads, rr):
            soup = BeautifulSoup("<p>" + t + "</p>", "html.parser")
            real = soup.p.get_text()
            mt = "".join(chr(c) for c in mv)
            ctx.traces_validated += 1
            if real != mt:
                ctx.disagree("html.parser text reading ~ Base.Reader.read_text", dict(case, text=t), real, mt)


def convertible_bytes():
    return [b for b in range(0x80, 0x100) if not (0xc2 <= b <= 0xf4) and cp1252(b) is not None]


def detwingle_impl(bs):
    try:
        return UnicodeDammit.detwingle(bs)
    except Exception as e:
        return "EXC:" + type(e).__name__


def detwingle(ctx):
    # (a) every scalar value
    singles = range(0x110000) if ctx.thorough else range(0, 0x110000, 17)
    n = 0
    for cp in singles:
        if 0xd800 <= cp <= 0xdfff:
            continue
        bs = chr(cp).encode("utf-8")
        n += 1
        if detwingle_impl(bs) != bs:
            ctx.fail({"scalar": cp}, "valid UTF-8 changed by detwingle", repr(detwingle_impl(bs)), repr(bs))
    ctx.evaluations += n
    ctx.count("scalar_values_singly", n)
    block = []
    for cp in range(0x110000):
        if 0xd800 <= cp <= 0xdfff:
            continue
        block.append(chr(cp))
        if len(block) == 4096:
            bs = "".join(block).encode("utf-8")
            ctx.case(("blk", cp))
            if detwingle_impl(bs) != bs:
                ctx.fail({"scalar_block_ending": cp}, "valid UTF-8 block changed by detwingle")
            block = []
    ctx.count("scalar_values_in_blocks", 0x110000 - 2048)
    # (b) interleavings
    rng = ctx.rng
    conv = convertible_bytes()
    pools = [list(range(0x20, 0x7f)), list(range(0xa0, 0x800)), list(range(0x800, 0xd800)),
             list(range(0xe000, 0x10000)), [0x10000, 0x1f600, 0x10ffff, 0x7f, 0x80, 0x7ff, 0x800, 0xffff]]
    cmds, cases = [], []
    count = 6000 if ctx.thorough else 1500
    # every convertible byte at least once, in three surroundings
    fixed = []
    for b in conv:
        fixed.append([("e", b)])
        fixed.append([("c", 0x41), ("e", b), ("c", 0xe9)])
        fixed.append([("c", 0x20ac), ("e", b), ("e", b), ("c", 0x1f600)])
    for k in range(count + len(fixed)):
        if k < len(fixed):
            segs = fixed[k]
        else:
            segs = []
            for _ in range(rng.randint(1, 12)):
                if rng.random() < 0.35:
                    segs.append(("e", rng.choice(conv)))
                else:
                    segs.append(("c", rng.choice(rng.choice(pools))))
        raw = b"".join(bytes([v]) if t == "e" else chr(v).encode("utf-8") for t, v in segs)
        exp = "".join(cp1252(v) if t == "e" else chr(v) for t, v in segs).encode("utf-8")
        got = detwingle_impl(raw)
        case = {"segments": segs, "raw": list(raw)}
        ctx.case(("seg", raw), nontrivial=any(t == "e" for t, _ in segs))
        if got != exp:
            ctx.fail(case, "embedded Windows-1252 byte not converted to its character / surrounding text changed",
                     list(got) if isinstance(got, bytes) else got, list(exp))
        cmds.append([191, raw]); cases.append((case, got))
    ctx.sample({"detwingle_case": cases[len(fixed) + 3][0]})
    # (c) arbitrary bytes: correspondence only
    for _ in range(3000 if ctx.thorough else 800):
        raw = bytes(rng.choice([rng.randrange(256), rng.randrange(0x80, 0x100), rng.randrange(0xc0, 0x100)])
                    for _ in range(rng.randint(0, 10)))
        got = detwingle_impl(raw)
        ctx.case(("raw", raw), nontrivial=any(b >= 0x80 for b in raw))
        cmds.append([191, raw]); cases.append(({"raw": list(raw)}, got))
    if ctx.build.model_ok:
        res = ctx.model.run(cmds)
        for (case, got), mv in zip(cases, res):
            g = list(got) if isinstance(got, bytes) else got
            if g != mv:
                ctx.disagree("detwingle ~ Model.SmartQuotes.detwingle", case, g, mv)


def codec_relation(ctx):
    """The library's Windows-1252 tables against the codec (direct oracle: the interpreter's windows-1252, html.unescape),
    the Coq codecs against the interpreter on every single byte, and UnicodeDammit(data, [carrier]) with no conversion
    requested against the fully concrete model (Model.Codecs.c_dammit: decoders defined in Coq) on every single byte."""
    # (a) MS_CHARS: keys exactly 0x80..0x9f; (name, hex) exactly where windows-1252 defines the byte
    keys = sorted(UnicodeDammit.MS_CHARS)
    if keys != [bytes([b]) for b in range(0x80, 0xa0)]:
        ctx.fail({"table": "MS_CHARS"}, "keys are not exactly the bytes 0x80-0x9f", [k.hex() for k in keys], "80..9f", tag="ms-chars-table")
    for b in range(0x80, 0xa0):
        ent = UnicodeDammit.MS_CHARS.get(bytes([b]))
        ch = cp1252(b)
        ctx.case(("ms-entry", b))
        if ch is None:
            ok = isinstance(ent, str) and ent.isascii() and ent != ""
        else:
            ok = (isinstance(ent, tuple) and len(ent) == 2 and ent[1] != "" and
                  all(c in "0123456789abcdefABCDEF" for c in ent[1]) and int(ent[1], 16) == ord(ch) and
                  html.unescape("&" + ent[0] + ";") == ch)
        if not ok:
            ctx.fail({"table": "MS_CHARS", "byte": b}, "entry does not denote the byte's Windows-1252 character "
                     "(or is not a plain substitute for an undefined byte)", repr(ent), repr(ch), tag="ms-chars-table")
    # (b) WINDOWS_1252_TO_UTF8: one entry per defined byte >= 0x80; the UTF-8 of its character wherever detwingle can reach it
    w = UnicodeDammit.WINDOWS_1252_TO_UTF8
    exp_keys = sorted(b for b in range(0x80, 0x100) if cp1252(b) is not None)
    if sorted(w) != exp_keys:
        ctx.fail({"table": "WINDOWS_1252_TO_UTF8"}, "keys are not exactly the bytes >= 0x80 that Windows-1252 defines",
                 sorted(set(w) ^ set(exp_keys)), [], tag="w1252-table")
    wrong = [b for b in exp_keys if b in w and w[b] != cp1252(b).encode("utf-8")]
    ctx.count("w1252_entries_not_utf8_of_character", len(wrong))
    for b in wrong:
        if not (0xc2 <= b <= 0xf4):           # a lead byte is copied with its sequence and never looked up
            ctx.fail({"table": "WINDOWS_1252_TO_UTF8", "byte": b}, "reachable entry is not the UTF-8 encoding of the character",
                     list(w[b]), list(cp1252(b).encode("utf-8")), tag="w1252-table")
    ctx.extra_cov["w1252_unreachable_wrong_entries"] = wrong
    # (c) the Coq codecs on all single bytes / code points
    cd.sweeps(ctx, names=True, single=True, decode=False, encode=False)
    # (d) end to end, no conversion requested: every byte, alone and in markup, each carrier the model defines
    if not ctx.build.model_ok or not cd.chardet_absent():
        return
    todo, cmds = [], []
    for carrier in ("windows-1252", "iso-8859-1", "latin-1", "cp1252"):
        for b in range(256):
            for data in (bytes([b]), b"<p>a" + bytes([b]) + b"z</p>"):
                obs = cd.observe_dammit(data, [carrier], [], [], [], True)
                if not cd.case_supported(ctx, data, [carrier]):
                    continue
                case = {"data_hex": data.hex(), "known": [carrier], "user": [], "exclude": [], "override": [], "is_html": True,
                        "api": "UnicodeDammit", "concrete": True}
                ctx.case(("cd-carrier", carrier, data))
                todo.append((case, obs))
                cmds.append(cd.dammit_cmd(data, [carrier], [], [], [], True))
    ctx.count("cd_carrier_cases", len(todo))
    for (case, obs), mv in zip(todo, ctx.model.run(cmds)):
        cd.compare_dammit(ctx, case, obs, mv)


def run(ctx):
    long_documents(ctx)
    smart_quotes(ctx)
    detwingle(ctx)
    codec_relation(ctx)
    from props import c19_r4; c19_r4.extra(ctx)      # round 4: call spellings
    ctx.extra_cov["exhaustive"] = True
    ctx.extra_cov["exhaustive_scope"] = "smart-quote sweep 32x4x3 (x2 contexts); all scalar values through detwingle"


def replay(ctx, data):
    f = (data.get("failure") or {}).get("case") or ((data.get("disagreements") or [{}])[0].get("case")) or {}
    if cd.replay(f):
        return 1
    if f.get("table"):
        print("table entry:", f, "MS_CHARS:", UnicodeDammit.MS_CHARS.get(bytes([f["byte"]])) if "byte" in f else None,
              "WINDOWS_1252_TO_UTF8:", UnicodeDammit.WINDOWS_1252_TO_UTF8.get(f.get("byte")), "cp1252:", cp1252(f["byte"]) if "byte" in f else None)
        return 1
    if "byte" in f:
        got, _ = dammit(bytes([f["byte"]]), f.get("spelled", f["carrier"]), f["mode"])
        print("byte=%#x mode=%r carrier=%s -> %r ; cp1252 char %r" % (f["byte"], f["mode"], f["carrier"], got, cp1252(f["byte"])))
        return 1
    if "raw" in f:
        raw = bytes(f["raw"])
        print("detwingle(%r) = %r" % (raw, detwingle_impl(raw)))
        return 1
    print("nothing to replay in", data.get("kind"))
    return 1
