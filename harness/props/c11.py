"""C11 — working with a tree never recurses on its depth.

Correspondence: for every operation x tree, the maximum number of simultaneously active frames of the
tree code (functions of bs4/element.py, bs4/__init__.py, bs4/filter.py), measured with sys.setprofile,
against coq/Model/Depth.v.  Direct oracle (independent of the model): the call depth of every operation
(all Python frames, and all bs4 frames) is the same at nesting depth d and 2d for every shape family, and
nothing raises RecursionError on documents nested far beyond the interpreter's recursion limit.
"""
import copy, os, pickle, re, subprocess, sys, warnings
import common
import bs4
from bs4 import BeautifulSoup
from bs4.element import (Tag, NavigableString, Comment, CData, ProcessingInstruction, Doctype, Declaration,
                         XMLProcessingInstruction, Stylesheet, Script, TemplateString, RubyTextString,
                         RubyParenthesisString, CharsetMetaAttributeValue, ContentMetaAttributeValue)
from bs4.formatter import HTMLFormatter
from bs4.builder._htmlparser import HTMLParserTreeBuilder

RULE = ("trees: the property's shape families (pure chain, text inside, trailing text, trailing sibling, leading text, "
        "alternating names, attributes at every level, repeated sub-structure, pre/script nesting) and seeded random "
        "nesting templates (random siblings before/after the hole, random names/attributes/comments), each at depth d and "
        "2d (d=80 quick, 200 thorough) and at 1500 (quick) / 3000 and 6000 (thorough); seeded random small documents "
        "(<=40 elements) and hand-built trees of directly constructed Tag objects (unknown XML-ness, prefixes, empty "
        "strings); the families are also parsed under three other builder configurations (tag names in both "
        "preserve_whitespace_tags and string_containers, custom container classes in disjoint sets, empty option sets "
        "with multi_valued_attributes=None) and pickled / copied / rendered / searched at d, 2d and 1500 (oracle). operations: parse, decode/encode/prettify/decode_contents/str under minimal, html, None and object "
        "formatters, copy, deepcopy, pickle dumps/loads, get_text/stripped_strings/.string, find_all/find on 20 criteria "
        "(fast paths, names, lists, attributes, string, name+string, functions, patterns, limit, recursive=False), the five "
        "other search axes, the CSS entry points (select/select_one/css.iselect/compile/closest/match/filter; growth oracle only), the iterators, and extract/decompose/insert/append/extend/insert_before/insert_after/"
        "replace_with/wrap/unwrap/clear/.string=/smooth/new_string. Non-trivial: nesting depth >= 2. Distinct by "
        "(tree, target, operation).")
ASSUMPTIONS = [
    "call depth is a runtime quantity: the theorems are about the call-structure model (frames of functions of "
    "bs4/element.py, bs4/__init__.py, bs4/filter.py); frames of the standard library (html.parser, pickle, copy, re, "
    "typing.cast, importlib), of bs4/formatter.py, bs4/dammit.py and bs4/builder/ are not in the model and are only "
    "measured by the oracle (same depth at d and 2d, no RecursionError past the limit)",
    "the callbacks html.parser delivers are recorded inputs of the parse model",
    "user functions / patterns used as search criteria are constant functions / literal patterns in the generator",
    "the kind of an inserted argument (plain str / parentless element / attached element / element already at the "
    "requested position / BeautifulSoup object with its children's kinds) is classified by the harness from the state "
    "before the call and is an input of the model",
    "soupsieve's internals are third-party code and not modelled: the CSS entry points of bs4/css.py are exercised by the "
    "growth / RecursionError oracle only (from the document, the middle and the innermost element); parse_only strainers and bytes input (UnicodeDammit) are not "
    "in the parse model",
]

BS4DIR = os.path.dirname(os.path.abspath(bs4.__file__))
FILES3 = {os.path.join(BS4DIR, "element.py"), os.path.join(BS4DIR, "__init__.py"), os.path.join(BS4DIR, "filter.py")}
ADAPTER = os.path.join(BS4DIR, "builder", "_htmlparser.py")
CB_NAMES = {"handle_startendtag", "handle_starttag", "handle_endtag", "handle_data", "handle_charref",
            "handle_entityref", "handle_comment", "handle_decl", "unknown_decl", "handle_pi"}
STRING_CLASSES = [NavigableString, CData, ProcessingInstruction, XMLProcessingInstruction, Comment, Declaration,
                  Doctype, Stylesheet, Script, TemplateString, RubyTextString, RubyParenthesisString]


# ------------------------------------------------------------------------------------------ measuring
class Measure:
    """max simultaneous frames: tree code (3 files), all of bs4, all Python frames; optional callback record."""
    __slots__ = ("d3", "m3", "db", "mb", "da", "ma", "cbs", "record", "error", "result", "stack3", "maxstack3")

    def __init__(self, record=False):
        self.d3 = self.m3 = self.db = self.mb = self.da = self.ma = 0
        self.cbs = []
        self.record = record
        self.error = None
        self.result = None
        self.stack3 = []
        self.maxstack3 = None

    def __call__(self, frame, event, arg):
        if event == "call":
            code = frame.f_code
            fn = code.co_filename
            self.da += 1
            if self.da > self.ma:
                self.ma = self.da
            if fn.startswith(BS4DIR):
                self.db += 1
                if self.db > self.mb:
                    self.mb = self.db
                if fn in FILES3:
                    self.d3 += 1
                    self.stack3.append(code.co_name)
                    if self.d3 > self.m3:
                        self.m3 = self.d3
                        self.maxstack3 = list(self.stack3)
                elif self.record and fn == ADAPTER and code.co_name in CB_NAMES:
                    back = frame.f_back
                    if back is not None and not back.f_code.co_filename.startswith(BS4DIR):
                        loc = frame.f_locals
                        n = code.co_name
                        if n == "handle_startendtag":
                            self.cbs.append([0, loc["name"], [[k, v if v is not None else ""] for k, v in loc["attrs"]], True])
                        elif n == "handle_starttag":
                            self.cbs.append([0, loc["name"], [[k, v if v is not None else ""] for k, v in loc["attrs"]], False])
                        elif n == "handle_endtag":
                            self.cbs.append([1, loc["name"]])
                        elif n in ("handle_data", "handle_charref", "handle_entityref"):
                            self.cbs.append([2])
                        else:
                            self.cbs.append([3])
        elif event == "return":
            fn = frame.f_code.co_filename
            if self.da > 0:
                self.da -= 1
            if fn.startswith(BS4DIR):
                if self.db > 0:
                    self.db -= 1
                if fn in FILES3 and self.d3 > 0:
                    self.d3 -= 1
                    self.stack3.pop()


def measure(f, record=False):
    m = Measure(record)
    sys.setprofile(m)
    try:
        try:
            m.result = f()
        except RecursionError:
            m.error = "RecursionError"
        except ValueError as e:
            m.error = "ValueError"
        except Exception as e:          # anything else an operation raises is reported as such
            m.error = type(e).__name__
    finally:
        sys.setprofile(None)
    return m


def plain(f):
    """run without profiling; returns (error or None, result)"""
    try:
        return None, f()
    except RecursionError:
        return "RecursionError", None
    except Exception as e:
        return type(e).__name__, None


# ------------------------------------------------------------------------------------------ trees -> s-expressions
def s_str(s):
    return "(" + " ".join(str(ord(c)) for c in s) + ")"


def s_aval(v):
    if v is None:
        return "(4)"
    if isinstance(v, CharsetMetaAttributeValue):
        return "(2 %s)" % s_str(v)
    if isinstance(v, ContentMetaAttributeValue):
        return "(3 %s)" % s_str(v)
    if isinstance(v, (list, tuple)):
        return "(1 (%s))" % " ".join(s_str(x) for x in v)
    return "(0 %s)" % s_str(str(v))


def s_open(el):
    """text of an element's s-expression up to its (still open) child list"""
    kx = el.known_xml
    return "(1 %s %s (%s) %s %d %d %d (" % (
        s_str(el.name), "()" if el.prefix is None else "(%s)" % s_str(el.prefix),
        " ".join("(%s %s)" % (s_str(str(k)), s_aval(v)) for k, v in el.attrs.items()),
        "()" if kx is None else ("(1)" if kx else "(0)"),
        1 if el.can_be_empty_element is True else 0, 1 if el.hidden else 0, 1 if isinstance(el, BeautifulSoup) else 0)


def s_elem(root):
    """iterative (the trees are nested deeper than the recursion limit)"""
    out = []
    stack = [(root, 0)]
    while stack:
        el, i = stack.pop()
        if isinstance(el, NavigableString):
            cls = type(el)
            out.append("(0 %d %s)" % (STRING_CLASSES.index(cls) if cls in STRING_CLASSES else 0, s_str(el)))
            continue
        if i == 0:
            out.append(s_open(el))
        if i < len(el.contents):
            stack.append((el, i + 1))
            stack.append((el.contents[i], 0))
        else:
            out.append("))")
    return " ".join(out)


def path_of(root, el):
    p = []
    while el is not root:
        par = el.parent
        p.append(par.index(el))
        el = par
    return p[::-1]


def s_list(xs):
    return "(" + " ".join(xs) + ")"


def s_path(p):
    return s_list(str(i) for i in p)


def s_rule(r):
    k, v = r
    if k == "s":
        return "(0 %s)" % s_str(v)
    if k == "b":
        return "(1 %d)" % (1 if v else 0)
    if k == "f":
        return "(2 %d)" % (1 if v else 0)
    return "(3 %s)" % s_str(v)


def s_spec(sp):
    if sp is None:
        return "()"
    if sp[0] == "l":
        return "(2 (%s))" % " ".join(s_str(x) for x in sp[1])
    return "(1 %s)" % s_rule(sp)


def s_crit(c):
    return "(%s (%s) %s %s %d)" % (s_spec(c.get("name")),
                                   " ".join("(%s %s)" % (s_str(k), s_spec(v)) for k, v in c.get("attrs", [])),
                                   s_spec(c.get("string")),
                                   "()" if c.get("limit") is None else "(%d)" % c["limit"],
                                   1 if c.get("recursive", True) else 0)


def py_kwargs(c):
    """the find_all keyword arguments a model criterion stands for"""
    def val(sp):
        if sp is None:
            return None
        k, v = sp
        if k == "l":
            return list(v)
        if k == "s":
            return v
        if k == "b":
            return v
        if k == "f":
            return (lambda x, _r=v: _r)
        return re.compile(re.escape(v))
    kw = {}
    if c.get("name") is not None:
        kw["name"] = val(c["name"])
    if c.get("attrs"):
        kw["attrs"] = {k: val(v) for k, v in c["attrs"]}
    if c.get("string") is not None:
        kw["string"] = val(c["string"])
    if c.get("limit") is not None:
        kw["limit"] = c["limit"]
    if not c.get("recursive", True):
        kw["recursive"] = False
    return kw


def model_lines(ctx, lines):
    """run pre-encoded command lines through build/modelrun"""
    if not lines:
        return []
    p = subprocess.run([ctx.model.exe], input=("\n".join(lines) + "\n").encode(), stdout=subprocess.PIPE,
                       stderr=subprocess.PIPE, timeout=1800, preexec_fn=common._unlimit_stack)
    if p.returncode != 0:
        raise RuntimeError("modelrun failed: rc=%s %s" % (p.returncode, p.stderr.decode()[-300:]))
    out = p.stdout.decode().split("\n")
    if out and out[-1] == "":
        out.pop()
    if len(out) != len(lines):
        raise RuntimeError("modelrun returned %d lines for %d commands" % (len(out), len(lines)))
    ctx.model.calls += len(lines)
    return [("ERR", ln) if ln.startswith("ERR") else common.dec(ln) for ln in out]


# ------------------------------------------------------------------------------------------ shape families
def family_markup(name, d):
    if name == "chain":
        return "<a>" * d + "</a>" * d
    if name == "text_inside":
        return "<a>" * d + "x" + "</a>" * d
    if name == "trailing_text":
        return "<a>" * d + "</a>x" * d
    if name == "trailing_sibling":
        return "<a>" * d + "</a><b></b>" * d
    if name == "leading_text":
        return "<a>y" * d + "</a>" * d
    if name == "alternating":
        return "".join("<a>" if i % 2 == 0 else "<b>" for i in range(d)) + \
               "".join("</a>" if i % 2 == 0 else "</b>" for i in reversed(range(d)))
    if name == "attributes":
        return '<a class="c d" id="i&amp;j" title="t">' * d + "z" + "</a>" * d
    if name == "repeated":
        return "<div><p>t</p><p>t</p>" * d + "</div><p>t</p>" * d
    if name == "pre_nesting":
        return "<pre><span>" * d + " x\n " + "</span></pre> " * d
    if name == "same_after":
        return "<a><a></a>" * d + "</a><a></a>" * d
    if name == "pre_chain":
        return "<pre>" * d + " x\n" + "</pre>" * d
    raise ValueError(name)


FAMILIES = ["chain", "text_inside", "trailing_text", "trailing_sibling", "leading_text", "alternating", "attributes",
            "repeated", "pre_nesting", "same_after", "pre_chain"]


def random_template(rng):
    """(before, open, after-close): one nesting level with random siblings around the hole"""
    def sib():
        r = rng.random()
        if r < 0.3:
            return rng.choice(["t", " u ", "x&amp;y", "\n"])
        if r < 0.4:
            return "<!--c-->"
        if r < 0.5:
            return "<br>"
        n = rng.choice(["b", "i", "p", "a", "span"])
        return "<%s%s>%s</%s>" % (n, rng.choice(["", ' id="q"', ' class="k l"']), rng.choice(["", "w", "<i></i>"]), n)
    name = rng.choice(["a", "div", "span", "section", "pre", "td", "a"])
    attrs = rng.choice(["", "", ' class="c"', ' id="i" rel="nofollow x"', ' data-x="1&amp;2"'])
    before = "".join(sib() for _ in range(rng.choice([0, 0, 1, 2])))
    inside_before = "".join(sib() for _ in range(rng.choice([0, 0, 1])))
    inside_after = "".join(sib() for _ in range(rng.choice([0, 1, 1, 2])))
    after = "".join(sib() for _ in range(rng.choice([0, 0, 1])))
    return (before + "<%s%s>" % (name, attrs) + inside_before, inside_after + "</%s>" % name + after)


def template_markup(tpl, d):
    return tpl[0] * d + "core" + tpl[1] * d


# ------------------------------------------------------------------------------------------ operations
FMT_OBJ = HTMLFormatter(indent=2)
CRITERIA = [
    {}, {"name": ("b", True)}, {"name": ("s", "a")}, {"name": ("s", "x:y")}, {"name": ("l", ["a", "b"])},
    {"name": ("s", "a"), "limit": 1}, {"name": ("s", "a"), "limit": 0}, {"attrs": [("id", ("s", "zz"))]},
    {"name": ("s", "a"), "attrs": [("class", ("s", "c"))]}, {"attrs": [("id", ("b", True))]},
    {"attrs": [("class", ("s", "c d"))]}, {"string": ("s", "t")}, {"name": ("s", "a"), "string": ("s", "x")},
    {"name": ("b", True), "string": ("r", "o")},
    {"name": ("f", False)}, {"name": ("f", True)}, {"name": ("r", "a")}, {"string": ("f", True)},
    {"name": ("s", "a"), "recursive": False}, {"attrs": [("id", ("b", True))], "recursive": False},
    {"name": ("l", ["p", "i"]), "attrs": [("id", ("b", False)), ("class", ("r", "k"))]},
]
AXES = [("find_all_next", "find_next", 0), ("find_all_previous", "find_previous", 1),
        ("find_parents", "find_parent", 2), ("find_next_siblings", "find_next_sibling", 3),
        ("find_previous_siblings", "find_previous_sibling", 4)]
ITERS = [("descendants", 0), ("self_and_descendants", 1), ("children", 2), ("next_elements", 3),
         ("previous_elements", 3), ("next_siblings", 3), ("previous_siblings", 3), ("parents", 3),
         ("self_and_next_elements", 4), ("self_and_previous_elements", 4), ("self_and_next_siblings", 4),
         ("self_and_previous_siblings", 4), ("self_and_parents", 4)]


def readonly_ops(root, el, rng, few=False):
    """[(name, callable, model command text without the root)] for operations that do not change the tree"""
    ops = []
    p = s_path(path_of(root, el))
    is_tag = isinstance(el, Tag)
    if is_tag:
        fmts = [("minimal", "(0 1)"), ("html", "(0 1)"), (None, "(0 0)"), (FMT_OBJ, "(1 1)")]
        if few:
            fmts = fmts[:1] + fmts[2:3]
        for f, sf in fmts:
            fname = f if isinstance(f, (str, type(None))) else "object"
            ops.append(("decode[%s]" % fname, lambda f=f: el.decode(formatter=f), "(0 %s 0 0 %s 1)" % (p, sf)))
            ops.append(("decode[%s,indent]" % fname, lambda f=f: el.decode(indent_level=0, formatter=f), "(0 %s 0 1 %s 1)" % (p, sf)))
        ops.append(("decode[encoding=None]", lambda: el.decode(eventual_encoding=None), "(0 %s 0 0 (0 1) 0)" % p))
        ops.append(("decode[encoding=idna]", lambda: el.decode(eventual_encoding="idna"), "(0 %s 0 0 (0 1) 2)" % p))
        ops.append(("encode", lambda: el.encode(), "(0 %s 1 0 (0 1) 1)" % p))
        ops.append(("prettify", lambda: el.prettify(), "(0 %s 2 1 (0 1) 1)" % p))
        ops.append(("prettify[bytes]", lambda: el.prettify("utf-8"), "(0 %s 3 1 (0 1) 1)" % p))
        ops.append(("decode_contents", lambda: el.decode_contents(), "(0 %s 4 0 (0 1) 1)" % p))
        ops.append(("encode_contents", lambda: el.encode_contents(), "(0 %s 5 0 (0 1) 1)" % p))
        ops.append(("str", lambda: str(el), "(0 %s 6 0 (0 1) 1)" % p))
        ops.append(("stripped_strings", lambda: list(el.stripped_strings), "(3 %s 1)" % p))
        ops.append((".string", lambda: el.string, "(3 %s 2)" % p))
        crits = CRITERIA if not few else [CRITERIA[i] for i in (0, 2, 7, 12, 14)]
        for c in crits:
            kw = py_kwargs(c)
            ops.append(("find_all%r" % (c,), lambda kw=kw: el.find_all(**kw), "(4 %s %s 0)" % (p, s_crit(c))))
            if "limit" not in c:
                ops.append(("find%r" % (c,), lambda kw=kw: el.find(**kw), "(4 %s %s 1)" % (p, s_crit(c))))
        ops.append((".b", lambda: el.b, "(4 %s %s 2)" % (p, s_crit({"name": ("s", "b")}))))
        ops.append(("call('a')", lambda: el("a"), "(4 %s %s 3)" % (p, s_crit({"name": ("s", "a")}))))
    ops.append(("get_text", lambda: el.get_text(), "(3 %s 0)" % p))
    ops.append(("copy", lambda: copy.copy(el), "(1 %s 0)" % p))
    ops.append(("deepcopy", lambda: copy.deepcopy(el), "(1 %s 1)" % p))
    for nm, k in ITERS:
        if k <= 2 and not is_tag:
            continue
        ops.append(("list(%s)" % nm, lambda nm=nm: list(getattr(el, nm)), "(6 %s %d)" % (p, k)))
    if el is not root:
        linked = 1 if root.next_element is not None else 0
        crits = [CRITERIA[i] for i in ((2, 0, 9, 11, 14, 5) if not few else (2, 9))]
        for c in crits:
            kw = py_kwargs(c)
            for allm, onem, ax in AXES:
                if ax == 2 and "string" in kw:
                    continue
                ops.append(("%s%r" % (allm, c), lambda kw=kw, allm=allm: getattr(el, allm)(**kw),
                            "(5 %s %d %s 0 %d)" % (p, ax, s_crit(c), linked)))
                if "limit" not in kw:
                    ops.append(("%s%r" % (onem, c), lambda kw=kw, onem=onem: getattr(el, onem)(**kw),
                                "(5 %s %d %s 1 %d)" % (p, ax, s_crit(c), linked)))
    return ops


# editing operations: name -> (applicable(el, root), callable(soup, el), model command tail)
def edit_ops():
    def fresh_tag(s):
        return s.new_tag("q") if isinstance(s, BeautifulSoup) else Tag(name="q")
    E = []
    E.append(("extract", lambda el, r: el is not r, lambda s, el: el.extract(), "0"))
    E.append(("decompose", lambda el, r: el is not r, lambda s, el: el.decompose(), "1"))
    E.append(("insert(0,str,tag)", lambda el, r: isinstance(el, Tag), lambda s, el: el.insert(0, "x", fresh_tag(s)), "2 ((0) (1))"))
    E.append(("insert(1,tag)", lambda el, r: isinstance(el, Tag), lambda s, el: el.insert(1, fresh_tag(s)), "2 ((1))"))
    E.append(("append(str)", lambda el, r: isinstance(el, Tag), lambda s, el: el.append("x"), "3 (0)"))
    E.append(("append(tag)", lambda el, r: isinstance(el, Tag), lambda s, el: el.append(fresh_tag(s)), "3 (1)"))
    E.append(("append(NavigableString)", lambda el, r: isinstance(el, Tag), lambda s, el: el.append(Comment("c")), "3 (1)"))
    E.append(("extend([str,tag])", lambda el, r: isinstance(el, Tag), lambda s, el: el.extend(["x", fresh_tag(s)]), "4 ((0) (1))"))
    E.append(("insert_before(tag,str)", lambda el, r: el is not r, lambda s, el: el.insert_before(fresh_tag(s), "x"), "5 ((1) (0))"))
    E.append(("insert_after(str,tag)", lambda el, r: el is not r, lambda s, el: el.insert_after("x", fresh_tag(s)), "5 ((0) (1))"))
    E.append(("replace_with(tag,str)", lambda el, r: el is not r, lambda s, el: el.replace_with(fresh_tag(s), "x"), "6 ((1) (0))"))
    E.append(("wrap", lambda el, r: el is not r, lambda s, el: el.wrap(fresh_tag(s)), "7"))
    E.append(("unwrap", lambda el, r: el is not r and isinstance(el, Tag), lambda s, el: el.unwrap(), "8"))
    E.append(("clear", lambda el, r: isinstance(el, Tag), lambda s, el: el.clear(), "9 0"))
    E.append(("clear(decompose)", lambda el, r: isinstance(el, Tag), lambda s, el: el.clear(decompose=True), "9 1"))
    E.append((".string=", lambda el, r: isinstance(el, Tag), lambda s, el: setattr(el, "string", "x"), "10"))
    E.append(("smooth", lambda el, r: isinstance(el, Tag), lambda s, el: el.smooth(), "11"))
    E.append(("index", lambda el, r: isinstance(el, Tag) and len(el.contents) > 0, lambda s, el: el.index(el.contents[-1]), "13"))

    # arguments that are already part of a tree
    def other(r, el):
        """first element in document order that is not el, not the root and not an ancestor of el"""
        anc = set(id(p) for p in el.parents)
        for x in r.descendants:
            if x is not el and id(x) not in anc:
                return x
        return None
    has_other = lambda el, r: isinstance(el, Tag) and other(r, el) is not None
    E.append(("append(existing element)", has_other, lambda s, el: el.append(other(s, el)), "3 (2 0)"))
    E.append(("insert(i, child already at i)", lambda el, r: isinstance(el, Tag) and len(el.contents) > 0,
              lambda s, el: el.insert(len(el.contents) - 1, el.contents[-1]), "2 ((2 1))"))
    def with_prep(prep, f):
        f.prep = prep
        return f
    E.append(("append(BeautifulSoup)", lambda el, r: isinstance(el, Tag),
              with_prep(lambda: BeautifulSoup("<i>x</i>y", "html.parser"), lambda s, el, arg: el.append(arg)),
              "3 (3 ((2 0) (2 0)))"))
    E.append(("insert(0, empty BeautifulSoup)", lambda el, r: isinstance(el, Tag),
              with_prep(lambda: BeautifulSoup("", "html.parser"), lambda s, el, arg: el.insert(0, arg)), "2 ((3 ()))"))
    E.append(("extend(Tag)", lambda el, r: has_other(el, r) and isinstance(other(r, el), Tag) and len(other(r, el).contents) > 0
              and all(p is not el for p in other(r, el).parents) and other(r, el) is not el,
              lambda s, el: el.extend(other(s, el)), None))
    E.append(("insert_before(existing element)", lambda el, r: el is not r and has_other(el, r) if isinstance(el, Tag) else
              (el is not r and other(r, el) is not None),
              lambda s, el: el.insert_before(other(s, el)), "5 ((2 0))"))
    E.append(("replace_with(existing element)", lambda el, r: el is not r and other(r, el) is not None and other(r, el) is not el.parent,
              lambda s, el: el.replace_with(other(s, el)),
              # the next sibling lands where it already is once this element is gone: _insert's no-op case
              lambda s, el: "6 ((2 %d))" % (1 if (other(s, el).parent is el.parent and
                                                  el.parent.index(other(s, el)) == el.parent.index(el) + 1) else 0)))
    return E


EDITS = edit_ops()


# ------------------------------------------------------------------------------------------ checks
class Batch:
    """collects (case, impl depth, model command) per tree and compares after one model run"""

    def __init__(self, ctx):
        self.ctx = ctx
        self.lines = []
        self.pending = []          # per line: list of (case, impl, stack)

    def add_tree(self, root_sexp, items):
        """items: [(case, impl_depth, maxstack, cmd_tail)]"""
        if not items:
            return
        self.lines.append("(11100 %s (%s))" % (root_sexp, " ".join(t for _, _, _, t in items)))
        self.pending.append([(c, d, st) for c, d, st, _ in items])

    def add_line(self, case, impl, stack, line):
        self.lines.append(line)
        self.pending.append(("single", case, impl, stack))

    def flush(self):
        ctx = self.ctx
        if not self.lines or not ctx.build.model_ok:
            self.lines, self.pending = [], []
            return
        res = model_lines(ctx, self.lines)
        for r, pend in zip(res, self.pending):
            if isinstance(pend, tuple):
                _, case, impl, st = pend
                pairs = [(case, impl, st, r)]
            else:
                if isinstance(r, tuple):
                    pairs = [(c, d, st, r) for c, d, st in pend]
                else:
                    pairs = [(c, d, st, m) for (c, d, st), m in zip(pend, r)]
            for case, impl, st, m in pairs:
                if m != impl:
                    ctx.disagree("measured tree-code call depth ~ Model.Depth", case,
                                 {"depth": impl, "deepest_stack": st}, {"depth": m})
        self.lines, self.pending = [], []


def check_tree(ctx, batch, desc, make, targets, few=False, edits=True, nontrivial=True):
    """correspondence on one tree: every read-only operation on the chosen targets, every editing call on a
    fresh copy of the tree.  make() -> root; targets(root) -> elements."""
    rng = ctx.rng
    root = make()
    sx = s_elem(root)
    items = []
    tl = targets(root)
    for el in tl:
        for name, f, tail in readonly_ops(root, el, rng, few):
            m = measure(f)
            case = {"tree": desc, "target": path_of(root, el), "operation": name}
            ctx.case((desc, tuple(case["target"]), name), nontrivial)
            if m.error:
                ctx.fail(case, "operation raised %s" % m.error, m.error, "no exception", tag="raises")
                continue
            items.append((case, m.m3, m.maxstack3, tail))
            if name == "prettify" and len(ctx.samples) < 5 and el is not root:
                ctx.sample({"tree": desc[:120], "target": case["target"], "operation": name, "measured_depth": m.m3,
                            "deepest_stack": m.maxstack3})
    if isinstance(root, BeautifulSoup):
        m = measure(lambda: root.__getstate__())
        case = {"tree": desc, "target": [], "operation": "__getstate__ (pickle.dumps)"}
        ctx.case((desc, (), "getstate"), nontrivial)
        items.append((case, m.m3, m.maxstack3, "(2)"))
    batch.add_tree(sx, items)
    if edits:
        paths = [path_of(root, el) for el in tl]
        for p in paths:
            for name, ok, f, tail in EDITS:
                r2 = make()
                el = r2
                for i in p:
                    el = el.contents[i]
                if not ok(el, r2):
                    continue
                sx2 = s_elem(r2)           # the tree the call starts from
                if callable(tail):
                    tail = tail(r2, el)
                if tail is None:           # extend(Tag): one attached argument per child of that tag
                    anc = set(id(q) for q in el.parents)
                    o = next(x for x in r2.descendants if x is not el and id(x) not in anc)
                    tail = "4 (%s)" % " ".join("(2 0)" for _ in o.contents)
                if hasattr(f, "prep"):
                    arg = f.prep()
                    m = measure(lambda: f(r2, el, arg))
                else:
                    m = measure(lambda: f(r2, el))
                case = {"tree": desc, "target": p, "operation": name}
                ctx.case((desc, tuple(p), name), nontrivial)
                if m.error:
                    ctx.fail(case, "operation raised %s" % m.error, m.error, "no exception", tag="raises")
                    continue
                batch.add_tree(sx2, [(case, m.m3, m.maxstack3, "(7 %s %s)" % (s_path(p), tail))])


BUILDER_CFG = None


def builder_cfg():
    global BUILDER_CFG
    if BUILDER_CFG is None:
        b = HTMLParserTreeBuilder()
        BUILDER_CFG = "(%s %s %s (%s) %s)" % (
            s_list(s_str(x) for x in sorted(b.empty_element_tags)),
            s_list(s_str(x) for x in sorted(b.preserve_whitespace_tags)),
            s_list(s_str(x) for x in sorted(b.string_containers)),
            " ".join("(%s %s)" % (s_str(k), s_list(s_str(x) for x in sorted(v))) for k, v in sorted(b.cdata_list_attributes.items())),
            s_str(BeautifulSoup.ROOT_TAG_NAME))
    return BUILDER_CFG


def s_callbacks(cbs):
    out = []
    for cb in cbs:
        if cb[0] == 0:
            out.append("(0 %s (%s) %d)" % (s_str(cb[1]), " ".join("(%s %s)" % (s_str(k), s_str(v)) for k, v in cb[2]), 1 if cb[3] else 0))
        elif cb[0] == 1:
            out.append("(1 %s)" % s_str(cb[1]))
        else:
            out.append("(%d)" % cb[0])
    return "(" + " ".join(out) + ")"


def check_parse(ctx, batch, desc, markup, nontrivial=True):
    m = measure(lambda: BeautifulSoup(markup, "html.parser"), record=True)
    case = {"tree": desc, "operation": "BeautifulSoup(markup, 'html.parser')"}
    ctx.case((desc, "parse"), nontrivial)
    if m.error:
        ctx.fail(case, "parsing raised %s" % m.error, m.error, "no exception", tag="raises")
        return None
    batch.add_line(case, m.m3, m.maxstack3, "(11009 %s %s %s)" % (builder_cfg(), s_str(markup), s_callbacks(m.cbs)))
    soup = m.result
    # unpickling re-parses the rendered markup
    data = pickle.dumps(soup)
    m2 = measure(lambda: pickle.loads(data), record=True)
    case2 = {"tree": desc, "operation": "pickle.loads(pickle.dumps(soup))"}
    ctx.case((desc, "unpickle"), nontrivial)
    if m2.error:
        ctx.fail(case2, "unpickling raised %s" % m2.error, m2.error, "no exception", tag="raises")
    else:
        batch.add_line(case2, m2.m3, m2.maxstack3, "(11010 %s %s)" % (builder_cfg(), s_callbacks(m2.cbs)))
    return soup


# ---- the direct oracle: depth does not grow with nesting; nothing raises past the recursion limit
def oracle_ops(soup, deep_tag, mid_tag):
    """name -> callable; a broad list of the operations the property names, on the document, on a tag in the
    middle of the nesting and on the innermost tag"""
    ops = {}
    for label, el in (("doc", soup), ("mid", mid_tag), ("inner", deep_tag)):
        ops["decode@" + label] = lambda el=el: el.decode()
        ops["decode[html]@" + label] = lambda el=el: el.decode(formatter="html")
        ops["encode@" + label] = lambda el=el: el.encode()
        ops["prettify@" + label] = lambda el=el: el.prettify()
        ops["decode_contents@" + label] = lambda el=el: el.decode_contents()
        ops["copy@" + label] = lambda el=el: copy.copy(el)
        ops["deepcopy@" + label] = lambda el=el: copy.deepcopy(el)
        ops["get_text@" + label] = lambda el=el: el.get_text()
        ops["stripped_strings@" + label] = lambda el=el: list(el.stripped_strings)
        ops[".string@" + label] = lambda el=el: el.string
        ops["find_all()@" + label] = lambda el=el: el.find_all()
        ops["find_all('a')@" + label] = lambda el=el: el.find_all("a")
        ops["find_all(['a','b'])@" + label] = lambda el=el: el.find_all(["a", "b"])
        ops["find_all(id=)@" + label] = lambda el=el: el.find_all(id="nope")
        ops["find_all(class_=)@" + label] = lambda el=el: el.find_all(class_="c")
        ops["find_all('a',string=)@" + label] = lambda el=el: el.find_all("a", string="x")
        ops["find_all(True,string=re)@" + label] = lambda el=el: el.find_all(True, string=re.compile("o"))
        ops["find_all(string=)@" + label] = lambda el=el: el.find_all(string="x")
        ops["find_all(fn)@" + label] = lambda el=el: el.find_all(lambda t: t.has_attr("nope"))
        ops["find('zzz')@" + label] = lambda el=el: el.find("zzz")
        ops["find_all(limit=3)@" + label] = lambda el=el: el.find_all("a", limit=3)
        ops["list(descendants)@" + label] = lambda el=el: sum(1 for _ in el.descendants)
        # CSS selection is a search entry point too: bs4/css.py is repository code (soupsieve's internals are not),
        # and it is started here from the document, from the middle of the nesting and from the innermost tag
        ops["select('a')@" + label] = lambda el=el: el.select("a")
        ops["select('a b, i')@" + label] = lambda el=el: el.select("a b, i")
        ops["select('div > p')@" + label] = lambda el=el: el.select("div > p")
        ops["select('b:not(.c) ~ i')@" + label] = lambda el=el: el.select("b:not(.c) ~ i")
        ops["select('a', limit=2)@" + label] = lambda el=el: el.select("a", limit=2)
        ops["select_one('zz')@" + label] = lambda el=el: el.select_one("zz")
        ops["css.iselect('a')@" + label] = lambda el=el: sum(1 for _ in el.css.iselect("a"))
        ops["css.compile('a b')@" + label] = lambda el=el: el.css.compile("a b")
        ops["css.select(compiled)@" + label] = lambda el=el: el.css.select(el.css.compile("a"))
        ops["select(namespaces={})@" + label] = lambda el=el: el.select("a", namespaces={})
        if el is not soup:
            ops["find_parents@" + label] = lambda el=el: el.find_parents("a")
            ops["find_parent(id=)@" + label] = lambda el=el: el.find_parent(id="nope")
            ops["find_all_next@" + label] = lambda el=el: el.find_all_next(string=True)
            ops["find_all_previous@" + label] = lambda el=el: el.find_all_previous("a")
            ops["find_next_siblings@" + label] = lambda el=el: el.find_next_siblings()
            ops["list(parents)@" + label] = lambda el=el: sum(1 for _ in el.parents)
            ops["list(next_elements)@" + label] = lambda el=el: sum(1 for _ in el.next_elements)
            ops["css.closest('a')@" + label] = lambda el=el: el.css.closest("a")
            ops["css.match('a a')@" + label] = lambda el=el: el.css.match("a a")
            ops["css.filter('a')@" + label] = lambda el=el: el.css.filter("a")
    ops["pickle@doc"] = lambda: pickle.loads(pickle.dumps(soup))
    ops["pickle(copy)@doc"] = lambda: pickle.loads(pickle.dumps(copy.copy(soup)))
    ops["smooth@doc"] = lambda: soup.smooth()
    return ops


def oracle_edits():
    """name -> callable(soup, mid, inner): editing calls; each runs on a fresh parse"""
    E = {}
    E["extract(mid)"] = lambda s, m, i: m.extract()
    E["decompose(mid)"] = lambda s, m, i: m.decompose()
    E["append(mid->inner's sibling)"] = lambda s, m, i: s.append(m)
    E["inner.append(str)"] = lambda s, m, i: i.append("txt")
    E["inner.append(tag);smooth"] = lambda s, m, i: (i.append("p"), i.append("q"), s.smooth())
    E["mid.insert(0,tag,str)"] = lambda s, m, i: m.insert(0, s.new_tag("b"), "z")
    E["mid.extend"] = lambda s, m, i: m.extend(["x", s.new_tag("b")])
    E["inner.insert_before"] = lambda s, m, i: i.insert_before(s.new_tag("b"), "z")
    E["inner.insert_after"] = lambda s, m, i: i.insert_after("z", s.new_tag("b"))
    E["mid.replace_with"] = lambda s, m, i: m.replace_with(s.new_tag("b"))
    E["mid.replace_with(inner)"] = lambda s, m, i: m.replace_with(i)
    E["mid.wrap"] = lambda s, m, i: m.wrap(s.new_tag("w"))
    E["mid.unwrap"] = lambda s, m, i: m.unwrap()
    E["mid.clear"] = lambda s, m, i: m.clear()
    E["mid.clear(decompose)"] = lambda s, m, i: m.clear(decompose=True)
    E["mid.string="] = lambda s, m, i: setattr(m, "string", "new")
    E["soup.insert(0,..);pickle"] = lambda s, m, i: (s.insert(0, "lead"), pickle.loads(pickle.dumps(s)))
    E["other.append(soup)"] = lambda s, m, i: BeautifulSoup("<p></p>", "html.parser").p.append(s)
    return E


ORACLE_EDITS = oracle_edits()


def nest_targets(soup):
    """(innermost tag of the nesting, a tag half way down): follow the first child Tag chain"""
    chain = []
    el = soup
    while True:
        nxt = None
        for c in el.contents:
            if isinstance(c, Tag) and (nxt is None or len(c.contents) > len(nxt.contents)):
                nxt = c
        if nxt is None:
            break
        chain.append(nxt)
        el = nxt
    if not chain:
        return soup, soup
    return chain[-1], chain[len(chain) // 2]


LIGHT_EDITS = ("extract(mid)", "inner.append(tag);smooth", "mid.insert(0,tag,str)", "inner.insert_after", "mid.replace_with(inner)",
               "mid.unwrap", "mid.string=", "soup.insert(0,..);pickle")


class _ContainerA(NavigableString):
    """a user's string container class"""


class _ContainerB(NavigableString):
    """another one"""


# builder configurations under which the families are parsed besides the default one.  The names are the
# tag names the families and templates nest: the same name may be whitespace-preserving *and* a string
# container, only one of the two, or neither; the option sets may be empty; attributes may stay unsplit.
CONFIGS = {
    "names-in-both-option-sets": dict(preserve_whitespace_tags={"pre", "a", "div", "span"},
                                      string_containers={"pre": _ContainerA, "a": _ContainerB, "div": _ContainerA,
                                                         "b": _ContainerB, "p": _ContainerA}),
    "custom-containers-disjoint": dict(preserve_whitespace_tags={"pre", "p"},
                                       string_containers={"a": _ContainerA, "span": _ContainerB, "div": Comment}),
    "empty-option-sets": dict(preserve_whitespace_tags=set(), string_containers={}, multi_valued_attributes=None),
}
# the operations run under each configuration (names as in oracle_ops): pickling, copying, rendering, text, searching
CONFIG_OPS = ("pickle@doc", "pickle(copy)@doc", "copy@doc", "deepcopy@doc", "copy@mid", "deepcopy@inner", "decode@doc",
              "decode@mid", "prettify@doc", "prettify@inner", "encode@doc", "get_text@doc", "find_all('a')@doc",
              "find_all('a',string=)@doc", "find_all(id=)@mid", "smooth@doc", "select('a')@mid")


def oracle_family(ctx, desc, mk, d, profile=True, light=False, config=None):
    """depths of every operation on the family member of depth d: {op: (all-frames depth, bs4 depth)} or errors.
    config: name in CONFIGS — parse with those builder options and run the CONFIG_OPS only"""
    out = {}
    kw = CONFIGS[config] if config else {}
    _mk = mk
    mk = lambda k: _mk(k)
    BS = (lambda markup, features: BeautifulSoup(markup, features, **kw))
    case0 = {"tree": desc} if not config else {"tree": desc, "config": config}
    if profile:
        m = measure(lambda: BS(mk(d), "html.parser"))
        if m.error:
            ctx.fail(dict(case0, depth=d, operation="parse"), "parsing raised %s" % m.error, m.error, "no exception", tag="raises")
            return out
        out["parse"] = (m.ma, m.mb)
        soup = m.result
    else:
        err, soup = plain(lambda: BS(mk(d), "html.parser"))
        if err:
            ctx.fail(dict(case0, depth=d, operation="parse"), "parsing raised %s" % err, err, "no exception", tag="raises")
            return out
    inner, mid = nest_targets(soup)
    for name, f in oracle_ops(soup, inner, mid).items():
        if config and name not in CONFIG_OPS:
            continue
        ctx.case((desc, config, d, name))
        if profile:
            m = measure(f)
            err = m.error
            out[name] = (m.ma, m.mb)
        else:
            err, _ = plain(f)
        if err:
            ctx.fail(dict(case0, depth=d, operation=name), "operation raised %s" % err, err, "no exception", tag="raises")
            out.pop(name, None)
    for name, f in ORACLE_EDITS.items():
        if config or (light and name not in LIGHT_EDITS):
            continue
        e0, s2 = plain(lambda: BS(mk(d), "html.parser"))
        if e0:
            continue
        i2, m2 = nest_targets(s2)
        ctx.case((desc, d, name))
        if profile:
            m = measure(lambda: f(s2, m2, i2))
            err = m.error
            out[name] = (m.ma, m.mb)
        else:
            err, _ = plain(lambda: f(s2, m2, i2))
        if err == "ValueError":
            out.pop(name, None)
            continue
        if err:
            ctx.fail(dict(case0, depth=d, operation=name), "operation raised %s" % err, err, "no exception", tag="raises")
            out.pop(name, None)
            continue
        # the edited tree must still render (its links are walked by decode)
        e3, _ = plain(lambda: s2.decode())
        if e3:
            ctx.fail(dict(case0, depth=d, operation=name + " then decode"), "operation raised %s" % e3, e3, "no exception", tag="raises")
    return out


def oracle_growth(ctx, desc, mk, d, config=None):
    # warm the interpreter's caches (re, typing protocol checks, lazy imports) on a tiny member first
    n0 = ctx.evaluations
    oracle_family(ctx, desc, mk, 2, profile=False, config=config)
    ctx.evaluations = n0
    a = oracle_family(ctx, desc, mk, d, config=config)
    b = oracle_family(ctx, desc, mk, 2 * d, config=config)
    for name in a:
        if name in b and (b[name][0] > a[name][0] or b[name][1] > a[name][1]):
            ctx.fail(dict({"tree": desc, "depths": [d, 2 * d], "operation": name}, **({"config": config} if config else {})),
                     "call depth grows with the nesting depth",
                     {"depth_at_d(all frames, bs4 frames)": a[name], "depth_at_2d": b[name]},
                     "the same call depth at both nesting depths", tag="depth-grows")


def handbuilt(rng, depth, kind):
    """a tree of directly constructed Tag objects (known_xml None), nested `depth` deep"""
    root = Tag(name="r")
    cur = root
    for i in range(depth):
        if kind == "prefix":
            t = Tag(name="y", prefix="x", attrs={"id": "1"} if i % 2 else None)
        elif kind == "xml":
            t = Tag(name="a", is_xml=(True if i == 0 else None))
        else:
            t = Tag(name=rng.choice(["a", "b"]), attrs={"class": ["c", "d"]} if i % 3 == 0 else None)
        if rng.random() < 0.5:
            cur.append(NavigableString(rng.choice(["", "t", "x"])))
        cur.append(t)
        if rng.random() < 0.4:
            cur.append(rng.choice([Comment("c"), NavigableString("u"), CData("d")]))
        cur = t
    cur.append("end")
    return root


def random_doc(rng, maxdepth=4):
    names = ["a", "b", "p", "div", "pre", "br", "meta", "script", "x:y", "i"]

    def gen(depth):
        out = []
        for _ in range(rng.randint(0, 3 if depth < maxdepth else 1)):
            r = rng.random()
            if r < 0.25:
                out.append(rng.choice(["t", "x", " ", "a&amp;b", "\n", "&lt;", "&#65;", "&bogus;", "&#x110000;"]))
            elif r < 0.3:
                out.append(rng.choice(["<!--c-->", "<?pi?>", "<![CDATA[d]]>", "<!DOCTYPE html>"]))
            elif r < 0.36:
                # malformed: stray / mismatched end tags, broken start tags, an unterminated comment
                out.append(rng.choice(["</b>", "</p>", "</zz>", "</br>", "<a <b>", "<p class=>", "<!-- open", "<>", "</>", "<a href='x>y"]))
            else:
                n = rng.choice(names)
                at = ""
                if rng.random() < 0.45:
                    at = " " + rng.choice(['class="c d"', 'id="i"', 'id="a&amp;b" class="k"', 'charset="utf8"', 'id="1" id="2"',
                                           'http-equiv="Content-Type" content="text/html; charset=x"', 'disabled', 'rel="x y" id=zz'])
                if n == "br":
                    out.append(rng.choice(["<br%s>", "<br%s/>", "<br%s></br>"]) % at)
                elif n == "script":
                    out.append("<script%s>var x;</script>" % at)
                elif rng.random() < 0.1:
                    out.append("<%s%s/>" % (n, at))
                elif rng.random() < 0.1:
                    out.append("<%s%s>%s" % (n, at, gen(depth + 1)))      # unclosed
                else:
                    out.append("<%s%s>%s</%s>" % (n, at, gen(depth + 1), n))
        return "".join(out)
    return gen(0)


def pick_targets(rng, k):
    def f(root):
        nodes = [root] + list(root.descendants)
        return [nodes[i] for i in sorted(rng.sample(range(len(nodes)), min(k, len(nodes))))]
    return f


def family_targets(root):
    if isinstance(root, BeautifulSoup):
        inner, mid = nest_targets(root)
    else:
        inner, mid = nest_targets(root)
    t = [root]
    for x in (mid, inner):
        if all(x is not y for y in t):
            t.append(x)
    # plus a string somewhere, when there is one
    s = root.find(string=True)
    if s is not None:
        t.append(s)
    return t


# corpus: the inputs on which the unrepaired code recursed (kept as explicit regression cases)
def corpus(ctx):
    d = 3000 if ctx.thorough else 2000
    cases = [
        ("C11-event-stream-ne", "<a>" * d + "</a>x" * d, lambda s: (s.decode(), s.prettify(), copy.copy(s), pickle.dumps(s))),
        ("C11-tag-string", "<a>" * d + "x" + "</a>" * d, lambda s: (s.a.string, s.find_all("a", string="x"))),
        ("C11-smooth", "<a>" * d + "</a>" * d, lambda s: s.smooth()),
        ("C11-getstate-next-element", "<a>" * d + "x", lambda s: (pickle.dumps(copy.copy(s)), s.insert(0, "l"), pickle.dumps(s))),
    ]
    for cid, mk, f in cases:
        e0, soup = plain(lambda: BeautifulSoup(mk, "html.parser"))
        err = e0
        if not err:
            err, _ = plain(lambda: f(soup))
        ctx.case(("corpus", cid))
        if err:
            ctx.fail({"corpus": cid, "markup": mk[:40] + "...", "depth": d}, "operation raised %s" % err, err, "no exception", tag="raises")

    def built():
        root = Tag(name="r")
        cur = root
        for _ in range(d):
            n = Tag(name="a")
            cur.append(n)
            cur = n
        cur.append("t")
        return cur.decode(), copy.copy(cur), cur.contents[0].output_ready(), copy.copy(root)
    err, _ = plain(built)
    ctx.case(("corpus", "C11-is-xml"))
    if err:
        ctx.fail({"corpus": "C11-is-xml", "tree": "Tag(name='a') nested %d deep" % d}, "operation raised %s" % err, err, "no exception", tag="raises")


SEARCH_BUDGET_S = 200      # the escalated search after a broken proof / tie (quick tier) stops after about this long


def search(ctx):
    """escalated search for a concrete failing input (the tie or a proof no longer checks): the oracle only,
    with budgets between quick and thorough, under a wall-clock cap"""
    import time
    rng = ctx.rng
    t0 = time.time()
    left = lambda: SEARCH_BUDGET_S - (time.time() - t0)
    tpls = [random_template(rng) for _ in range(6)]
    fams = [(n, (lambda k, n=n: family_markup(n, k))) for n in FAMILIES] + \
           [("template%r" % (t,), (lambda k, t=t: template_markup(t, k))) for t in tpls]
    done = 0
    for name, mk in fams:                      # growth from 150 to 300 (quick compares 100 and 200)
        if left() < 0 or ctx.failures:
            break
        oracle_growth(ctx, name, mk, 150)
        done += 1
    for cname in CONFIGS:                      # the other builder configurations, further out
        for name, mk in fams[:len(FAMILIES)]:
            if left() < 0 or ctx.failures:
                break
            oracle_growth(ctx, name, mk, 150, config=cname)
            done += 1
    for name, mk in fams[:len(FAMILIES)]:      # twice as far beyond the recursion limit as the quick tier
        if left() < 0 or ctx.failures:
            break
        oracle_family(ctx, name, mk, 3000, profile=False, light=True)
        done += 1
    ctx.notes.append("escalated search: oracle only (growth 150->300, depth 3000), %d family runs in %.0f s (cap %d s)"
                     % (done, time.time() - t0, SEARCH_BUDGET_S))


def run(ctx):
    rng = ctx.rng
    with warnings.catch_warnings():
        warnings.simplefilter("ignore")
        if ctx.search_mode and ctx.tier != "thorough":
            search(ctx)
            return
        corpus(ctx)
        batch = Batch(ctx)
        d = 200 if ctx.thorough else 80
        tpls = [random_template(rng) for _ in range(12 if ctx.thorough else 3)]
        fams = [(n, (lambda k, n=n: family_markup(n, k))) for n in FAMILIES] + \
               [("template%r" % (t,), (lambda k, t=t: template_markup(t, k))) for t in tpls]
        # 1. oracle: same depth at d and 2d, for every family and operation
        for name, mk in fams:
            oracle_growth(ctx, name, mk, d)
        ctx.sample({"family": "trailing_text", "markup_at_depth_2": family_markup("trailing_text", 2), "oracle": "depth(d)=depth(2d) for every operation; d=%d" % d})
        # 2. oracle: nothing raises far beyond the recursion limit
        if ctx.thorough:
            for name, mk in fams[:len(FAMILIES) + 4]:
                oracle_family(ctx, name, mk, 3000, profile=False)
            for name, mk in fams[:len(FAMILIES)]:
                if name in ("chain", "trailing_text", "attributes", "same_after", "pre_chain"):
                    oracle_family(ctx, name, mk, 6000, profile=False, light=True)
        else:
            for name, mk in fams[:len(FAMILIES)]:
                oracle_family(ctx, name, mk, 1500, profile=False, light=True)
        # 2b. the same two oracles under other builder configurations (option sets that overlap, are disjoint, are empty;
        #     custom string container classes; unsplit attributes): families x pickling / copying / rendering / searching
        cfg_fams = fams if ctx.thorough else [x for x in fams[:len(FAMILIES)]
                                              if x[0] not in ("text_inside", "leading_text", "alternating")]
        for cname in CONFIGS:
            for name, mk in cfg_fams:
                oracle_growth(ctx, name, mk, d if ctx.thorough else 50, config=cname)
            for name, mk in cfg_fams:
                if ctx.thorough or name in ("chain", "trailing_text", "pre_nesting", "pre_chain"):
                    oracle_family(ctx, name, mk, 3000 if ctx.thorough else 1500, profile=False, config=cname)
        # 3. correspondence with the model
        #    a. families at small and larger depth (every operation, targets: document, middle, innermost, a string)
        for name, mk in fams:
            for k in ((2, 5, d) if ctx.thorough else (3, 24)):
                markup = mk(k)
                check_parse(ctx, batch, "%s depth %d" % (name, k), markup)
                check_tree(ctx, batch, "%s depth %d" % (name, k), lambda markup=markup: BeautifulSoup(markup, "html.parser"),
                           family_targets, few=(k > 10), edits=True)
            batch.flush()
        #    b. random small documents, random targets
        for i in range(400 if ctx.thorough else 30):
            markup = random_doc(rng)
            check_parse(ctx, batch, "random document %r" % markup, markup, nontrivial=("<" in markup))
            check_tree(ctx, batch, "random document %r" % markup, lambda markup=markup: BeautifulSoup(markup, "html.parser"),
                       pick_targets(rng, 3 if ctx.thorough else 2), few=False, edits=True, nontrivial=("<" in markup))
            if i % 20 == 19:
                batch.flush()
            if i == 3:
                ctx.sample({"random_document": markup})
        batch.flush()
        #    c. hand-built trees (unknown XML-ness, prefixes, empty strings)
        for i in range(60 if ctx.thorough else 12):
            kind = ["plain", "prefix", "xml"][i % 3]
            depth = rng.choice([1, 2, 3, 6, 30])
            seed = rng.randrange(1 << 30)
            import random as _r
            check_tree(ctx, batch, "hand-built %s depth %d seed %d" % (kind, depth, seed),
                       lambda: handbuilt(_r.Random(seed), depth, kind), pick_targets(_r.Random(seed + 1), 3),
                       few=(depth > 6), edits=True)
        batch.flush()
        #    d. beyond the recursion limit (thorough): the model against the measurement at 3000
        if ctx.thorough:
            for name in ("trailing_text", "chain", "attributes"):
                markup = family_markup(name, 3000)
                check_parse(ctx, batch, "%s depth 3000" % name, markup)
                check_tree(ctx, batch, "%s depth 3000" % name, lambda markup=markup: BeautifulSoup(markup, "html.parser"),
                           family_targets, few=True, edits=False)
                batch.flush()
        #    e. structural equality (recursive in the code, not a listed operation): the recursion model against it
        for i in range(200 if ctx.thorough else 40):
            markup = random_doc(rng, 3)
            a = BeautifulSoup(markup, "html.parser")
            b = BeautifulSoup(markup if rng.random() < 0.5 else random_doc(rng, 3), "html.parser")
            if rng.random() < 0.3 and b.contents:
                rng.choice([x for x in [b] + list(b.descendants) if isinstance(x, Tag)]).append("extra")
            m = measure(lambda: a == b)
            ctx.case(("eq", markup, b.decode()))
            batch.add_line({"operation": "Tag.__eq__", "a": markup, "b": b.decode()}, m.m3, m.maxstack3,
                           "(11008 %s %s)" % (s_elem(a), s_elem(b)))
        batch.flush()


def replay(ctx, data):
    f = data.get("failure") or {}
    print("replaying", f.get("case"))
    case = f.get("case") or {}
    with warnings.catch_warnings():
        warnings.simplefilter("ignore")
        if "corpus" in case:
            corpus(ctx)
        elif case.get("tree") in FAMILIES:
            name = case["tree"]
            mk = lambda k: family_markup(name, k)
            if "depths" in case:
                oracle_growth(ctx, name, mk, case["depths"][0], config=case.get("config"))
            else:
                oracle_family(ctx, name, mk, case.get("depth", 3000), profile=False, config=case.get("config"))
        elif str(case.get("tree", "")).startswith("template"):
            t = eval(case["tree"][len("template"):])
            mk = lambda k: template_markup(t, k)
            if "depths" in case:
                oracle_growth(ctx, case["tree"], mk, case["depths"][0])
            else:
                oracle_family(ctx, case["tree"], mk, case.get("depth", 3000), profile=False)
    for x in ctx.failures[:5]:
        print("FAILS:", x["case"], x["what"], x["observed"])
    if ctx.failures:
        print("VIOLATION property=C11 replay=(replayed)")
        return 1
    print("no failure on replay")
    return 0
