"""C20 — builder selection. Correspondence: TreeBuilderRegistry.register/lookup and the constructor's
builder decision vs coq/Model/Registry.v; direct oracle: the property's wording in Python."""
import itertools, warnings
import bs4
from bs4.builder import TreeBuilderRegistry, TreeBuilder
from bs4.exceptions import FeatureNotFound

RULE = ("exhaustive: every registration history of <=3 (quick) / <=4 (thorough) builder classes whose "
        "feature lists are the 8 subsets of a 3-feature universe, x every request list of length <=3 over "
        "the universe + one unknown feature; plus seeded random histories with repeated classes, duplicate "
        "features and permuted feature lists; plus constructor decisions (builder=None/class/instance x "
        "features None/[]/str/list x kwargs). A case is non-trivial when >=1 builder is registered and "
        ">=1 feature requested; distinct by (history, request).")
ASSUMPTIONS = ["Python class identity / set / list semantics (interned as N in the model)"]

UNIV = ["html", "fast", "Xml"]      # one name with a capital: feature names are compared exactly as registered
UNKNOWN = "nosuch"
FID = {"html": 0, "fast": 1, "Xml": 2, "nosuch": 3}
SUBSETS = [[f for i, f in enumerate(UNIV) if m >> i & 1] for m in range(8)]
REQUESTS = [list(r) for n in range(4) for r in itertools.product(UNIV + [UNKNOWN], repeat=n)]


class HB(TreeBuilder):
    """Harness builder: records constructor kwargs, parses nothing."""
    features = []
    def __init__(self, **kw):
        self.got = dict(kw)
        super().__init__()
    def feed(self, markup):
        pass

_cls_cache = {}
def mkclass(i, feats):
    key = (i, tuple(feats))
    if key not in _cls_cache:
        _cls_cache[key] = type("HB%d" % i, (HB,), {"features": list(feats), "NAME": "hb%d" % i, "bid": i})
    return _cls_cache[key]


def spec_lookup(hist, req):
    """The property's wording. hist: list of (id, feats) oldest first."""
    if not hist:
        return None
    if not req:
        return hist[-1][0]
    offered = {f for _, fs in hist for f in fs}
    want = [f for f in req if f in offered]
    if not want:
        return None
    for b, fs in reversed(hist):
        if all(f in fs for f in want):
            return b
    return None


def impl_lookup(hist, reqs):
    reg = TreeBuilderRegistry()
    classes = {}
    for b, fs in hist:
        c = mkclass(b, fs)
        classes[b] = c
        reg.register(c)
    out = []
    for r in reqs:
        try:
            got = reg.lookup(*r)
            out.append(None if got is None else got.bid)
        except Exception as e:
            out.append("EXC:" + type(e).__name__)
    return out


def histories(ctx, maxn):
    for n in range(maxn + 1):
        for combo in itertools.product(range(8), repeat=n):
            yield [(i, SUBSETS[m]) for i, m in enumerate(combo)]


def random_histories(ctx, count):
    rng = ctx.rng
    for _ in range(count):
        n = rng.randint(1, 6)
        h = []
        for i in range(n):
            b = rng.randint(0, 3) if rng.random() < 0.5 else i   # repeated classes allowed
            fs = [rng.choice(UNIV) for _ in range(rng.randint(0, 4))]  # duplicates / any order
            h.append((b, fs))
        # a class object has one feature list: a repeated id is the same class registered again
        seen = {}
        h2 = []
        for b, fs in h:
            if b in seen:   # one class object = one features list
                fs = seen[b]
            seen.setdefault(b, fs)
            h2.append((b, fs))
        yield h2


def enc_hist(h):
    return [[b, [FID[f] for f in fs]] for b, fs in h]


def check_batch(ctx, hists, reqs, nodup_oracle=True):
    cmds = [[20, enc_hist(h), [[FID[f] for f in r] for r in reqs]] for h in hists]
    mres = ctx.model.run(cmds) if ctx.build.model_ok else None
    for k, h in enumerate(hists):
        ires = impl_lookup(h, reqs)
        ids = [b for b, _ in h]
        nodup = len(set(ids)) == len(ids)
        for j, r in enumerate(reqs):
            ctx.case((tuple((b, tuple(fs)) for b, fs in h), tuple(r)), nontrivial=bool(h) and bool(r))
            got = ires[j]
            if mres is not None:
                mv = mres[k][j]
                mv = mv[0] if mv else None
                if mv != got:
                    ctx.disagree("lookup ~ Model.Registry.lookup", {"history": h, "request": r}, got, mv)
            if nodup and nodup_oracle:
                exp = spec_lookup(h, r)
                if got != exp:
                    ctx.fail({"history": h, "request": r}, "lookup result differs from the documented choice",
                             observed=got, expected=exp)
        if k % 997 == 0:
            ctx.sample({"history": h, "request": reqs[min(len(reqs) - 1, 37)], "impl": ires[min(len(reqs) - 1, 37)]})


def constructor_cases(ctx):
    """Constructor decision on a harness registry swapped into bs4 for the duration."""
    rng = ctx.rng
    hists = [[], [(0, ["html"])], [(0, ["html", "fast"]), (1, ["html"])], [(0, ["Xml"])],
             [(0, ["html"]), (1, ["fast"])], [(0, ["html", "fast"]), (1, ["Xml"]), (2, ["html", "fast", "Xml"])]]
    for _ in range(20 if not ctx.thorough else 200):
        hists.append([(i, rng.choice(SUBSETS)) for i in range(rng.randint(0, 4))])
    feature_args = [None, [], "html", "fast", "Xml", "nosuch", ["html", "fast"], ["Xml", "nosuch"],
                    ["nosuch"], ["fast", "Xml"], ("html",), ("Xml", "nosuch"), ("nosuch", "nosuch"), ("fast", "html", "Xml")]
    kwargs_list = [{}, {"multi_valued_attributes": None}]
    saved = bs4.builder_registry
    default = list(bs4.BeautifulSoup.DEFAULT_BUILDER_FEATURES)
    if not all(f in FID for f in default):
        ctx.notes.append("DEFAULT_BUILDER_FEATURES %r not in harness universe; interned ad hoc" % default)
    cmds, cases = [], []
    try:
        for h in hists:
            reg = TreeBuilderRegistry()
            classes = []
            for b, fs in h:
                c = mkclass(b, fs); classes.append(c); reg.register(c)
            bs4.builder_registry = reg
            explicit = mkclass(9, ["html"])
            inst = explicit()
            for barg_kind in ("none", "class", "instance"):
                for fa in feature_args:
                    for kw in kwargs_list:
                        barg = {"none": None, "class": explicit, "instance": inst}[barg_kind]
                        with warnings.catch_warnings(record=True) as w:
                            warnings.simplefilter("always")
                            try:
                                soup = bs4.BeautifulSoup("x", fa, builder=barg, **kw)
                                if soup.builder is inst:
                                    ign = any("Keyword arguments to the BeautifulSoup constructor will be ignored" in str(x.message) for x in w)
                                    obs = [2, 7, 1 if ign else 0]
                                else:
                                    obs = [1, type(soup.builder).bid, sorted(soup.builder.got)]
                            except FeatureNotFound:
                                obs = [0]
                            except Exception as e:
                                obs = ["EXC:" + type(e).__name__]
                        # independent expectation
                        if barg_kind == "class":
                            exp = [1, 9, sorted(kw)]
                        elif barg_kind == "instance":
                            exp = [2, 7, 1 if kw else 0]
                        else:
                            fl = [fa] if isinstance(fa, str) else (list(fa) if fa else default)
                            sel = spec_lookup(h, fl)
                            exp = [0] if sel is None else [1, sel, sorted(kw)]
                        case = {"history": h, "builder_arg": barg_kind, "features": fa, "kwargs": sorted(kw)}
                        ctx.case(("ctor", repr(case)))
                        ctx.count("constructor_cases")
                        if obs != exp:
                            ctx.fail(case, "constructor builder decision differs from the documented one", obs, exp)
                        fl_model = None if fa is None else ([FID.get(fa, 3)] if isinstance(fa, str) else [FID.get(f, 3) for f in fa])
                        cmds.append([21, enc_hist(h), [FID.get(f, 3) for f in default],
                                     {"none": [0], "class": [1, 9], "instance": [2, 7]}[barg_kind],
                                     [] if fl_model is None else [fl_model], [1] if kw else []])
                        cases.append((case, obs))
    finally:
        bs4.builder_registry = saved
    if ctx.build.model_ok:
        res = ctx.model.run(cmds)
        for (case, obs), mv in zip(cases, res):
            if obs[0] == 1:
                o = [1, obs[1], [1] if obs[2] else []]
            else:
                o = obs
            if mv != o:
                ctx.disagree("BeautifulSoup.__init__ builder decision ~ Model.Registry.construct_decision", case, o, mv)
    ctx.sample({"constructor_case": cases[len(cases) // 2][0], "observed": cases[len(cases) // 2][1]})


def shipped_default(ctx):
    """The real registry: default request resolves, and to html.parser when lxml is absent."""
    from bs4.builder import builder_registry
    got = builder_registry.lookup(*bs4.BeautifulSoup.DEFAULT_BUILDER_FEATURES)
    hist = [(b.__name__, list(b.features)) for b in reversed(builder_registry.builders)]
    exp = spec_lookup(hist, list(bs4.BeautifulSoup.DEFAULT_BUILDER_FEATURES))
    ctx.case(("shipped", repr(hist)))
    if (got.__name__ if got else None) != exp:
        ctx.fail({"shipped_registry": hist}, "default features do not resolve as documented",
                 got.__name__ if got else None, exp)
    try:
        s = bs4.BeautifulSoup("<a></a>", "html.parser")
        if type(s.builder).__name__ != "HTMLParserTreeBuilder":
            ctx.fail({"features": "html.parser"}, "named parser not selected", type(s.builder).__name__, "HTMLParserTreeBuilder")
    except Exception as e:
        ctx.fail({"features": "html.parser"}, "constructor raised", type(e).__name__, "a tree")


def interleaved(ctx):
    """Lookups between registrations, and after the registry's public tables have been read: the answer to a request
    depends on the registrations made so far and on nothing else (no earlier lookup, no inspection of
    builders_for_feature / builders may change it)."""
    rng = ctx.rng
    hists = [h for h in histories(ctx, 3) if len(h) >= 2 and rng.random() < (0.5 if ctx.thorough else 0.12)]
    hists += list(random_histories(ctx, 600 if ctx.thorough else 120))
    reqs = [[], ["html"], ["fast"], ["Xml"], [UNKNOWN], ["html", "fast"], ["fast", UNKNOWN], ["Xml", "html"], [UNKNOWN, "html", "fast"]]
    n = 0
    for hi, h in enumerate(hists):
        ids = [b for b, _ in h]
        if len(set(ids)) != len(ids):
            continue
        reg = TreeBuilderRegistry()
        inspect = hi % 2 == 0
        for k in range(len(h) + 1):
            if k > 0:
                reg.register(mkclass(*h[k - 1]))
            if inspect:
                for f in UNIV + [UNKNOWN]:
                    reg.builders_for_feature[f]          # reading the public table
                list(reg.builders)
            for r in reqs:
                try:
                    got = reg.lookup(*r)
                    got = None if got is None else got.bid
                except Exception as e:
                    got = "EXC:" + type(e).__name__
                exp = spec_lookup(h[:k], r)
                ctx.case(("interleaved", hi, k, tuple(r)), nontrivial=k > 0 and bool(r))
                n += 1
                if got != exp:
                    ctx.fail({"history": h[:k], "request": r, "earlier": "lookups of %r after each of the %d earlier registrations%s"
                              % (reqs, k, "; builders_for_feature[f] read for f in %r" % (UNIV + [UNKNOWN]) if inspect else "")},
                             "lookup between registrations differs from the documented choice for the registrations made so far",
                             observed=got, expected=exp, tag="interleaved")
    ctx.count("interleaved_lookups", n)


def subclass_default(ctx):
    """A BeautifulSoup subclass that overrides DEFAULT_BUILDER_FEATURES: with no features given, ITS default request is looked up."""
    saved = bs4.builder_registry
    hists = [[(0, ["html"])], [(0, ["html", "fast"]), (1, ["Xml"])], [(0, ["Xml"]), (1, ["html"])], [(0, ["fast"]), (1, ["html", "fast"])], []]
    try:
        for h in hists:
            reg = TreeBuilderRegistry()
            for b, fs in h:
                reg.register(mkclass(b, fs))
            bs4.builder_registry = reg
            for override in (["Xml"], ["fast"], [UNKNOWN], ["html", "fast"], ["Xml", "html"], ("html",)):
                Sub = type("SubSoup", (bs4.BeautifulSoup,), {"DEFAULT_BUILDER_FEATURES": override})
                for fa in (None, [], ()):
                    with warnings.catch_warnings():
                        warnings.simplefilter("ignore")
                        try:
                            soup = Sub("x", fa)
                            obs = type(soup.builder).bid
                        except FeatureNotFound:
                            obs = None
                        except Exception as e:
                            obs = "EXC:" + type(e).__name__
                    exp = spec_lookup(h, list(override))
                    ctx.case(("subclass-default", repr(h), repr(override), repr(fa)))
                    if obs != exp:
                        ctx.fail({"history": h, "subclass DEFAULT_BUILDER_FEATURES": list(override), "features": fa},
                                 "with no features given the subclass's default request is not what is looked up", obs, exp, tag="subclass-default")
    finally:
        bs4.builder_registry = saved


def registration_time(ctx):
    """What a builder advertises is read when it is registered: a later change of the class's (caller-owned) features list
    changes no answer.  And register_treebuilders_from(module) registers every TreeBuilder the module exports - also one
    whose name bs4.builder already exports."""
    import copy, sys, types
    import bs4.builder as B
    rng = ctx.rng
    reqs = [[], ["html"], ["fast"], ["Xml"], ["html", "fast"], ["fast", "html"], ["Xml", "html"], ["html", "html"], ["fast", UNKNOWN, "html"]]
    hists = [h for h in histories(ctx, 3) if len(h) >= 2 and rng.random() < (0.4 if ctx.thorough else 0.08)]
    n = 0
    for hi, h in enumerate(hists):
        reg = TreeBuilderRegistry()
        classes = []
        for b, fs in h:
            c = type("HBm%d" % b, (HB,), {"features": list(fs), "bid": b})
            classes.append(c)
            reg.register(c)
        for c in classes:                      # the caller goes on using its list
            if hi % 3 == 0:
                c.features.append(rng.choice(UNIV))
            elif hi % 3 == 1:
                del c.features[:]
            else:
                c.features[:] = [f for f in UNIV if f not in c.features]
        for r in reqs:
            got = reg.lookup(*r)
            got = None if got is None else got.bid
            exp = spec_lookup(h, r)
            ctx.case(("registration-time", hi, tuple(r)))
            n += 1
            if got != exp:
                ctx.fail({"history": h, "request": r, "then": "each registered class's features list was changed after registration"},
                         "lookup does not answer from what was advertised at registration", got, exp, tag="registration-time")
    ctx.count("registration_time_lookups", n)
    # register_treebuilders_from on a scratch registry; module state restored afterwards
    saved_reg, saved_all = B.builder_registry, list(B.__all__)
    saved_attrs = {}
    try:
        B.builder_registry = TreeBuilderRegistry()
        fresh = type("VerifFreshBuilder", (HB,), {"features": ["verif-fresh"], "bid": 101})
        clash_name = "HTMLParserTreeBuilder" if "HTMLParserTreeBuilder" in B.__all__ else B.__all__[0]
        clash = type(clash_name, (HB,), {"features": ["verif-clash"], "bid": 102})
        mod = types.ModuleType("verif_builders")
        mod.__all__ = ["VerifFreshBuilder", clash_name]
        mod.VerifFreshBuilder, _ = fresh, setattr(mod, clash_name, clash)
        for name in mod.__all__:
            saved_attrs[name] = getattr(B, name, None)
        B.register_treebuilders_from(mod)
        B.register_treebuilders_from(mod)          # a second time: registered again, newest first
        for feat, cls in (("verif-fresh", fresh), ("verif-clash", clash)):
            got = B.builder_registry.lookup(feat)
            ctx.case(("register-from", feat))
            if got is not cls:
                ctx.fail({"module exports": mod.__all__, "feature": feat}, "a builder exported by the module was not registered by register_treebuilders_from",
                         getattr(got, "__name__", None), cls.__name__, tag="register-from")
    finally:
        B.builder_registry = saved_reg
        B.__all__[:] = saved_all
        for name, v in saved_attrs.items():
            if v is None:
                if hasattr(B, name):
                    delattr(B, name)
            else:
                setattr(B, name, v)


def run(ctx):
    maxn = 4 if ctx.thorough else 3
    batch = []
    for h in histories(ctx, maxn):
        batch.append(h)
        if len(batch) >= 600:
            check_batch(ctx, batch, REQUESTS); batch = []
    if batch:
        check_batch(ctx, batch, REQUESTS)
    ctx.extra_cov["exhaustive"] = True
    ctx.extra_cov["exhaustive_scope"] = "<=%d builders x 8 feature subsets x %d requests" % (maxn, len(REQUESTS))
    rh = list(random_histories(ctx, 3000 if ctx.thorough else 400))
    check_batch(ctx, rh, REQUESTS[:85])
    constructor_cases(ctx)
    interleaved(ctx)
    subclass_default(ctx)
    registration_time(ctx)
    shipped_default(ctx)


def replay(ctx, data):
    f = data.get("failure") or {}
    case = f.get("case") or {}
    if "request" in case:
        h = [(b, fs) for b, fs in case["history"]]
        got = impl_lookup(h, [case["request"]])[0]
        exp = spec_lookup(h, case["request"])
        print("history=%r request=%r impl=%r documented=%r" % (h, case["request"], got, exp))
        return 0 if got == exp else 1
    print("replay: re-run ./check C20 for this kind of record:", data.get("kind"))
    return 1
