"""C10 — searches return exactly the matches of their axis; find = first, limit = prefix.

Three parties per case: the implementation (the real find_* methods on real objects), the extracted
Coq model (Model/Search.v on a snapshot of the implementation's heap) and a direct oracle (an
independent Python evaluator of the documented matching rules over an independent traversal of the
.contents lists).  The Coq specification (Spec/SearchSpec.v) is additionally evaluated on every
case and compared with the oracle.  The CSS clause is checked differentially (select vs find_all)."""
import hashlib, itertools, re, warnings
from bs4 import BeautifulSoup
from bs4.element import Tag, NavigableString, Comment, PageElement
import treeimpl as T
import histgen as G

RULE = ("trees: (a) every forest shape with <=3 (quick) / <=4 (thorough) elements x leaf kinds, with names from {a,b}, "
        "id/class attributes and texts assigned by position; (b) html.parser documents from a seeded grammar (nested "
        "same-name tags, multi-valued class/rel incl. class=\"\", ids, data-* attributes, colon names, comments, text); "
        "(c) edited trees: random insert/append/extract/wrap/unwrap/replace_with/.string= (incl. the empty string) and "
        "new tags with namespace prefixes on (b).  For every tree: every element as start x the seven families x "
        "{plural, singular} x limits {None,0,1,2,50} x queries drawn from a grammar over name / attrs / kwargs / string "
        "criteria of every kind (str, non-str object, True, False, None, compiled pattern, function, list incl. None / "
        "nested / empty items and every flavour of iterable of alternatives — tuple, set, frozenset, dict, dict views, generator, "
        "iterator, map —, numbers 0 / 0.0 / 1 / -1 next to True / False / None on attribute values \"0\", \"1\", \"False\", \"\", "
        "class_ and deprecated text= spellings, attrs as every flavour of mapping (dict, OrderedDict, defaultdict, another tag's "
        ".attrs), non-dict attrs; criterion functions that raise StopIteration / ValueError / a user exception at their k-th call "
        "(the search must raise or return the full documented result) — all combinations for the fixed "
        "core query list on small trees, sampled otherwise; tag(...) and tag.name shorthands; every public spelling of "
        "every family (the 14 documented names and the 15 camelCase / fetch* aliases) from every element, judged by the "
        "oracle on the documented axis; CSS selectors (type, .class, #id, [attr], [attr=v], compounds, descendant and child "
        "combinators, lists) against their find_all composition through every CSS entry point (Tag.select, Tag.select_one, "
        "tag.css.select / select_one / iselect) with limits 0, 1, 2 (limit = a prefix). "
        "Functions are seeded random predicates over elements / strings whose every call is logged. Queries outside the "
        "oracle's domain (same attribute constrained twice, falsy non-dict attrs, odd prefixes) are still run on model and "
        "implementation, but a difference there is recorded in the notes, not a verdict; list criteria without usable items "
        "are judged and fall under the open finding. Non-trivial: the "
        "axis is non-empty and the query has at least one criterion or a limit. Distinct by (tree, start, method, query).")
ASSUMPTIONS = ["regular expressions and user functions are parameters of the model (pat_sem / fun_sem); per case they are "
               "instantiated by truth tables computed with Python's re / the harness's seeded predicates",
               "str(obj) for non-string criteria, truthiness of a non-dict attrs argument and Python dict semantics of "
               "**kwargs are taken from the interpreter",
               "Tag.string is shared between model and specification (its meaning is C13's)",
               "soupsieve (CSS clause) is third-party and trusted: Spec.CssSpec.select_spec is tied to it by correspondence on the selector "
               "subset (type, .class, #id, [attr], [attr=v], compounds, descendant/child combinators, lists); the proof "
               "C10_css_select_is_find_all is about that specification"]

AXES = ["descendants", "children", "next", "previous", "next_siblings", "previous_siblings", "parents"]
PLURAL = ["find_all", "find_all", "find_all_next", "find_all_previous", "find_next_siblings", "find_previous_siblings", "find_parents"]
SINGULAR = ["find", "find", "find_next", "find_previous", "find_next_sibling", "find_previous_sibling", "find_parent"]
PATTERNS = ["a", "^b", "x$", "^$", ".", "^p:", "y z", "^t1", "b$", "^a$", "1$", "iv", "y"]
_RE = [re.compile(p) for p in PATTERNS]
NFUN = 6


# ----------------------------------------------------------------------------------- functions
def fun_value(fid, key):
    """The seeded predicate number fid on an argument key ('el', id) / ('str', s) / ('none',)."""
    if fid == 0:
        return True
    if fid == 1:
        return False
    hsh = hashlib.blake2b(repr((fid, key)).encode(), digest_size=2).digest()
    return bool(hsh[0] & 1)


class Funs:
    """Per-case registry of function objects; each records (site, fid, argkey) on every call."""

    def __init__(self, forest):
        self.forest = forest
        self.log = []

    def key(self, arg):
        if arg is None:
            return ("none",)
        if isinstance(arg, PageElement):
            return ("el", self.forest.oid(arg))
        if isinstance(arg, str):
            return ("str", str(arg))
        return ("other", repr(arg))

    def make(self, site, fid):
        def f(arg):
            k = self.key(arg)
            self.log.append((site, fid, k))
            return fun_value(fid, k)
        return f


# ----------------------------------------------------------------------------------- queries
# atom descriptions: ("s", str) ("o", int) ("b", bool) ("f", fid) ("p", pid) ("n",) ("nested",)
# crit descriptions: ("one", atom) | ("list", [atoms]) | ("list", [atoms], flavour): any other iterable holding the
# same items — tuple, set, frozenset, dict (its keys), dict_keys, dict_values, generator, iterator, map.  The
# documented meaning of a list of criteria ("matches any of") is what every iterable of criteria means.
NONE = ("one", ("n",))


def one(a):
    return ("one", a)


def lst(*atoms):
    return ("list", list(atoms))


def S(s):
    return ("s", s)


# the attrs argument is "a mapping of attribute criteria": every flavour of dict is read the same way
MAPPINGS = ["dict", "OrderedDict", "defaultdict", "tag_attrs"]


def plain_values(items):
    """Criteria another tag's own .attrs object could hold: strings and lists of strings."""
    for _, c in items:
        if not all(a[0] == "s" for a in atoms_of(c)) or len(c) > 2:
            return False
    return True


def py_mapping(items, flavour, funs):
    d = [(k, py_crit(c, funs, "attr")) for k, c in items]
    if flavour == "OrderedDict":
        from collections import OrderedDict
        return OrderedDict(d)
    if flavour == "defaultdict":
        from collections import defaultdict
        return defaultdict(list, d)
    if flavour == "tag_attrs":
        return Tag(name="q", attrs=dict(d)).attrs           # another tag's own attribute dictionary
    return dict(d)


FLAVOURS = ["tuple", "set", "frozenset", "dict", "dict_keys", "dict_values", "generator", "iterator", "map"]
HASHED = ("set", "frozenset", "dict", "dict_keys")
LAZY = ("generator", "iterator", "map")


def itr(flavour, *atoms):
    return ("list", list(atoms), flavour)


def hashable_atoms(atoms):
    """Usable in a set / as dict keys without changing the meaning: no unhashable nested list, no two items that
    Python considers equal (0 == 0.0 == False, 1 == True)."""
    vals = []
    for a in atoms:
        if a[0] == "nested":
            return False
        v = None if a[0] == "n" else (a[0], a[1]) if a[0] in ("f", "p") else a[1]
        if any(v == w for w in vals):
            return False
        vals.append(v)
    return True


def mkq(name=NONE, attrs=("dict", []), string=NONE, kwargs=(), limit=None):
    return {"name": name, "attrs": attrs, "string": string, "kwargs": list(kwargs), "limit": limit}


def py_atom(a, funs, site):
    t = a[0]
    if t == "s":
        return a[1]
    if t == "o":
        return a[1]
    if t == "b":
        return a[1]
    if t == "f":
        return funs.make(site, a[1])
    if t == "p":
        return _RE[a[1]]
    if t == "n":
        return None
    return ["q", "r"]          # nested list


def py_crit(c, funs, site):
    if c[0] == "one":
        return py_atom(c[1], funs, site)
    items = [py_atom(a, funs, site) for a in c[1]]
    fl = c[2] if len(c) > 2 else "list"
    if fl == "list":
        return items
    if fl == "tuple":
        return tuple(items)
    if fl == "set":
        return set(items)
    if fl == "frozenset":
        return frozenset(items)
    if fl == "dict":
        return {v: i for i, v in enumerate(items)}
    if fl == "dict_keys":
        return {v: i for i, v in enumerate(items)}.keys()
    if fl == "dict_values":
        return {i: v for i, v in enumerate(items)}.values()
    if fl == "generator":
        return (v for v in items)
    if fl == "iterator":
        return iter(items)
    return map(lambda v: v, items)


def enc_atom(a):
    t = a[0]
    if t == "s":
        return [0, a[1]]
    if t == "o":
        return [6, str(a[1])]
    if t == "b":
        return [1, bool(a[1])]
    if t == "f":
        return [2, a[1]]
    if t == "p":
        return [3, a[1]]
    if t == "n":
        return [4]
    return [5]


def enc_crit(c):
    if c[0] == "one":
        if c[1][0] == "n":
            return [0]
        return [1, enc_atom(c[1])]
    return [2, [enc_atom(a) for a in c[1]]]


def attrs_truthy(attrs):
    """Python truth value of a non-dict attrs argument."""
    c = attrs[1]
    if c[0] == "list":
        if len(c) > 2 and c[2] in LAZY:
            return True                  # a generator / iterator / map object is truthy whatever it yields
        return len(c[1]) > 0
    a = c[1]
    if a[0] == "s":
        return a[1] != ""
    if a[0] == "o":
        return bool(a[1])
    if a[0] == "b":
        return a[1]
    if a[0] == "n":
        return False
    return True


def enc_query(q):
    at = q["attrs"]
    if at[0] == "dict":
        ea = [0, [[k, enc_crit(c)] for k, c in at[1]]]
    else:
        ea = [1, enc_crit(at[1]), attrs_truthy(at)]
    return [enc_crit(q["name"]), ea, enc_crit(q["string"]), [[k, enc_crit(c)] for k, c in q["kwargs"]],
            [] if q["limit"] is None else [q["limit"]]]


def atoms_of(c):
    return [c[1]] if c[0] == "one" else list(c[1])


def query_crits(q):
    out = [("name", q["name"]), ("string", q["string"])]
    if q["attrs"][0] == "dict":
        out += [("attr", c) for _, c in q["attrs"][1]]
    else:
        out.append(("attr", q["attrs"][1]))
    out += [("attr", c) for _, c in q["kwargs"]]
    return out


def funs_used(q):
    return {a[1] for _, c in query_crits(q) for a in atoms_of(c) if a[0] == "f"}


def pats_used(q):
    return {a[1] for _, c in query_crits(q) for a in atoms_of(c) if a[0] == "p"}


# ----------------------------------------------------------------------------------- the oracle
def o_item_val(a, text, key):
    """One item of a criterion against a string value (text None = no value)."""
    t = a[0]
    if t == "s":
        return text is not None and a[1] == text
    if t == "o":
        return text is not None and str(a[1]) == text
    if t == "p":
        return text is not None and re.search(PATTERNS[a[1]], text) is not None
    if t == "b":
        return (text is not None) if a[1] else (text is None)
    if t == "f":
        return fun_value(a[1], key)
    return False


def o_crit_val(c, text, key):
    return any(o_item_val(a, text, key) for a in atoms_of(c))


def o_attr_crit_val(c, text, key):
    if c == NONE:
        return text is None
    return o_crit_val(c, text, key)


def o_skey(s):
    return ("none",) if s is None else ("str", s)


def o_sole_string(el):
    """The unique string reachable through only-children (independent of Tag.string)."""
    while isinstance(el, Tag):
        if len(el.contents) != 1:
            return None
        el = el.contents[0]
    return el


def o_effective(q):
    """(string criterion, attribute criteria [(key, crit)]) as the documentation reads the arguments."""
    string = q["string"]
    kwargs = list(q["kwargs"])
    if string == NONE:
        for i, (k, c) in enumerate(kwargs):
            if k == "text":
                string = c
                del kwargs[i]
                break
    acs = list(q["attrs"][1]) if q["attrs"][0] == "dict" else [("class", q["attrs"][1])]
    acs += [("class" if k == "class_" else k, c) for k, c in kwargs]
    return string, acs


def o_matches(q, el, forest):
    name = q["name"]
    string, acs = o_effective(q)
    if isinstance(el, Tag):
        if name == NONE and not acs and string != NONE:
            return False                       # string criteria alone select strings
        if name != NONE:
            names = [el.name]
            if el.prefix:
                names.append(el.prefix + ":" + el.name)
            ok = False
            for a in atoms_of(name):
                t = a[0]
                if t in ("s", "o"):
                    ok = ok or str(a[1]) in names
                elif t == "p":
                    ok = ok or any(re.search(PATTERNS[a[1]], n) for n in names)
                elif t == "b":
                    ok = ok or a[1]
                elif t == "f":
                    ok = ok or fun_value(a[1], ("el", forest.oid(el)))
            if not ok:
                return False
        for k, c in acs:
            v = el.attrs.get(k)
            if isinstance(v, list):
                toks = [str(x) for x in v]
                joined = " ".join(toks)
                if not (any(o_attr_crit_val(c, t, ("str", t)) for t in toks) or o_attr_crit_val(c, joined, ("str", joined))):
                    return False
            else:
                v = None if v is None else str(v)
                if not o_attr_crit_val(c, v, o_skey(v)):
                    return False
        if string != NONE:
            s = o_sole_string(el)
            if s is None or not o_crit_val(string, str(s), ("el", forest.oid(s))):
                return False
        return True
    if name != NONE or acs or string == NONE:
        return False
    return o_crit_val(string, str(el), ("el", forest.oid(el)))


def o_axis(el, axis):
    """The axis by an independent traversal: .contents downwards, .parent upwards."""
    if axis == 0:
        return T.preorder(el)[1:] if isinstance(el, Tag) else []
    if axis == 1:
        return list(el.contents) if isinstance(el, Tag) else []
    if axis == 6:
        out, p = [], el.parent
        while p is not None:
            out.append(p)
            p = p.parent
        return out
    if axis in (4, 5):
        p = el.parent
        if p is None:
            return []
        j = [i for i, s in enumerate(p.contents) if s is el][0]
        return list(p.contents[j + 1:]) if axis == 4 else list(reversed(p.contents[:j]))
    root = el
    while root.parent is not None:
        root = root.parent
    pre = T.preorder(root)
    linked = not (isinstance(root, BeautifulSoup) and len(pre) > 1 and root.next_element is None)
    chain = pre if linked else pre[1:]     # C01: a parsed document root stands outside the element chain
    if el is root and not linked:
        return []
    j = [i for i, s in enumerate(chain) if s is el][0]
    return chain[j + 1:] if axis == 2 else list(reversed(chain[:j]))


def o_find_all(q, el, axis, forest):
    res = [x for x in o_axis(el, axis) if o_matches(q, x, forest)]
    if q["limit"]:
        res = res[:q["limit"]]
    return res


def crit_usable(c):
    return any(a[0] not in ("n", "nested") for a in atoms_of(c))


def in_domain(q):
    """None when the query lies in the domain the oracle judges; else the reason it is only used
    for the model/implementation correspondence."""
    string, acs = o_effective(q)
    keys = [k for k, _ in acs]
    if len(keys) != len(set(keys)):
        return "same attribute constrained twice"
    if q["attrs"][0] != "dict" and not attrs_truthy(q["attrs"]):
        return "falsy non-dict attrs"
    return None


def unusable_crits(q):
    string, acs = o_effective(q)
    bad = []
    if q["name"] != NONE and not crit_usable(q["name"]):
        bad.append("name")
    if string != NONE and not crit_usable(string):
        bad.append("string")
    for k, c in acs:
        if c != NONE and not crit_usable(c):
            bad.append("attr:" + k)
    return bad


# ----------------------------------------------------------------------------------- trees
class Case:
    """One tree (possibly several roots) with registered elements, its encoding for the model and
    the universe of strings patterns / functions can be asked about."""

    def __init__(self, roots, origin):
        self.origin = origin
        self.forest = T.Forest()
        for r in roots:
            for o in T.preorder(r):
                self.forest.add(o)
        self.n = len(self.forest.objs)

    def describe(self):
        return {"origin": self.origin, "elements": [self.elem_desc(i) for i in range(self.n)]}

    def elem_desc(self, i):
        o = self.forest.objs[i]
        if isinstance(o, Tag):
            return {"id": i, "tag": o.name, "prefix": o.prefix, "attrs": {k: v for k, v in o.attrs.items()},
                    "children": [self.forest.oid(c) for c in o.contents]}
        return {"id": i, "text": str(o), "class": type(o).__name__}

    def ext(self):
        out = []
        for o in self.forest.objs:
            if isinstance(o, Tag):
                attrs = []
                for k, v in o.attrs.items():
                    attrs.append([str(k), [1, [str(x) for x in v]] if isinstance(v, list) else [0, str(v)]])
                out.append([[] if o.prefix is None else [o.prefix], attrs])
            else:
                out.append([[], []])
        return out

    def universe(self):
        u = set()
        for o in self.forest.objs:
            if isinstance(o, Tag):
                u.add(o.name)
                if o.prefix:
                    u.add(o.prefix + ":" + o.name)
                for k, v in o.attrs.items():
                    if isinstance(v, list):
                        for x in v:
                            u.add(str(x))
                        u.add(" ".join(str(x) for x in v))
                    else:
                        u.add(str(v))
            else:
                u.add(str(o))
        return sorted(u)

    def names_wf(self):
        for o in self.forest.objs:
            if isinstance(o, Tag) and o.prefix is not None:
                if o.prefix == "" or ":" in o.prefix or ":" in o.name:
                    return False
        return True

    def tables(self, fids, pids):
        uni = self.universe()
        ft = []
        for f in sorted(fids):
            for i in range(self.n):
                ft.append([f, [0, i], fun_value(f, ("el", i))])
            for s in uni:
                ft.append([f, [1, s], fun_value(f, ("str", s))])
            ft.append([f, [2], fun_value(f, ("none",))])
        pt = []
        for p in sorted(pids):
            for s in uni:
                pt.append([p, s, re.search(PATTERNS[p], s) is not None])
        return ft, pt


def enc_log(log):
    sites = {"name": 0, "attr": 1, "string": 2}
    out = []
    for site, fid, k in log:
        if k[0] == "el":
            a = [0, k[1]]
        elif k[0] == "str":
            a = [1, [ord(c) for c in k[1]]]
        else:
            a = [2]
        out.append([sites[site], fid, a])
    return out


def call_args(q, funs):
    """Positional/keyword arguments of a find_*-style call for query q (limit excluded)."""
    kw = {}
    if q["name"] != NONE:
        kw["name"] = py_crit(q["name"], funs, "name")
    at = q["attrs"]
    if at[0] == "dict":
        if at[1] or len(at) > 2:
            kw["attrs"] = py_mapping(at[1], at[2] if len(at) > 2 else "dict", funs)
    else:
        kw["attrs"] = py_crit(at[1], funs, "attr")
    if q["string"] != NONE:
        kw["string"] = py_crit(q["string"], funs, "string")
    for k, c in q["kwargs"]:
        kw[k] = py_crit(c, funs, "string" if (k == "text" and q["string"] == NONE) else "attr")
    return kw


def run_impl(case, start, axis, singular, q, via_call=False):
    """Returns (result ids | id | None | 'EXC:..', log)."""
    el = case.forest.objs[start]
    funs = Funs(case.forest)
    if axis == 6:
        q = dict(q, string=NONE)        # find_parents / find_parent take no string argument
    kw = call_args(q, funs)
    try:
        with warnings.catch_warnings():
            warnings.simplefilter("ignore")
            if via_call:
                if q["limit"] is not None:
                    kw["limit"] = q["limit"]
                r = el(recursive=(axis == 0), **kw)
            elif singular:
                m = getattr(el, SINGULAR[axis])
                r = m(recursive=False, **kw) if axis == 1 else m(**kw)
            else:
                if q["limit"] is not None:
                    kw["limit"] = q["limit"]
                m = getattr(el, PLURAL[axis])
                r = m(recursive=False, **kw) if axis == 1 else m(**kw)
    except Exception as e:
        return "EXC:" + type(e).__name__, enc_log(funs.log)
    if singular and not via_call:
        return (None if r is None else case.forest.oid(r)), enc_log(funs.log)
    return [case.forest.oid(x) for x in r], enc_log(funs.log)


# ----------------------------------------------------------------------------------- query lists
def kinds_queries():
    """Every kind of criterion value, side by side, for the name / an attribute / class / string criterion: numbers
    (used through their str: 0 is "0", 0.0 is "0.0"), True (present), False and None (absent), strings that look like
    them, and every flavour of iterable of alternatives (any of)."""
    Q = []
    scalars = [("o", 0), ("o", 0.0), ("o", 1), ("o", -1), ("b", True), ("b", False), ("n",), S("0"), S("False"), S(""), S("1")]
    for a in scalars:
        c = one(a)
        Q.append(mkq(kwargs=[("id", c)]))
        Q.append(mkq(attrs=("dict", [("data-k", c)])))
        Q.append(mkq(kwargs=[("class_", c)]))
        if a != ("n",):
            Q.append(mkq(name=c))
            Q.append(mkq(string=c))
            Q.append(mkq(name=one(S("a")), kwargs=[("id", c)]))
    for fl in MAPPINGS:
        for items in ([("id", one(S("0")))], [("id", one(S("1"))), ("class", one(S("1")))], [("data-k", lst(S("0"), S("-1")))],
                      [("class", one(S("0")))], []):
            Q.append(mkq(attrs=("dict", items, fl)))
            Q.append(mkq(name=one(S("a")), attrs=("dict", items, fl)))
            Q.append(mkq(name=one(S("b")), attrs=("dict", items, fl), limit=1))
        if fl != "tag_attrs":
            Q.append(mkq(attrs=("dict", [("id", one(("b", True))), ("data-k", one(("p", 4)))], fl)))
            Q.append(mkq(attrs=("dict", [("id", one(("b", False)))], fl)))
    Q.append(mkq(kwargs=[("id", lst(("o", 0), ("b", False)))]))
    Q.append(mkq(kwargs=[("id", lst(("b", False), ("o", 1)))]))
    item_sets = {"name": [[S("a"), S("b")], [S("b")], [S("zz"), ("p", 0)], []],
                 "attr": [[S("0"), S("1")], [("o", 0), S("x")], [S("False")], [("o", 1), ("o", -1)], []],
                 "string": [[S("t1"), S("0")], [("o", 0)], [S("t2"), ("p", 10)], []]}
    for fl in FLAVOURS:
        for kind, sets in item_sets.items():
            for atoms in sets:
                if fl in HASHED and not hashable_atoms(atoms):
                    continue
                c = itr(fl, *atoms)
                if kind == "name":
                    Q.append(mkq(name=c))
                    Q.append(mkq(name=c, kwargs=[("id", one(("b", True)))]))
                elif kind == "attr":
                    Q.append(mkq(kwargs=[("id", c)]))
                    Q.append(mkq(attrs=("dict", [("data-k", c)])))
                    Q.append(mkq(kwargs=[("class_", c)]))
                    if fl != "dict":          # a dict given as attrs IS the attrs dictionary, not a class criterion
                        Q.append(mkq(attrs=("other", c)))
                else:
                    Q.append(mkq(string=c))
                    Q.append(mkq(name=one(S("a")), string=c))
    return Q


def kinds_trees():
    """Attribute values and texts that look like numbers, booleans and the empty string."""
    out = []
    with warnings.catch_warnings():
        warnings.simplefilter("ignore")
        for mk in ('<a id="0" data-k="0.0" class="0 x">0</a><a id="1" data-k="False" class="1">t1</a>'
                   '<b id="" data-k="-1" class="">1</b><b id="False" data-k="0">False</b><a>t2</a>',
                   '<a id="x"><b id="0" class="False"><a data-k="1">0</a></b>0.0</a><b class="-1 0" data-k="">t1</b>'):
            out.append(Case([BeautifulSoup(mk, "html.parser")], {"markup": mk}))
    return out


def kinds_block(ctx):
    queries = kinds_queries()
    for case in kinds_trees():
        searches = []
        for start, o in enumerate(case.forest.objs):
            for axis in (0, 2, 3, 6):
                if axis < 2 and not isinstance(o, Tag):
                    continue
                for q in queries:
                    searches.append((start, axis, False, q, False))
                    if axis == 0:
                        searches.append((start, axis, True, q, False))
                        searches.append((start, axis, False, dict(q, limit=1), False))
        for i in range(0, len(searches), 3000):
            check_case(ctx, case, searches[i:i + 3000])


class Boom(Exception):
    """A user exception raised by a criterion function."""


RAISES = [StopIteration, ValueError, Boom]


class RaisingFuns(Funs):
    """Criterion functions that answer like the seeded predicates but raise [exc] at their k-th call."""

    def __init__(self, forest, exc, k):
        Funs.__init__(self, forest)
        self.exc, self.k, self.calls, self.raised = exc, k, 0, False

    def make(self, site, fid):
        def f(arg):
            self.calls += 1
            if self.calls == self.k:
                self.raised = True
                raise self.exc("raised by the criterion function at call %d" % self.k)
            return fun_value(fid, self.key(arg))
        return f


def raising_queries():
    return [mkq(name=one(("f", 0))), mkq(name=one(("f", 2))), mkq(kwargs=[("id", one(("f", 0)))]),
            mkq(name=one(S("a")), kwargs=[("class_", one(("f", 3)))]), mkq(string=one(("f", 0))),
            mkq(name=one(("b", True)), string=one(("f", 5))), mkq(name=lst(S("zz"), ("f", 0)))]


def raising_block(ctx, case):
    """A criterion function is called once per candidate and whatever it raises is the caller's to see: the search
    either raises (any exception) or returns exactly the documented result — never a silently shorter one."""
    wf = case.names_wf()
    if not wf:
        return
    for start, o in enumerate(case.forest.objs):
        for axis in (0, 2, 6):
            if axis < 2 and not isinstance(o, Tag):
                continue
            axl = o_axis(o, axis)
            if not axl:
                continue
            for q in raising_queries():
                qq = dict(q, string=NONE) if axis == 6 else q
                exp = [case.forest.oid(x) for x in axl if o_matches(qq, x, case.forest)]
                for exc in RAISES:
                    for k in (1, 2, 3):
                        for singular, limit in ((False, None), (False, 2), (True, None)):
                            funs = RaisingFuns(case.forest, exc, k)
                            kw = call_args(qq, funs)
                            if limit is not None:
                                kw["limit"] = limit
                            ctx.case((case_key(case), start, axis, "raising", exc.__name__, k, singular, limit, repr(q)))
                            ctx.count("raising_function_cases")
                            try:
                                with warnings.catch_warnings():
                                    warnings.simplefilter("ignore")
                                    m = getattr(o, (SINGULAR if singular else PLURAL)[axis])
                                    r = m(**kw)
                            except BaseException as e:
                                if isinstance(e, (KeyboardInterrupt, SystemExit)):
                                    raise
                                ctx.count("raising_function_surfaced")
                                continue
                            if singular:
                                got, want = (None if r is None else case.forest.oid(r)), (exp[0] if exp else None)
                            else:
                                got, want = [case.forest.oid(x) for x in r], (exp[:limit] if limit else exp)
                            if got != want:
                                ctx.fail({"tree": case.describe(), "start": start, "method": (SINGULAR if singular else PLURAL)[axis],
                                          "query": dict(q, limit=limit), "function_raises": exc.__name__, "at_call": k,
                                          "raised": funs.raised},
                                         "a criterion function raised %s at its call number %d; the search neither raised nor returned "
                                         "the documented result (exception swallowed, result silently truncated)" % (exc.__name__, k),
                                         got, want, tag="raising-function")


def core_queries():
    """The fixed list: every criterion kind alone and the combinations the code treats specially."""
    Q = []
    names = [NONE, one(("b", True)), one(("b", False)), one(S("a")), one(S("b")), one(S("zz")), one(S("p:b")),
             one(S("x:y")), one(S("[document]")), one(("p", 0)), one(("p", 5)), one(("p", 4)), one(("f", 2)), one(("f", 0)),
             one(("f", 1)), lst(S("a"), S("b")), lst(S("b"), ("n",), ("p", 0)), lst(("f", 3), S("a")), lst(S("a")),
             one(("o", 7)), lst(("b", True)), lst(S("p:b"), S("zz")), one(("p", 11))]
    for n in names:
        Q.append(mkq(name=n))
    vals = [one(S("x")), one(S("x y")), one(S("")), one(("b", True)), one(("b", False)), NONE, one(("p", 2)),
            one(("p", 3)), one(("p", 12)), one(("f", 4)), lst(S("x"), S("z")), lst(("n",), S("y")), one(("o", 1)),
            lst(("b", False), S("x")), one(("p", 6))]
    for v in vals:
        Q.append(mkq(kwargs=[("class_", v)]))
        Q.append(mkq(kwargs=[("id", v)]))
    for v in vals[:8]:
        Q.append(mkq(attrs=("dict", [("class", v)])))
        Q.append(mkq(name=one(S("a")), kwargs=[("id", v)]))
    Q.append(mkq(attrs=("other", one(S("x")))))
    Q.append(mkq(attrs=("other", one(("p", 2)))))
    Q.append(mkq(name=one(S("b")), attrs=("other", lst(S("x"), S("y")))))
    Q.append(mkq(attrs=("dict", [("id", one(S("1")))]), kwargs=[("class_", one(S("x")))]))
    Q.append(mkq(attrs=("dict", [("data-k", one(("b", True))), ("id", one(("b", False)))])))
    strs = [one(S("t1")), one(("b", True)), one(("b", False)), one(("p", 7)), one(("p", 3)), one(S("")), one(("f", 5)),
            lst(S("t1"), S("t2")), one(("p", 4)), one(("p", 10))]
    for s in strs:
        Q.append(mkq(string=s))
        Q.append(mkq(name=one(S("a")), string=s))
        Q.append(mkq(kwargs=[("text", s)]))
    Q.append(mkq(name=one(("f", 2)), string=one(("f", 5)), kwargs=[("id", one(("f", 4)))]))
    Q.append(mkq(name=one(("b", True)), kwargs=[("class_", one(("b", True)))], string=one(("b", True))))
    Q.append(mkq(string=one(S("t1")), kwargs=[("text", one(S("t2")))]))        # text= is then an attribute
    Q.append(mkq(kwargs=[("id", one(S("1")))], string=one(S("t1"))))
    return Q


def edge_queries():
    """Outside the oracle's domain or in a known finding: still compared model vs implementation."""
    return [mkq(name=lst()), mkq(kwargs=[("id", lst())]), mkq(string=lst()), mkq(name=one(S("a")), kwargs=[("id", lst())]),
            mkq(name=lst(), kwargs=[("id", one(S("1")))]), mkq(name=one(S("a")), string=lst(("n",))),
            mkq(name=lst(("nested",), ("n",))), mkq(name=lst(("nested",), S("a"))),
            mkq(attrs=("dict", [("id", one(S("1")))]), kwargs=[("id", one(S("2")))]),
            mkq(attrs=("dict", [("class", one(S("x")))]), kwargs=[("class_", one(S("y")))]),
            mkq(name=one(S("a")), attrs=("other", one(S("")))), mkq(name=one(S("a")), attrs=("other", NONE)),
            mkq(attrs=("other", lst())), mkq(name=one(S(":b"))), mkq(name=one(S("a:b:c")))]


def random_atom(rng, kind):
    r = rng.random()
    if kind == "name":
        pool = [S("a"), S("b"), S("p"), S("div"), S("zz"), S("p:b"), S("q:a"), S("x:y"), ("b", True), ("b", False),
                ("p", rng.randrange(len(PATTERNS))), ("f", rng.randrange(NFUN)), ("o", 7), ("n",), ("nested",)]
    elif kind == "attr":
        pool = [S("x"), S("y"), S("z"), S("x y"), S("1"), S("2"), S(""), S("k"), ("b", True), ("b", False),
                ("p", rng.randrange(len(PATTERNS))), ("f", rng.randrange(NFUN)), ("o", 1), ("n",), ("nested",),
                ("o", 0), ("o", 0.0), ("o", -1), S("0"), S("False")]
    else:
        pool = [S("t1"), S("t2"), S("t1t2"), S(""), S(" "), ("b", True), ("b", False), ("p", rng.randrange(len(PATTERNS))),
                ("f", rng.randrange(NFUN)), ("n",), ("nested",)]
    return rng.choice(pool)


def random_crit(rng, kind, none_p=0.0):
    if rng.random() < none_p:
        return NONE
    if rng.random() < 0.3:
        atoms = [random_atom(rng, kind) for _ in range(rng.choice([0, 1, 2, 2, 3]))]
        if rng.random() < 0.5:
            fl = rng.choice(FLAVOURS)
            if fl in HASHED:
                # sets and dict keys: hashable, pairwise different items, and no functions (the iteration order of a
                # set is not the order the items were written in, which would reorder the call log)
                atoms = [a for a in atoms if a[0] not in ("f", "nested")]
                if not hashable_atoms(atoms):
                    fl = "tuple"
            return ("list", atoms, fl)
        return ("list", atoms)
    a = random_atom(rng, kind)
    if a[0] == "nested":
        a = S("a")
    return ("one", a)


def random_query(rng):
    name = random_crit(rng, "name", 0.35)
    r = rng.random()
    if r < 0.55:
        attrs = ("dict", [])
    elif r < 0.85:
        keys = rng.sample(["id", "class", "data-k", "rel", "href", "class_"], rng.choice([1, 1, 2]))
        attrs = ("dict", [(k, random_crit(rng, "attr", 0.1)) for k in keys])
        if rng.random() < 0.4:
            fl = rng.choice(MAPPINGS)
            if fl != "tag_attrs" or plain_values(attrs[1]):
                attrs = attrs + (fl,)
    else:
        c = random_crit(rng, "attr", 0.05)
        if len(c) > 2 and c[2] == "dict":
            c = ("list", c[1], "dict_keys")      # a dict given as attrs IS the attrs dictionary
        attrs = ("other", c)
    kwargs = []
    if rng.random() < 0.4:
        for k in rng.sample(["id", "class_", "data-k", "rel", "text", "href"], rng.choice([1, 1, 2])):
            kwargs.append((k, random_crit(rng, "string" if k == "text" else "attr", 0.1)))
    string = random_crit(rng, "string", 0.7)
    limit = rng.choice([None, None, None, 0, 1, 1, 2, 3, 50])
    return mkq(name, attrs, string, kwargs, limit)


# ----------------------------------------------------------------------------------- tree generators
def small_trees(maxn):
    """Every forest shape with <= maxn elements under a document root, leaves tag/string, with names,
    ids, classes and texts assigned by position."""
    cfg = T.HTML_CFG
    out = []
    for n in range(0, maxn + 1):
        for shape in G.shapes(n):
            for evs in G.leaf_variants(shape):
                if any(e[0] == "d" and (e[1] == "" or e[1].startswith("c")) for e in evs):
                    continue                       # comments (also empty ones): covered by the parsed documents
                evs2, k = [], 0
                for e in evs:
                    if e[0] == "s":
                        k += 1
                        nm = "ab"[k % 2]
                        attrs = []
                        if k % 3 == 0:
                            attrs.append(("id", str(k % 2 + 1)))
                        if k % 2 == 0:
                            attrs.append(("class", ["x", "x y", ""][k % 3]))
                        evs2.append(("s", nm, None, attrs))
                    elif e[0] == "e":
                        evs2.append(("e", "ab"[int(e[1][1:]) % 2], None))
                    elif e[0] == "d":
                        evs2.append(("d", "t%d" % (int(e[1][1:]) % 2 + 1)))
                    else:
                        evs2.append(e)
                # the event builder leaves class unsplit; do what a parser does
                soup = T.build(evs2, cfg)
                for t in soup.find_all(True):
                    if "class" in t.attrs:
                        t["class"] = t["class"].split()
                out.append(Case([soup], {"events": evs2}))
    return out


def random_markup(rng, maxnodes):
    names = ["a", "b", "p", "div", "a", "b", "x:y"]
    classes = ["x", "y", "z", "x y", "y z x", "", " "]
    n = [0]

    def node(depth):
        n[0] += 1
        r = rng.random()
        if r < 0.3 or depth > 4 or n[0] > maxnodes:
            return rng.choice(["t1", "t2", "t1t2", " ", "t1 t2"])
        if r < 0.35:
            return "<!--c%d-->" % rng.randint(1, 2)
        nm = rng.choice(names)
        at = ""
        if rng.random() < 0.5:
            at += ' class="%s"' % rng.choice(classes)
        if rng.random() < 0.4:
            at += ' id="%s"' % rng.choice(["1", "2", "k", "0", "False", ""])
        if rng.random() < 0.2:
            at += ' data-k="%s"' % rng.choice(["x", "x y", "", "0", "0.0", "-1", "1"])
        if rng.random() < 0.15 and nm == "a":
            at += ' rel="%s" href="%s"' % (rng.choice(["x", "x y"]), rng.choice(["k", "2"]))
        kids = "".join(node(depth + 1) for _ in range(rng.choice([0, 1, 1, 2, 3])))
        return "<%s%s>%s</%s>" % (nm, at, kids, nm)
    return "".join(node(0) for _ in range(rng.choice([1, 2, 3])))


def parsed_tree(rng, maxnodes):
    mk = random_markup(rng, maxnodes)
    with warnings.catch_warnings():
        warnings.simplefilter("ignore")
        soup = BeautifulSoup(mk, "html.parser")
    return soup, mk


def edit_tree(rng, soup, steps):
    """Random edits through the public API; returns the list of roots (document + detached fragments)."""
    roots = [soup]
    log = []
    for _ in range(steps):
        tags = [t for r in roots for t in T.preorder(r) if isinstance(t, Tag)]
        els = [t for r in roots for t in T.preorder(r) if t.parent is not None]
        c = rng.randrange(9)
        try:
            if c == 0:
                t = soup.new_tag(rng.choice(["a", "b"]), nsprefix=rng.choice(["p", "q", "p"]))
                if rng.random() < 0.5:
                    t["class"] = rng.choice([["x"], ["x", "y"], []])
                rng.choice(tags).append(t)
                log.append("append prefixed <%s:%s>" % (t.prefix, t.name))
            elif c == 1:
                rng.choice(tags).append(rng.choice(["t1", "t2", ""]))
                log.append("append string")
            elif c == 2 and els:
                x = rng.choice(els)
                x.extract()
                roots.append(x)
                log.append("extract")
            elif c == 3:
                t = rng.choice(tags)
                t.string = rng.choice(["", "t1", "t2"])
                log.append(".string=")
            elif c == 4 and els:
                x = rng.choice(els)
                x.wrap(soup.new_tag(rng.choice(["a", "b", "div"]), id=rng.choice(["1", "2"])))
                log.append("wrap")
            elif c == 5 and els:
                x = rng.choice([e for e in els if isinstance(e, Tag)] or els)
                if isinstance(x, Tag):
                    x.unwrap()
                    roots.append(x)
                    log.append("unwrap")
            elif c == 6:
                t = rng.choice(tags)
                t.insert(rng.randint(0, len(t.contents)), soup.new_tag(rng.choice(["a", "b"]), attrs={"class": ["x", "z"]}))
                log.append("insert new tag")
            elif c == 7 and els:
                x = rng.choice(els)
                x.replace_with(soup.new_tag("b", id="k"))
                roots.append(x)
                log.append("replace_with")
            else:
                t = rng.choice(tags)
                k = rng.choice(["id", "class", "data-k"])
                t[k] = rng.choice([["x"], ["y", "x"], []]) if k == "class" else rng.choice(["1", "2", "x y", ""])
                log.append("set attribute")
        except ValueError:
            pass
    roots = [r for i, r in enumerate(roots) if r.parent is None and all(r is not s for s in roots[:i])]
    return roots, log


# ----------------------------------------------------------------------------------- running a batch
def check_case(ctx, case, searches, oracle_on=True):
    """searches: list of (start, axis, singular, q, via_call). Runs impl, oracle, model, spec."""
    fids, pids = set(), set()
    for s in searches:
        fids |= funs_used(s[3])
        pids |= pats_used(s[3])
    impl = []
    wf = case.names_wf()
    axes = {}
    for (start, axis, singular, q, via_call) in searches:
        res, log = run_impl(case, start, axis, singular, q, via_call)
        impl.append((res, log))
        el = case.forest.objs[start]
        if (start, axis) not in axes:
            axes[(start, axis)] = o_axis(el, axis)
        axl = axes[(start, axis)]
        key = (case_key(case), start, axis, singular, via_call, repr(q))
        ctx.case(key, nontrivial=bool(axl) and (q != mkq() or singular))
        cdesc = lambda: {"tree": case.describe(), "start": start, "method": (SINGULAR if singular else PLURAL)[axis] +
                         ("(recursive=False)" if axis == 1 else "") + (" via tag(...)" if via_call else ""), "query": q}
        if isinstance(res, str):
            ctx.fail(cdesc(), "search raised an exception", res, "a result", tag="exception")
            continue
        if not oracle_on or not wf or in_domain(q) is not None:
            continue
        qq = dict(q)
        if axis == 6:
            qq["string"] = NONE
        if singular:
            qq["limit"] = None
        exp = [case.forest.oid(x) for x in axl if o_matches(qq, x, case.forest)]
        if qq["limit"]:
            exp = exp[:qq["limit"]]
        bad = unusable_crits(qq)
        tag = "unusable-list-criterion" if bad else None
        if bad:
            ctx.count("cases_with_unusable_list_criterion")
            if ctx.counts.get("unusable_recorded", 0) >= 25:
                continue              # the open finding is already documented by 25 concrete cases
        if singular:
            e1 = exp[0] if exp else None
            if res != e1:
                ctx.fail(cdesc(), "singular method is not the first match of its axis (or None)", res, e1, tag=tag)
                if bad:
                    ctx.count("unusable_recorded")
        else:
            if res != exp:
                what = "search does not return exactly the matches of its axis, in axis order"
                if q["limit"]:
                    what = "limit=k does not return the first k of the unlimited result"
                ctx.fail(cdesc(), what, res, exp, tag=tag)
                if bad:
                    ctx.count("unusable_recorded")
        # a function as the name criterion: once per candidate tag, with the Tag itself
        if q["name"][0] == "one" and q["name"][1][0] == "f" and not bad:
            fid = q["name"][1][1]
            ncalls = [e for e in log if e[0] == 0]
            cand = []
            hits = 0
            string, acs = o_effective(qq)
            for x in axl:
                if isinstance(x, Tag):
                    cand.append([0, fid, [0, case.forest.oid(x)]])
                if o_matches(qq, x, case.forest):
                    hits += 1
                    if (singular and hits >= 1) or (q["limit"] and hits >= q["limit"] and not singular):
                        break
            if ncalls != cand:
                ctx.fail(cdesc(), "function name-criterion not called exactly once per candidate tag with the Tag itself",
                         ncalls, cand, tag="function-calls")
    if not ctx.build.model_ok:
        return
    ft, pt = case.tables(fids, pids)
    qidx, qlist, cmds = {}, [], []
    for (start, axis, singular, q, via_call) in searches:
        key = repr((q["name"], q["attrs"], q["string"], q["kwargs"]))
        if key not in qidx:
            qidx[key] = len(qlist)
            qlist.append(enc_query(dict(q, limit=None)))
        lim = [] if (q["limit"] is None or (singular and not via_call)) else [q["limit"]]
        cmds.append([2 if via_call else (1 if singular else 0), axis, start, qidx[key], lim])
    # the extracted model is started as few times as possible: commands are queued and run in batches
    _PENDING.append(([10001, case.forest.dump(), case.ext(), ft, pt, qlist, cmds], case, searches, impl, wf))
    if len(_PENDING) >= 60:
        flush_model(ctx)


_PENDING = []


def flush_model(ctx):
    """Run the queued model commands in one go and compare each with the implementation's results."""
    global _PENDING
    pending, _PENDING = _PENDING, []
    if not pending:
        return
    outs = ctx.model.run([p[0] for p in pending], chunk=30)
    for (cmd, case, searches, impl, wf), out in zip(pending, outs):
        compare_model(ctx, case, searches, impl, wf, out)


def compare_model(ctx, case, searches, impl, wf, out):
    if isinstance(out, tuple):
        ctx.disagree("extracted model failed", {"tree": case.describe()}, None, out[1])
        return
    for k, (start, axis, singular, q, via_call) in enumerate(searches):
        res, log = impl[k]
        if isinstance(res, str):
            continue
        m, sp = out[k][:2], out[k][2:]
        cdesc = {"tree": case.describe(), "start": start, "method": (SINGULAR if singular else PLURAL)[axis] +
                 ("(recursive=False)" if axis == 1 else "") + (" via tag(...)" if via_call else ""), "query": q}
        mres = (m[0][0] if m[0] else None) if (singular and not via_call) else m[0]
        qq = dict(q, string=NONE) if axis == 6 else q
        dom = wf and in_domain(qq) is None and not unusable_crits(qq)
        if mres != res or m[1] != log:
            if not dom:
                # outside the property's domain (see RULE): a difference there is recorded, not a verdict
                ctx.count("model_differs_outside_domain")
                if ctx.counts["model_differs_outside_domain"] <= 3:
                    ctx.notes.append("model and implementation differ outside the domain: %r -> impl %r model %r" % (q, res, mres))
                continue
            if mres != res:
                ctx.disagree("find_* result ~ Model.Search.find_all_method / find_method", cdesc, res, mres)
            else:
                ctx.disagree("user-function call log ~ Model.Search (call log)", cdesc, log, m[1])
            continue
        # the Coq specification against the implementation, inside the theorem's domain
        spec_res, qok, nwf = sp[0], sp[1], sp[2]
        if qok and nwf:
            ctx.count("spec_evaluated")
            if singular and not via_call:
                if (spec_res[0] if spec_res else None) != res:
                    ctx.disagree("Spec.SearchSpec.find_all_spec (head) ~ implementation", cdesc, res, spec_res[:1])
            elif spec_res != res:
                ctx.disagree("Spec.SearchSpec.find_all_spec ~ implementation", cdesc, res, spec_res)


_case_ids = {}


def case_key(case):
    k = id(case)
    if k not in _case_ids:
        _case_ids[k] = hashlib.blake2b(repr(case.describe()).encode(), digest_size=8).hexdigest()
    return _case_ids[k]


def all_starts(case):
    return [i for i, o in enumerate(case.forest.objs)]


def core_block(ctx, cases, limits, queries, singular_too=True):
    for case in cases:
        searches = []
        for start in all_starts(case):
            for axis in range(7):
                if axis < 2 and not isinstance(case.forest.objs[start], Tag):
                    continue                      # descendants / children exist for tags only
                for q in queries:
                    for lim in limits:
                        searches.append((start, axis, False, dict(q, limit=lim), False))
                    if singular_too:
                        searches.append((start, axis, True, q, False))
        for i in range(0, len(searches), 3000):
            check_case(ctx, case, searches[i:i + 3000])
        if too_many(ctx):
            return


def too_many(ctx):
    return len([f for f in ctx.failures if f.get("tag") != "unusable-list-criterion"]) + len(ctx.disagreements) > 40


def random_block(ctx, case, nq):
    rng = ctx.rng
    searches = []
    starts = all_starts(case)
    for _ in range(nq):
        q = random_query(rng)
        start = rng.choice(starts)
        axis = rng.randrange(7)
        if axis < 2 and not isinstance(case.forest.objs[start], Tag):
            axis = rng.randrange(2, 7)
        r = rng.random()
        if r < 0.3:
            searches.append((start, axis, True, dict(q, limit=None), False))
        elif r < 0.4 and axis in (0, 1) and isinstance(case.forest.objs[start], Tag):
            searches.append((start, axis, False, q, True))
        else:
            searches.append((start, axis, False, q, False))
    check_case(ctx, case, searches)


# ----------------------------------------------------------------------------------- shorthands
def shorthand_block(ctx, case):
    """tag(...) is find_all(...); tag.name is find(name); the BS3 .nameTag spelling; AttributeError cases."""
    cmds, items = [], []
    for start, o in enumerate(case.forest.objs):
        if not isinstance(o, Tag):
            continue
        for nm in ["a", "b", "zz", "aTag", "bTag", "Tag", "xTag", "Tags", "ag", "__x", "__", "_a", "contents", "content", "p:b", "x:y", "xTagTag"]:
            funs = Funs(case.forest)
            with warnings.catch_warnings():
                warnings.simplefilter("ignore")
                try:
                    r = Tag.__getattr__(o, nm)
                    got = ["ok", None if r is None else case.forest.oid(r)]
                except AttributeError:
                    got = ["AttributeError"]
                # the documented equivalence, on the implementation itself
                target = nm[:-3] if (len(nm) > 3 and nm.endswith("Tag")) else nm
                if got[0] == "ok":
                    f = o.find(target)
                    if (None if f is None else case.forest.oid(f)) != got[1]:
                        ctx.fail({"tree": case.describe(), "start": start, "attribute": nm}, "tag.%s is not tag.find(%r)" % (nm, target),
                                 got[1], None if f is None else case.forest.oid(f), tag="shorthand")
                    exp = o_find_all(mkq(name=one(S(target))), o, 0, case.forest)
                    e1 = case.forest.oid(exp[0]) if exp else None
                    if got[1] != e1 and case.names_wf():
                        ctx.fail({"tree": case.describe(), "start": start, "attribute": nm},
                                 "tag.%s is not the first descendant tag named %r" % (nm, target), got[1], e1, tag="shorthand")
                elif not (nm.startswith("__") or nm == "contents"):
                    ctx.fail({"tree": case.describe(), "start": start, "attribute": nm}, "tag.%s raised AttributeError" % nm,
                             "AttributeError", "find(%r)" % nm, tag="shorthand")
            ctx.case((case_key(case), start, "getattr", nm))
            cmds.append([3, start, nm])
            items.append((start, nm, got))
        # tag(...) vs tag.find_all(...)
        for q in (mkq(name=one(S("a"))), mkq(kwargs=[("class_", one(S("x")))], limit=1), mkq(string=one(("b", True)))):
            for rec in (True, False):
                funs = Funs(case.forest)
                kw = call_args(q, funs)
                if q["limit"] is not None:
                    kw["limit"] = q["limit"]
                a = o(recursive=rec, **kw)
                b = o.find_all(recursive=rec, **kw)
                ctx.case((case_key(case), start, "call", rec, repr(q)))
                if len(a) != len(b) or any(x is not y for x, y in zip(a, b)):
                    ctx.fail({"tree": case.describe(), "start": start, "query": q, "recursive": rec},
                             "tag(...) is not tag.find_all(...)", [case.forest.oid(x) for x in a], [case.forest.oid(x) for x in b], tag="shorthand")
    if ctx.build.model_ok and cmds:
        _PENDING_SH.append(([10000, case.forest.dump(), case.ext(), [], [], cmds], case, items))
        if len(_PENDING_SH) >= 60:
            flush_shorthand(ctx)


_PENDING_SH = []


def flush_shorthand(ctx):
    global _PENDING_SH
    pending, _PENDING_SH = _PENDING_SH, []
    if not pending:
        return
    outs = ctx.model.run([p[0] for p in pending], chunk=60)
    for (cmd, case, items), out in zip(pending, outs):
        if isinstance(out, tuple):
            ctx.disagree("extracted model failed", {"tree": case.describe()}, None, out[1])
            continue
        for (start, nm, got), m in zip(items, out):
            mm = ["AttributeError"] if not m else ["ok", (m[0][0][0] if m[0][0] else None)]
            if mm != got and case.names_wf():
                ctx.disagree("Tag.__getattr__ ~ Model.Search.getattr_m", {"tree": case.describe(), "start": start, "attribute": nm}, got, mm)


# ----------------------------------------------------------------------------------- CSS clause
def shorthand_corpus():
    """Tags whose own names look like the BS3 spelling or the special-cased attribute names."""
    with warnings.catch_warnings():
        warnings.simplefilter("ignore")
        soup = BeautifulSoup("<b><a>t1</a></b>", "html.parser")
        for nm in ["Tag", "xTag", "x", "_a", "content", "Tags", "ag", "xTagTag"]:
            soup.b.append(soup.new_tag(nm))
    return Case([soup], {"markup": "<b><a>t1</a></b> + new tags Tag xTag x _a content Tags ag xTagTag appended to <b>"})


# ----------------------------------------------------------------------------------- every public entry point
# The documented names of the seven families and every other public spelling of them (the camelCase / fetch*
# names kept for BS3 / 4.0 code).  The table is the documentation's, not read from the implementation:
# entry point -> (axis, singular).
ENTRY_POINTS = {
    "find_all": (0, False), "findAll": (0, False), "findChildren": (0, False),
    "find": (0, True), "findChild": (0, True),
    "find_all_next": (2, False), "findAllNext": (2, False),
    "find_next": (2, True), "findNext": (2, True),
    "find_all_previous": (3, False), "findAllPrevious": (3, False), "fetchAllPrevious": (3, False),
    "find_previous": (3, True), "findPrevious": (3, True),
    "find_next_siblings": (4, False), "findNextSiblings": (4, False), "fetchNextSiblings": (4, False),
    "find_next_sibling": (4, True), "findNextSibling": (4, True),
    "find_previous_siblings": (5, False), "findPreviousSiblings": (5, False), "fetchPreviousSiblings": (5, False),
    "find_previous_sibling": (5, True), "findPreviousSibling": (5, True),
    "find_parents": (6, False), "findParents": (6, False), "fetchParents": (6, False),
    "find_parent": (6, True), "findParent": (6, True),
}


def entry_queries():
    return [mkq(), mkq(name=one(S("a"))), mkq(name=one(S("b"))), mkq(name=one(("b", True))),
            mkq(kwargs=[("class_", one(S("x")))]), mkq(kwargs=[("id", one(("b", True)))]),
            mkq(string=one(("b", True))), mkq(string=one(S("t1"))), mkq(name=lst(S("a"), S("b")), limit=1),
            mkq(name=one(S("a")), limit=2), mkq(name=one(("p", 4)))]


def entry_point_block(ctx, case, queries=None):
    """Every public spelling of every family, from every element: the result must be the documented one of ITS axis
    (independent oracle) — so an alias bound to the wrong method, axis or arity is a violation."""
    queries = queries or entry_queries()
    wf = case.names_wf()
    for start, o in enumerate(case.forest.objs):
        axes = {}
        for name, (axis, singular) in ENTRY_POINTS.items():
            if axis < 2 and not isinstance(o, Tag):
                continue
            if axis not in axes:
                axes[axis] = o_axis(o, axis)
            for q in queries:
                if singular and q["limit"] is not None:
                    continue
                qq = dict(q, string=NONE) if axis == 6 else q
                funs = Funs(case.forest)
                kw = call_args(qq, funs)
                if not singular and q["limit"] is not None:
                    kw["limit"] = q["limit"]
                ctx.case((case_key(case), start, "entry", name, repr(q)), nontrivial=bool(axes[axis]))
                ctx.count("entry_point_cases")
                cdesc = {"tree": case.describe(), "start": start, "entry_point": name, "query": q,
                         "documented_as": (SINGULAR if singular else PLURAL)[axis]}
                try:
                    with warnings.catch_warnings():
                        warnings.simplefilter("ignore")
                        r = getattr(o, name)(**kw)
                except Exception as e:
                    ctx.fail(cdesc, "public search entry point raised an exception", "EXC:" + type(e).__name__, "a result", tag="entry-point")
                    continue
                if not wf or unusable_crits(qq):
                    continue
                exp = [x for x in axes[axis] if o_matches(qq, x, case.forest)]
                if singular:
                    got = None if r is None else case.forest.oid(r)
                    want = case.forest.oid(exp[0]) if exp else None
                else:
                    got = [case.forest.oid(x) for x in r]
                    want = [case.forest.oid(x) for x in (exp[:q["limit"]] if q["limit"] else exp)]
                if got != want:
                    ctx.fail(cdesc, "%s() does not return the documented result of its axis (%s)" % (name, AXES[axis]), got, want,
                             tag="entry-point")


# selectors of the common subset, structured as in Spec/CssSpec.v:
#   simple   ("c", cls) | ("i", id) | ("k", key) | ("e", key, value)
#   compound (type or None, [simples])
#   complex  (compound, [(comb, compound), ...])    comb 0 = descendant, 1 = child; nearest first
#   selector [complex, ...]
def compound_text(c):
    tp, simples = c
    out = tp or ""
    for sm in simples:
        if sm[0] == "c":
            out += "." + sm[1]
        elif sm[0] == "i":
            out += "#" + sm[1]
        elif sm[0] == "k":
            out += "[%s]" % sm[1]
        else:
            out += '[%s="%s"]' % (sm[1], sm[2])
    return out or "*"


def complex_text(cx):
    last, left = cx
    out = compound_text(last)
    for comb, c in left:
        out = compound_text(c) + (" > " if comb else " ") + out
    return out


def selector_text(sel):
    return ", ".join(complex_text(cx) for cx in sel)


def enc_compound(c):
    tp, simples = c
    es = []
    for sm in simples:
        es.append([{"c": 0, "i": 1, "k": 2, "e": 3}[sm[0]]] + list(sm[1:]))
    return [[] if tp is None else [tp], es]


def enc_selector(sel):
    return [[enc_compound(last), [[comb, enc_compound(c)] for comb, c in left]] for last, left in sel]


def compound_call(c):
    """The find_all arguments that read a compound: name and an attrs dictionary."""
    tp, simples = c
    attrs = {}
    for sm in simples:
        if sm[0] == "c":
            attrs["class"] = sm[1]
        elif sm[0] == "i":
            attrs["id"] = sm[1]
        elif sm[0] == "k":
            attrs[sm[1]] = True
        else:
            attrs[sm[1]] = sm[2]
    return tp, attrs


def left_fa(x, left):
    """The left part of a complex selector by find_parent / find_parents (Spec.CssSpec.left_fa)."""
    if not left:
        return True
    (comb, c), rest = left[0], left[1:]
    name, attrs = compound_call(c)
    if comb:
        p = x.find_parent(name, attrs)
        return p is not None and p is x.find_parent() and left_fa(p, rest)
    return any(left_fa(p, rest) for p in x.find_parents(name, attrs))


def select_fa(tag, sel):
    """select() as a composition of find_all calls (Spec.CssSpec.select_fa), on the implementation."""
    lists = []
    for last, left in sel:
        name, attrs = compound_call(last)
        lists.append([x for x in tag.find_all(name, attrs) if left_fa(x, left)])
    return [x for x in tag.find_all() if any(any(x is y for y in l) for l in lists)]


def css_selectors(case, rng):
    objs = case.forest.objs
    tags = [o for o in objs if isinstance(o, Tag)]
    names = sorted({t.name for t in tags if t.name.isalnum()})[:4]
    classes = sorted({c for t in tags if isinstance(t.get("class"), list) for c in t["class"] if c.isalnum()})[:3]
    ids = sorted({t["id"] for t in tags if isinstance(t.get("id"), str) and t["id"].isalnum()})[:3]
    comps = [(n, []) for n in names] + [(None, [("c", c)]) for c in classes]
    comps += [(None, [("i", i)]) for i in ids if not i[0].isdigit()] + [(None, [("e", "id", i)]) for i in ids]
    comps += [(None, [("k", k)]) for k in ("class", "id", "data-k", "rel")] + [(None, [("e", "data-k", "x")]), (None, [("e", "href", "k")])]
    comps += [(n, [("c", c)]) for n in names[:2] for c in classes[:2]] + [(n, [("k", "id")]) for n in names[:2]]
    if names and classes and ids:
        comps.append((names[0], [("c", classes[0]), ("e", "id", ids[0])]))
        comps.append((None, [("c", classes[-1]), ("k", "id")]))
    sels = [[(c, [])] for c in comps]
    pool = comps[:len(names) + len(classes) + 2] or comps
    for _ in range(14):
        if not pool:
            break
        depth = rng.choice([1, 1, 2, 3])
        sels.append([(rng.choice(comps), [(rng.choice([0, 1]), rng.choice(pool)) for _ in range(depth)])])
    for _ in range(5):
        if len(sels) >= 2:
            sels.append([rng.choice(sels)[0] for _ in range(rng.choice([2, 2, 3]))])
    return sels


def css_domain(case):
    for o in case.forest.objs:
        if isinstance(o, Tag):
            if o.prefix or (o.name != o.name.lower()) or (":" in o.name and False):
                return False
            for k, v in o.attrs.items():
                if k == "class" and not isinstance(v, list):
                    return False
                if k in ("id", "data-k", "href") and isinstance(v, list):
                    return False
    return True


def css_entry_points(ctx, case, start, o, text, eid):
    """Every CSS entry point of a tag, with and without a limit, against the find_all composition [eid]
    (limit=k: the first k; 0: no limit): Tag.select / Tag.select_one, tag.css.select / select_one / iselect."""
    oid = case.forest.oid
    calls = [("tag.css.select(s)", lambda: [oid(x) for x in o.css.select(text)], eid),
             ("list(tag.css.iselect(s))", lambda: [oid(x) for x in o.css.iselect(text)], eid),
             ("tag.css.select_one(s)", lambda: (lambda r: None if r is None else oid(r))(o.css.select_one(text)), eid[0] if eid else None),
             ("tag.select(s, limit=0)", lambda: [oid(x) for x in o.select(text, limit=0)], eid)]
    for k in (1, 2):
        if len(eid) + 1 < k:
            continue
        calls.append(("tag.select(s, limit=%d)" % k, lambda k=k: [oid(x) for x in o.select(text, limit=k)], eid[:k]))
        calls.append(("tag.css.select(s, limit=%d)" % k, lambda k=k: [oid(x) for x in o.css.select(text, limit=k)], eid[:k]))
        calls.append(("list(tag.css.iselect(s, limit=%d))" % k, lambda k=k: [oid(x) for x in o.css.iselect(text, limit=k)], eid[:k]))
    for label, fn, want in calls:
        ctx.count("css_entry_point_cases")
        try:
            got = fn()
        except Exception as e:
            got = "EXC:" + type(e).__name__
        if got != want:
            ctx.fail({"tree": case.describe(), "start": start, "selector": text, "call": label},
                     "%s disagrees with the find_all composition (limit = a prefix)" % label, got, want, tag="css")


_PENDING_CSS = []


def css_block(ctx, case):
    """The CSS clause.  (a) property: select() = the find_all composition, on the implementation; (b) the Coq
    specification of select() (Spec.CssSpec.select_spec) against soupsieve's answer (correspondence: soupsieve is
    third-party and trusted) and against its proved find_all form."""
    if not css_domain(case):
        return
    sels = css_selectors(case, ctx.rng)
    items, recs = [], []
    for start, o in enumerate(case.forest.objs):
        if not isinstance(o, Tag):
            continue
        for sel in sels:
            text = selector_text(sel)
            try:
                got = o.select(text)
            except Exception as e:
                ctx.count("css_rejected_by_soupsieve")
                continue
            exp = select_fa(o, sel)
            ctx.case((case_key(case), start, "css", text))
            ctx.count("css_cases")
            gid, eid = [case.forest.oid(x) for x in got], [case.forest.oid(x) for x in exp]
            if gid != eid:
                ctx.fail({"tree": case.describe(), "start": start, "selector": text},
                         "CSS selection disagrees with find_all on a selector both can express", gid, eid, tag="css")
            one_ = o.select_one(text)
            if (None if one_ is None else case.forest.oid(one_)) != (eid[0] if eid else None):
                ctx.fail({"tree": case.describe(), "start": start, "selector": text}, "select_one is not the first of select",
                         None if one_ is None else case.forest.oid(one_), eid[0] if eid else None, tag="css")
            css_entry_points(ctx, case, start, o, text, eid)
            items.append([start, enc_selector(sel)])
            recs.append((start, text, gid))
    if ctx.build.model_ok and items:
        _PENDING_CSS.append(([10002, case.forest.dump(), case.ext(), items], case, recs))
        if len(_PENDING_CSS) >= 40:
            flush_css(ctx)


def flush_css(ctx):
    global _PENDING_CSS
    pending, _PENDING_CSS = _PENDING_CSS, []
    if not pending:
        return
    outs = ctx.model.run([p[0] for p in pending], chunk=40)
    for (cmd, case, recs), out in zip(pending, outs):
        if isinstance(out, tuple):
            ctx.disagree("extracted model failed", {"tree": case.describe()}, None, out[1])
            continue
        for (start, text, gid), (spec, fa, ok) in zip(recs, out):
            ctx.count("css_spec_evaluated")
            cdesc = {"tree": case.describe(), "start": start, "selector": text}
            if spec != gid:
                ctx.disagree("Spec.CssSpec.select_spec ~ soupsieve's select (third-party, trusted)", cdesc, gid, spec)
            elif ok and fa != spec:
                ctx.disagree("Spec.CssSpec.select_fa = select_spec (C10_css_select_is_find_all, evaluated)", cdesc, spec, fa)


# ----------------------------------------------------------------------------------- corpus
def corpus_cases():
    """Witnesses of the defects fixed for this property (a regression is a violation)."""
    out = []
    with warnings.catch_warnings():
        warnings.simplefilter("ignore")
        s = BeautifulSoup("<a id='1'><b class='x y'>t1</b><c></c></a>", "html.parser")
        out.append((Case([s], {"markup": "<a id='1'><b class='x y'>t1</b><c></c></a>"}),
                    [(0, 0, True, mkq(), False), (0, 0, False, mkq(limit=1), False), (0, 0, False, mkq(limit=2), False),
                     (2, 6, True, mkq(), False), (1, 2, True, mkq(), False), (1, 2, False, mkq(limit=1), False),
                     (0, 0, False, mkq(name=one(S("a")), kwargs=[("id", one(("b", True)))], limit=0), False),
                     (0, 0, False, mkq(name=lst(S("a"), S("b")), limit=0), False)]))
        s = BeautifulSoup("<a><b>t1</b></a>", "html.parser")
        s.a.append(s.new_tag("b", nsprefix="p"))
        out.append((Case([s], {"markup": "<a><b>t1</b></a> + <p:b> appended"}),
                    [(0, 0, False, mkq(name=one(("f", 1))), False), (0, 0, False, mkq(name=one(("f", 3))), False),
                     (0, 0, False, mkq(name=one(S("p:b"))), False), (0, 0, False, mkq(name=one(S("p:b")), limit=1), False)]))
        s = BeautifulSoup("<a>t1</a><c>y</c>", "html.parser")
        s.c.string = ""
        out.append((Case([s], {"markup": "<a>t1</a><c></c> with c.string = ''"}),
                    [(0, 0, False, mkq(string=one(("b", True))), False), (0, 0, False, mkq(string=one(S(""))), False),
                     (0, 0, True, mkq(string=one(S(""))), False), (0, 0, False, mkq(string=one(("p", 3))), False)]))
        s = BeautifulSoup("<p class=''>t1</p><p class=' '>t2</p><p>t1</p><p class='a'>t2</p>", "html.parser")
        out.append((Case([s], {"markup": "<p class=''>t1</p><p class=' '>t2</p><p>t1</p><p class='a'>t2</p>"}),
                    [(0, 0, False, mkq(kwargs=[("class_", one(("b", True)))]), False),
                     (0, 0, False, mkq(kwargs=[("class_", one(("b", False)))]), False),
                     (0, 0, False, mkq(kwargs=[("class_", one(S("")))]), False),
                     (0, 0, False, mkq(kwargs=[("class_", one(("p", 3)))]), False)]))
    return out


# ----------------------------------------------------------------------------------- entry points
def run(ctx):
    try:
        run_all(ctx)
    finally:
        flush_model(ctx)
        flush_shorthand(ctx)
        flush_css(ctx)


def run_all(ctx):
    rng = ctx.rng
    with warnings.catch_warnings():
        warnings.simplefilter("ignore")
        for case, searches in corpus_cases():
            check_case(ctx, case, searches)
        kinds_block(ctx)
        for case in kinds_trees():
            raising_block(ctx, case)
        core = core_queries()
        edge = edge_queries()
        small = small_trees(4 if ctx.thorough else 3)
        ctx.sample({"small_tree": small[len(small) // 2].describe(), "query": core[40]})
        # exhaustive product on the small trees: every start x family x plural-with-each-limit + singular x core query
        if ctx.thorough:
            core_block(ctx, small, [None, 0, 1, 2, 50], core)
            scope = "(limits None,0,1,2,50 plural + singular) x %d core queries" % len(core)
        else:
            core_block(ctx, small, [None, 1], core)
            core_block(ctx, small, [0, 2, 50], core[::4], singular_too=False)
            scope = "(limits None,1 plural + singular) x %d core queries, and limits 0,2,50 x every 4th core query" % len(core)
        core_block(ctx, small[::3], [None, 1], edge)
        ctx.extra_cov["exhaustive"] = True
        ctx.extra_cov["exhaustive_scope"] = ("%d trees (every forest shape with <=%d elements x leaf kinds) x every start x 7 families x %s"
                                             % (len(small), 4 if ctx.thorough else 3, scope))
        if too_many(ctx):
            return
        shorthand_block(ctx, shorthand_corpus())
        for case in small[::2]:
            shorthand_block(ctx, case)
            css_block(ctx, case)
        for case in small:
            entry_point_block(ctx, case)
        ndocs = 400 if ctx.thorough else 60
        for i in range(ndocs):
            soup, mk = parsed_tree(rng, rng.choice([6, 10, 16]))
            case = Case([soup], {"markup": mk})
            random_block(ctx, case, 250 if ctx.thorough else 120)
            if i % 4 == 0:
                css_block(ctx, case)
                shorthand_block(ctx, case)
            if i % 6 == 0:
                entry_point_block(ctx, case, rng.sample(entry_queries(), 4))
            if i % 20 == 5:
                raising_block(ctx, case)
            if i % 5 == 0:
                core_block(ctx, [case], [None, 2], rng.sample(core, 12) + rng.sample(edge, 3))
            if i == 1:
                ctx.sample({"parsed_markup": mk})
            # the same document after random edits (prefixed tags, empty strings, detached fragments)
            roots, elog = edit_tree(rng, soup, rng.randint(3, 10))
            ecase = Case(roots, {"markup": mk, "edits": elog})
            random_block(ctx, ecase, 250 if ctx.thorough else 120)
            if i % 5 == 1:
                core_block(ctx, [ecase], [None, 1], rng.sample(core, 10) + rng.sample(edge, 3))
                css_block(ctx, ecase)
            if i % 6 == 3:
                entry_point_block(ctx, ecase, rng.sample(entry_queries(), 4))
            if i == 2:
                ctx.sample({"edited_tree": ecase.describe()["elements"][:8], "edits": elog})
            if too_many(ctx):
                return
        # malformed stream: whatever html.parser makes of token soup is still a tree to search
        for i in range(200 if ctx.thorough else 30):
            mk = "".join(rng.choice(["<a>", "</a>", "<b class='x y'>", "</b>", "t1", "<p id=1>", "</p>", "<br>", "<!--c-->", "<x:y>", "&amp;", "<a class=>"])
                         for _ in range(rng.randint(1, 12)))
            soup = BeautifulSoup(mk, "html.parser")
            random_block(ctx, Case([soup], {"markup": mk}), 60)


def matcher_unusable(f):
    """The implementation returns a superset because a criterion that is a list with no usable item
    (empty, or only None / nested lists) is dropped when another criterion is present."""
    if f.get("tag") != "unusable-list-criterion":
        return False
    obs, exp = f.get("observed"), f.get("expected")
    if isinstance(exp, list) and isinstance(obs, list):
        return exp == [] or all(x in obs for x in exp)
    return exp is None


KNOWN_MATCHERS = {"unusable_list_criterion": matcher_unusable}


def replay_known(ctx, k):
    w = k.get("witness", {})
    with warnings.catch_warnings():
        warnings.simplefilter("ignore")
        soup = BeautifulSoup(w.get("markup", "<a id='1'></a><a></a>"), "html.parser")
        return len(soup.find_all("a", id=[])) != 0


def rebuild(desc):
    """A Case rebuilt from Case.describe() (same ids, same structure, same names / prefixes / attributes / texts)."""
    import bs4.element as E
    els = desc["elements"]
    objs = {}
    with warnings.catch_warnings():
        warnings.simplefilter("ignore")
        for e in els:
            if "tag" in e:
                if e["tag"] == "[document]":
                    o = BeautifulSoup("", "html.parser")
                else:
                    o = Tag(name=e["tag"], prefix=e["prefix"])
                    for k, v in e["attrs"].items():
                        o.attrs[k] = v
            else:
                o = getattr(E, e.get("class", "NavigableString"), NavigableString)(e["text"])
            objs[e["id"]] = o
        child = set()
        for e in els:
            for c in e.get("children", []):
                objs[e["id"]].append(objs[c])
                child.add(c)
    roots = [objs[e["id"]] for e in els if e["id"] not in child]
    case = Case(roots, desc.get("origin"))
    assert [case.forest.oid(objs[e["id"]]) for e in els] == [e["id"] for e in els], "ids changed in rebuild"
    return case


def replay(ctx, data):
    f = data.get("failure") or {}
    case = f.get("case") or (data.get("disagreements") or [{}])[0].get("case")
    print("what:", f.get("what") or (data.get("disagreements") or [{}])[0].get("correspondence"))
    print("case:", case)
    print("recorded: observed", f.get("observed"), "expected", f.get("expected"))
    if not case or "tree" not in case:
        return 1
    c = rebuild(case["tree"])
    o = c.forest.objs[case["start"]]
    if "function_raises" in case:
        q = norm_query(case["query"])
        m = case["method"]
        singular = m in SINGULAR and m not in PLURAL
        axis = (SINGULAR if singular else PLURAL).index(m)
        exc = {e.__name__: e for e in RAISES}[case["function_raises"]]
        funs = RaisingFuns(c.forest, exc, case["at_call"])
        qq = dict(q, string=NONE) if axis == 6 else q
        kw = call_args(qq, funs)
        if q["limit"] is not None and not singular:
            kw["limit"] = q["limit"]
        try:
            with warnings.catch_warnings():
                warnings.simplefilter("ignore")
                r = getattr(o, m)(**kw)
            got = (None if r is None else c.forest.oid(r)) if singular else [c.forest.oid(x) for x in r]
        except Exception as e:
            print("re-run: the search raised %s: as documented, the function's exception is not swallowed" % type(e).__name__)
            return 0
        print("re-run: function raised=%s at call %d; %s returned %r; documented result %r" % (funs.raised, case["at_call"], m, got, f.get("expected")))
        return 0 if got == f.get("expected") else 1
    if "selector" in case:
        text, call = case["selector"], case.get("call", "tag.select(s)")
        k = int(call.split("limit=")[1].rstrip(")")) if "limit=" in call else 0
        oid = c.forest.oid
        if "iselect" in call:
            got = [oid(x) for x in o.css.iselect(text, limit=k)]
        elif "select_one" in call:
            r = o.css.select_one(text)
            got = None if r is None else oid(r)
        elif "css.select" in call:
            got = [oid(x) for x in o.css.select(text, limit=k)]
        else:
            got = [oid(x) for x in o.select(text, limit=k)]
        print("re-run: %s with s = %r ->" % (call, text), got)
        return 0 if got == f.get("expected") else 1
    if "entry_point" in case:
        name = case["entry_point"]
        axis, singular = ENTRY_POINTS[name]
        q = norm_query(case["query"])
        qq = dict(q, string=NONE) if axis == 6 else q
        kw = call_args(qq, Funs(c.forest))
        if not singular and q["limit"] is not None:
            kw["limit"] = q["limit"]
        with warnings.catch_warnings():
            warnings.simplefilter("ignore")
            r = getattr(o, name)(**kw)
        got = (None if r is None else c.forest.oid(r)) if singular else [c.forest.oid(x) for x in r]
        exp = [c.forest.oid(x) for x in o_find_all(dict(qq, limit=None if singular else q["limit"]), o, axis, c.forest)]
        exp = (exp[0] if exp else None) if singular else exp
        print("re-run: %s() [documented as %s] -> implementation %r | oracle %r" % (name, case.get("documented_as"), got, exp))
        return 0 if got == exp else 1
    if "attribute" in case:
        with warnings.catch_warnings():
            warnings.simplefilter("ignore")
            try:
                r = Tag.__getattr__(o, case["attribute"])
                got = None if r is None else c.forest.oid(r)
            except AttributeError:
                got = "AttributeError"
        print("re-run: tag.%s ->" % case["attribute"], got)
        return 0 if got == f.get("expected") else 1
    if "query" not in case or "method" not in case:
        return 1
    q = norm_query(case["query"])
    m = case["method"]
    base = m.split("(")[0].split(" ")[0]
    singular = base in SINGULAR and base not in PLURAL
    axis = 1 if "recursive=False" in m else (SINGULAR if singular else PLURAL).index(base)
    res, log = run_impl(c, case["start"], axis, singular, q, "via tag" in m)
    qq = dict(q, limit=None) if singular else dict(q)
    if axis == 6:
        qq["string"] = NONE
    exp = [c.forest.oid(x) for x in o_find_all(qq, o, axis, c.forest)]
    exp = (exp[0] if exp else None) if singular else exp
    print("re-run: implementation", res, "| oracle", exp, "| function calls", log)
    return 0 if res == exp else 1


def norm_crit(c):
    if c[0] == "one":
        return ("one", tuple(c[1]))
    if len(c) > 2:
        return ("list", [tuple(a) for a in c[1]], c[2])
    return ("list", [tuple(a) for a in c[1]])


def norm_query(q):
    """A query as read back from a JSON replay file."""
    at = q["attrs"]
    if at[0] == "dict":
        attrs = ("dict", [(k, norm_crit(c)) for k, c in at[1]]) + ((at[2],) if len(at) > 2 else ())
    else:
        attrs = ("other", norm_crit(at[1]))
    return {"name": norm_crit(q["name"]), "attrs": attrs, "string": norm_crit(q["string"]),
            "kwargs": [(k, norm_crit(c)) for k, c in q["kwargs"]], "limit": q["limit"]}
