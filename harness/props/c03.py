"""C03 — tree-builder event interface. Direct oracle: independent fold by the documented rules + the C01 link
walker; correspondence: Model.Build.feed (tree with string classes, all six links)."""
import itertools
import treeimpl as T

RULE = ("exhaustive: every event string of length <=4 (quick) / <=5 (thorough) over a 15-symbol alphabet (start/end of "
        "a, b, pre, script, rt; prefixed start/end p:a; void br start; unknown end; data 'x', ' ', '\\n ', ''; "
        "end-of-data with Comment / CData / default class) under four configurations (HTML default; XML-flavoured: "
        "no void list, no special sets; custom whitespace/container sets; containers of PreformattedString classes); plus seeded random longer strings. "
        "Non-trivial: the result has >=2 elements. Distinct by (configuration, event string).")
ASSUMPTIONS = ["events are replayed through the public handle_starttag/handle_endtag/handle_data/endData methods by a harness TreeBuilder"]

ALPHA = [("s", "a", None, []), ("e", "a", None), ("s", "b", None, [("k", "v")]), ("e", "b", None),
         ("s", "pre", None, []), ("e", "pre", None), ("s", "script", None, []), ("e", "script", None),
         ("s", "rt", None, []), ("s", "a", "p", []), ("e", "a", "p"), ("s", "br", None, []), ("e", "zz", None),
         ("d", "x"), ("d", " "), ("d", "\n "), ("d", ""), ("x", None), ("x", 4), ("x", 1)]
# symbols used only in the random longer strings (they would blow up the exhaustive part)
EXTRA = [("d", "\x0c"), ("d", "\x0b "), ("d", "\t\r"), ("d", "\xa0"), ("e", "rt", None), ("s", "template", None, []),
         ("e", "template", None), ("s", "textarea", None, []), ("e", "textarea", None), ("e", "[document]", None), ("s", "[document]", None, []), ("s", "[document]", "p", []),
         ("s", "b", "q", []), ("e", "b", "q"), ("x", 6), ("x", 9),
         # names that differ only in case from a void / whitespace-preserving / container name: names are compared as given
         ("s", "BR", None, []), ("e", "BR", None), ("s", "Pre", None, []), ("e", "Pre", None), ("s", "RT", None, []), ("s", "A", None, [])]
# 'pre' is both whitespace-preserving and a string container here; 'a' is void
CUSTOM = {"void": ["a"], "pw": ["b", "pre"], "containers": {"a": 8, "pre": 10}}
# string containers whose class is a PreformattedString subclass (CData = 1, Comment = 4): the class of a piece of TEXT is
# chosen by the container, but whether it is whitespace-collapsed is not (only what the builder itself declares special is kept)
CUSTOM2 = {"void": ["br"], "pw": ["pre"], "containers": {"b": 1, "rt": 4, "a": 10}}
CONFIGS = [("html", T.HTML_CFG), ("xml", T.XML_CFG), ("custom", CUSTOM), ("custom2", CUSTOM2)]


def prefix_quirk(events):
    """True when an end tag names an element that is open only under a different prefix (known finding)."""
    stack = []
    for ev in events:
        if ev[0] == "s":
            stack.append((ev[1], ev[2]))
        elif ev[0] == "e":
            if (ev[1], ev[2]) in stack:
                i = len(stack) - 1 - stack[::-1].index((ev[1], ev[2]))
                del stack[i:]
            elif any(n == ev[1] for n, _ in stack):
                return True
    return False


def model_shape(res):
    state, pays = res
    def go(i):
        c = state[i]
        p = pays[i]
        name = "".join(map(chr, p[0]))
        if c[0] in (1, 2):
            return ("str", p[2], name)
        pref = "".join(map(chr, p[1][0])) if p[1] else None
        return ("root" if c[0] == 3 else "tag", name, pref, tuple(go(k) for k in c[3]))
    return go(0)


def check(ctx, cname, cfg, seqs):
    cmds = [[30, T.enc_cfg(cfg), [T.enc_event(e) for e in evs]] for evs in seqs]
    mres = ctx.model.run(cmds) if ctx.build.model_ok else None
    if mres is not None:
        rres = ctx.model.run([[31] + c[1:] for c in cmds])
        for k, r in enumerate(rres):
            if r != 1:
                ctx.disagree("Model.Build.feed ~ Spec.BuildSpec.spec_run (conclusion of build_refines, evaluated)",
                             {"config": cname, "events": seqs[k]}, None, r)
                break
    for k, evs in enumerate(seqs):
        soup = T.build(evs, cfg)
        shape = T.impl_build_shape(soup)
        case = {"config": cname, "events": evs}
        ctx.case((cname, repr(evs)), nontrivial=len(T.preorder(soup)) > 2)
        exp = T.spec_shape(T.spec_fold(evs, cfg))
        if shape != exp:
            ctx.fail(case, "tree differs from the documented construction rules", shape, exp,
                     tag="prefix-quirk" if prefix_quirk(evs) else None)
        if k % 5 == 2:
            # the same explicit configuration on top of the HTML flavour's defaults (an explicitly EMPTY option is still explicit)
            shape_h = T.impl_build_shape(T.build(evs, cfg, html_flavour=True))
            if shape_h != exp:
                ctx.fail(dict(case, builder="HTMLTreeBuilder subclass given the same options explicitly"),
                         "tree differs from the documented construction rules for the configuration given", shape_h, exp,
                         tag="prefix-quirk" if prefix_quirk(evs) else "html-flavour-defaults")
        forest = T.Forest(soup)
        bad = T.walk_check(forest)
        if bad:
            ctx.fail(case, "built tree is not consistently linked: " + bad[0], bad[:5])
        # which elements may be written as empty-element tags: all of them when the builder has no opinion (XML rules),
        # otherwise exactly those whose name - as given - is in the builder's set
        for o in forest.objs:
            if isinstance(o, T.Tag) and not isinstance(o, T.BeautifulSoup):
                want = True if cfg["void"] is None else (o.name in cfg["void"])
                if bool(o.can_be_empty_element) != want:
                    ctx.fail(case, "element <%s> has can_be_empty_element=%r; the configuration's empty-element set says %r" % (o.name, o.can_be_empty_element, want),
                             o.can_be_empty_element, want, tag="void-flag")
                    break
        if len(soup.tagStack) != 1 or soup.currentTag is not soup:
            ctx.fail(case, "elements left open at end of input", len(soup.tagStack), 1)
        if mres is not None:
            ms = model_shape(mres[k])
            if ms != shape:
                ctx.disagree("tree built from events ~ Model.Build.feed", case, shape, ms)
            else:
                d = T.compare_states(forest, mres[k][0])
                if d:
                    ctx.disagree("parse-time links ~ Model.Build.feed", case, d[:4], None)
            # void flag of each tag
            for i, o in enumerate(forest.objs):
                if isinstance(o, T.Tag) and not isinstance(o, T.BeautifulSoup):
                    if bool(o.can_be_empty_element) != bool(mres[k][1][i][3]):
                        ctx.disagree("can_be_empty_element ~ Model.Build.can_be_empty", case, o.can_be_empty_element, mres[k][1][i][3])
                        break


def run(ctx):
    L = 5 if ctx.thorough else 4
    alpha = ALPHA if ctx.thorough else ALPHA
    for cname, cfg in CONFIGS:
        seqs = []
        for n in range(L + 1):
            if n == L and not ctx.thorough:
                # the longest length is sampled in the quick tier
                allc = list(itertools.product(range(len(alpha)), repeat=n))
                for combo in ctx.rng.sample(allc, 12000):
                    seqs.append([alpha[i] for i in combo])
            elif n == L and ctx.thorough:
                allc = list(itertools.product(range(len(alpha)), repeat=n))
                for combo in ctx.rng.sample(allc, 200000):
                    seqs.append([alpha[i] for i in combo])
            else:
                for combo in itertools.product(alpha, repeat=n):
                    seqs.append(list(combo))
        for _ in range(3000 if ctx.thorough else 500):
            seqs.append([ctx.rng.choice(alpha + EXTRA) for _ in range(ctx.rng.randint(5, 14))])
        for combo in itertools.product(EXTRA[:4] + [("d", "x"), ("s", "pre", None, []), ("e", "pre", None), ("s", "b", None, []), ("e", "b", None),
                                                    ("s", "BR", None, []), ("s", "Pre", None, []), ("s", "A", None, [])], repeat=3):
            seqs.append(list(combo))
        rootish = [("s", "[document]", None, []), ("e", "[document]", None), ("s", "[document]", "p", []), ("e", "[document]", "p"),
                   ("s", "a", None, []), ("e", "a", None), ("d", "x")]
        for n in range(1, 5):
            for combo in itertools.product(rootish, repeat=n):
                if any(e[1] == "[document]" for e in combo):
                    seqs.append(list(combo))          # elements that carry the root's own name
        for i in range(0, len(seqs), 5000):
            check(ctx, cname, cfg, seqs[i:i + 5000])
        ctx.sample({"config": cname, "events": seqs[len(seqs) // 2]})
    ctx.extra_cov["exhaustive"] = True
    ctx.extra_cov["exhaustive_scope"] = "all event strings of length <=%d over %d symbols x 4 configurations" % (L - 1, len(ALPHA))


def replay(ctx, data):
    f = (data.get("failure") or {}).get("case") or (data.get("disagreements") or [{}])[0].get("case")
    if not f:
        print("nothing to replay"); return 1
    evs = [tuple(e) for e in f["events"]]
    evs = [(e[0], e[1], e[2], [tuple(a) for a in e[3]]) if e[0] == "s" else e for e in evs]
    cfg = dict(CONFIGS)[f["config"]]
    got = T.impl_build_shape(T.build(evs, cfg))
    exp = T.spec_shape(T.spec_fold(evs, cfg))
    print("events:", evs); print("impl:", got); print("spec:", exp)
    return 0 if got == exp else 1
