"""C01 — one consistent tree after any edit history. Direct oracle: the link walker on the real objects
after parsing and after every call; correspondence: all six links of all elements vs the heap model."""
import random
import treeimpl as T
import histgen as G
import histrun as R

RULE = ("exhaustive: every starting document with <=3 (quick) / <=4 (thorough) elements (all forest shapes x leaf kinds "
        "tag/string/comment, built through the event interface) x every admissible single editing call "
        "(13 call kinds, every target, argument tuples of length <=2 quick / <=2 thorough from existing elements, "
        "fresh strings) checked after the call; plus seeded random histories (quick 300 x 14 steps on documents "
        "<=12 elements; thorough 4000 x 25 steps on <=30) checked after every step. Non-trivial: the call changes "
        "the forest. Distinct by (document, call sequence).")
ASSUMPTIONS = ["Python object identity / list semantics (ids in the model)",
               "generators are compared as lists; iterators are checked by the walker on the implementation"]
PROPS = {"C01"}


def exhaustive(ctx, props, maxn, max_args):
    cfg = T.HTML_CFG
    docs = []
    for n in range(0, maxn + 1):
        for shape in G.shapes(n):
            for evs in G.leaf_variants(shape):
                docs.append(evs)
                if n >= 2:
                    docs.append(G.relabel(evs))     # look-alike siblings: identity, not equality, must decide
    batch = []
    for evs in docs:
        ref0 = T.ref_from_spec(T.spec_fold(evs, cfg))
        for op in G.OpGen(ref0).all_single_ops(max_args=max_args):
            ref = T.ref_from_spec(T.spec_fold(evs, cfg))
            st = ref.apply(op)
            batch.append((evs, [op], [(st, R.ref_shapes(ref))]))
    run_batch(ctx, cfg, batch, props)
    ctx.extra_cov["exhaustive"] = True
    ctx.extra_cov["exhaustive_scope"] = "%d documents (<=%d elements) x all admissible single calls (<=%d args): %d cases" % (
        len(docs), maxn, max_args, len(batch))


def run_batch(ctx, cfg, batch, props):
    CH = 4000
    for i in range(0, len(batch), CH):
        part = batch[i:i + CH]
        mres = None
        if ctx.build.model_ok:
            mres = ctx.model.run([R.model_cmd(cfg, evs, ops) for evs, ops, _ in part])
        for j, (evs, ops, exp) in enumerate(part):
            ctx.case((repr(evs), repr(ops)))
            R.replay(ctx, cfg, evs, ops, exp, None if mres is None else mres[j], props)
            if len(ctx.failures) + len(ctx.disagreements) > 30:
                return
        if "C02" in props:
            R.flush_listedit(ctx)
        else:
            ctx.listedit = []
        if (i // CH) % 5 == 0 and part:
            ctx.sample({"events": part[0][0], "ops": part[0][1]})


def random_histories(ctx, props, count, steps, maxnodes):
    rng = ctx.rng
    # second configuration: every other generated tag name is a VOID element name of the builder - such elements are parsed
    # childless but the editing calls may give them children like any other tag (the flag only matters for output)
    void_cfg = dict(T.HTML_CFG, void=sorted(set(T.HTML_CFG["void"]) | {"t%d" % i for i in range(0, 64, 2)} | {"f%d" % i for i in range(0, 400, 3)}))
    for cfg, share in ((T.HTML_CFG, count - count // 4), (void_cfg, count // 4)):
        batch = []
        for _ in range(share):
            evs = G.random_doc(rng, maxnodes)
            if rng.random() < 0.3:
                evs = G.relabel(evs)
            ops, exp = R.gen_history(rng, evs, cfg, steps)
            batch.append((evs, ops, exp))
        run_batch(ctx, cfg, batch, props)
    if batch:
        ctx.sample({"events": batch[-1][0], "ops": batch[-1][1][:6]})


def empty_clones(ctx, forest, case):
    """copy_self() (the first step of every copy) hands back an EMPTY element that belongs to no tree: no parent, no
    siblings, no element before or after it, no children - whatever state the original is in."""
    for i, o in enumerate(forest.objs):
        if o is None or forest.dead(o) or not isinstance(o, T.Tag):
            continue
        if isinstance(getattr(o, "builder", None), T.EventBuilder):
            continue        # the harness's own builder would replay its event list into the clone
        try:
            c = o.copy_self()
        except Exception as e:
            ctx.fail(case, "copy_self() raised %s" % type(e).__name__, i, None)
            return
        links = (c.parent, c.next_sibling, c.previous_sibling, c.next_element, c.previous_element)
        if c is o or any(x is not None for x in links) or list(c.contents):
            ctx.fail(case, "copy_self() of element %d is not an empty element of its own: it has links into the original tree" % i,
                     [forest.oid(x) for x in links], [None] * 5)
            return


def parse_only_documents(ctx):
    """Documents parsed by html.parser with a parse_only filter: what is kept must be one consistently linked tree
    (rejected elements must leave no trace in any link). Oracle only."""
    from bs4 import BeautifulSoup, SoupStrainer
    import warnings
    pieces = ["<a>one</a>", "<b>two</b>", "<a><b>x</b>y</a>", "t", "<!--c-->", "<b><a>z</a></b>", "<br>", "<a id='1'>", "</a>", "<p>"]
    filters = [lambda: SoupStrainer("a"), lambda: SoupStrainer("b"), lambda: SoupStrainer(["a", "b"]), lambda: SoupStrainer(id="1"),
               lambda: SoupStrainer(string="t"), lambda: SoupStrainer("zz")]
    import itertools
    n = 0
    for k in (1, 2, 3):
        for combo in itertools.product(pieces, repeat=k):
            if k == 3 and ctx.rng.random() > (1.0 if ctx.thorough else 0.25):
                continue
            markup = "".join(combo)
            for fi, mk in enumerate(filters):
                with warnings.catch_warnings():
                    warnings.simplefilter("ignore")
                    soup = BeautifulSoup(markup, "html.parser", parse_only=mk())
                ctx.case(("parse_only", markup, fi), nontrivial=len(soup.contents) > 0)
                n += 1
                bad = T.walk_check(T.Forest(soup))
                if bad:
                    ctx.fail({"markup": markup, "parse_only_filter": fi, "events": [], "ops": []},
                             "a document parsed with parse_only is not consistently linked: " + bad[0], bad[:5])
                    return
    ctx.count("parse_only_documents", n)


def run(ctx, props=PROPS):
    if "C01" in props:
        parse_only_documents(ctx)
    if ctx.thorough:
        exhaustive(ctx, props, 4, 2)
        random_histories(ctx, props, 4000, 25, 30)
    else:
        exhaustive(ctx, props, 3, 2)
        random_histories(ctx, props, 300, 14, 12)


def replay(ctx, data):
    f = (data.get("failure") or {}).get("case") or (data.get("disagreements") or [{}])[0].get("case")
    if not f:
        print("nothing to replay"); return 1
    evs = [tuple(e) for e in f["events"]]
    evs = [(e[0], e[1], e[2], [tuple(a) for a in e[3]]) if e[0] == "s" else e for e in evs]
    import common
    c = common.Ctx(ctx.prop, "quick", 0)
    c.build = type("B", (), {"model_ok": False})()
    R.replay(c, T.HTML_CFG, evs, f["ops"], None, None, {"C01"})
    print("events:", evs); print("ops:", f["ops"])
    for x in c.failures:
        print("FAIL:", x["what"], x["observed"])
    return 1 if c.failures else 0
