"""C16 — parse_only keeps exactly the outermost matching elements.

Parties: the implementation (a) replaying a document's event stream through the real BeautifulSoup object
with a harness TreeBuilder and (b) parsing the document's markup with html.parser, each with and without
parse_only; the extracted Coq model in both renderings (heap machine Model.Strainer.feed_po, compared link by
link with (a); frame machine zfeed, the subject of the theorems, compared with the heap machine); the Coq
specification (outermost matching elements of the full parse) evaluated in Coq; and the direct oracle
(independent Python: filter the implementation's own full parse with an independent matcher)."""
import itertools, re, warnings
from bs4 import BeautifulSoup, SoupStrainer
from bs4.builder import TreeBuilder, HTMLTreeBuilder
from bs4.element import Tag, NavigableString, Comment
import treeimpl as T
import histgen as G
from props import c10 as S

RULE = ("documents: every forest with <=3 (quick) / <=4 (thorough) nodes over tags {a, b(id=1), pre} and texts {'t1', ' \\n '} "
        "(exhaustive), plus seeded random well-formed documents (nested same-name tags, prefixes, ids / data-* / href / class "
        "attributes, whitespace-preserving and string-container elements, comments, multi-chunk text, void elements); "
        "filters: a fixed list covering name (string, list, pattern, True), single-valued attribute criteria (string, pattern, "
        "True, False, None, list), their combinations, string-only and mixed filters, plus random filters from the C10 grammar "
        "(these include functions, multi-valued class criteria and unusable lists: outside the oracle's domain, still compared "
        "model vs implementation).  Every (document, filter) is run through the event interface (all six links and payloads "
        "compared with the model) and, for prefix-free documents, through html.parser on the rendered markup.  A malformed "
        "stream of random events is run model-vs-implementation only.  Outside the property's domain (malformed stream, empty "
        "filter, functions, multi-valued or unusable criteria, cases inside the open finding) a model/implementation "
        "difference is recorded in the notes, not a verdict.  Non-trivial: the filter keeps something and drops "
        "something.  String-only filters are judged on every document: the kept nodes must be exactly the matching text runs "
        "(segmented at every tag, kept or dropped; stored without element context); where that differs from the matching "
        "strings of the full parse the case falls under the open finding C16-string-filter-lost-context.  "
        "Distinct by (document, filter, configuration).")
ASSUMPTIONS = ["regular expressions / functions in filters are parameters of the model, instantiated per case by truth tables",
               "the theorems are stated about the frame machine (zfeed); C16_frame_machine_is_heap_machine proves, for every "
               "configuration, filter and event sequence, that the heap machine (Model/Build.v + the two checks, compared link by "
               "link with the implementation here) builds exactly the encoding of the frame machine's tree; the two are still "
               "compared by evaluation on every case as a sanity check",
               "html.parser's tokenisation of the rendered markup is trusted (C04's subject); those runs are judged by the oracle only",
               "a filter is an object built by SoupStrainer(name, attrs, string, **kwargs); ElementFilter subclasses are not covered"]

DEFAULT_TABLE = {k: sorted(v) for k, v in HTMLTreeBuilder.DEFAULT_CDATA_LIST_ATTRIBUTES.items()}
CUSTOM_CFG = {"void": ["br"], "pw": ["b", "pre"], "containers": {"a": 8, "pre": 10}}
CONFIGS = [("html", T.HTML_CFG, DEFAULT_TABLE), ("html-nomva", T.HTML_CFG, None), ("custom", CUSTOM_CFG, {"*": ["data-k"]})]


class EB(T.EventBuilder):
    """The event-replaying builder of treeimpl, with a configurable multi-valued attribute table."""

    def __init__(self, events, cfg, mva):
        self.events = events
        self.reject_after = None
        TreeBuilder.__init__(self, multi_valued_attributes=mva if mva is not None else None,
                             preserve_whitespace_tags=set(cfg["pw"]),
                             string_containers={k: T.CLASSES[v] for k, v in cfg["containers"].items()},
                             empty_element_tags=None if cfg["void"] is None else set(cfg["void"]))


# ----------------------------------------------------------------------------------- documents
# ("t", name, prefix, [(k, v)], [kids]) | ("x", [chunks]) | ("s", cls, text)
def brackets(d):
    if d[0] == "t":
        evs = [("s", d[1], d[2], list(d[3]))]
        for k in d[4]:
            evs += brackets(k)
        evs.append(("e", d[1], d[2]))
        return evs
    if d[0] == "x":
        return [("d", c) for c in d[1]]
    return [("x", None), ("d", d[2]), ("x", d[1])]


def brackets_f(ds):
    return [e for d in ds for e in brackets(d)]


def enc_doc(d):
    if d[0] == "t":
        return [0, d[1], [] if d[2] is None else [d[2]], [[k, v] for k, v in d[3]], [enc_doc(k) for k in d[4]]]
    if d[0] == "x":
        return [1, list(d[1])]
    return [2, d[1], d[2]]


def render(d, void):
    if d[0] == "t":
        at = "".join(' %s="%s"' % (k, v) for k, v in d[3])
        if d[1] in void and not d[4]:
            return "<%s%s>" % (d[1], at)
        return "<%s%s>%s</%s>" % (d[1], at, "".join(render(k, void) for k in d[4]), d[1])
    if d[0] == "x":
        return "".join(d[1])
    return "<!--%s-->" % d[2]


def doc_tags(ds):
    for d in ds:
        if d[0] == "t":
            yield d
            yield from doc_tags(d[4])


def random_doc(rng, maxn, prefixes=True):
    names = ["a", "b", "p", "div", "a", "b", "pre", "textarea", "script", "template", "rt", "br", "x:y", "style"]
    if rng.random() < 0.15:
        names = names + ["[document]"]          # an element called like the document object is an ordinary element
    n = [0]

    def node(depth):
        n[0] += 1
        r = rng.random()
        if r < 0.3 or depth > 4 or n[0] > maxn:
            k = rng.choice([1, 1, 1, 2, 3])
            return ("x", [rng.choice(["t1", "t2", " ", "\n  ", " \n ", "t1 \n", "", "\t"]) for _ in range(k)])
        if r < 0.36:
            return ("s", rng.choice([4, 4, 4, 1, 6]), rng.choice(["c1", "c2", "c1", " \n ", "", " "]))
        nm = rng.choice(names)
        pf = rng.choice(["p", "q"]) if (prefixes and rng.random() < 0.12) else None
        at = []
        if rng.random() < 0.5:
            at.append(("id", rng.choice(["1", "2", "k"])))
        if rng.random() < 0.25:
            at.append(("data-k", rng.choice(["x", "x y", ""])))
        if rng.random() < 0.2:
            at.append(("href", rng.choice(["k", "2", "x"])))
        if rng.random() < 0.2:
            at.append(("class", rng.choice(["x", "x y", "", "y"])))
        if nm == "br":
            return ("t", nm, pf, at, [])
        return ("t", nm, pf, at, [node(depth + 1) for _ in range(rng.choice([0, 1, 1, 2, 3]))])
    return [node(0) for _ in range(rng.choice([1, 2, 2, 3]))]


def small_docs(maxn):
    """Every forest with <= maxn nodes; leaves are a tag or a text, inner nodes tags; labels vary by position."""
    tags = [("a", []), ("b", [("id", "1")]), ("pre", [])]
    texts = ["t1", " \n "]
    out = []

    def variants(shape):
        """All labelings of a forest shape: each node a tag from [tags] or (leaves only) a text."""
        if not shape:
            return [[]]
        first, rest = shape[0], shape[1:]
        outs = []
        sub = variants(first)
        for r in variants(rest):
            for (nm, at) in tags:
                for s in sub:
                    outs.append([("t", nm, None, at, s)] + r)
            if not first:
                for t in texts:
                    outs.append([("x", [t])] + r)
        return outs
    for n in range(0, maxn + 1):
        for shape in G.shapes(n):
            out.extend(variants(shape))
    return out


# ----------------------------------------------------------------------------------- filters
def F(name=S.NONE, attrs=("dict", []), string=S.NONE, kwargs=()):
    return S.mkq(name, attrs, string, kwargs, None)


def fixed_filters():
    one, lst, St = S.one, S.lst, S.S
    return [F(one(St("a"))), F(one(St("b"))), F(one(St("pre"))), F(lst(St("a"), St("b"))), F(one(("p", 0))), F(one(("p", 1))),
            F(one(("b", True))), F(one(St("zz"))), F(one(St("p:a"))), F(one(St("x:y"))),
            F(kwargs=[("id", one(St("1")))]), F(kwargs=[("id", one(("b", True)))]), F(kwargs=[("id", one(("b", False)))]),
            F(kwargs=[("id", S.NONE)]), F(kwargs=[("id", one(("p", 10)))]), F(kwargs=[("id", lst(St("1"), St("k")))]),
            F(one(St("a")), kwargs=[("id", one(("b", False)))]), F(one(St("b")), kwargs=[("id", one(St("1")))]),
            F(lst(St("a"), St("pre")), kwargs=[("href", one(("b", False)))]),
            F(attrs=("dict", [("data-k", one(("p", 2)))])), F(kwargs=[("id", one(("b", True))), ("href", one(St("k")))]),
            # string-only
            F(string=one(St("t1"))), F(string=one(("b", True))), F(string=one(("p", 10))), F(string=lst(St("t1"), St("\n"))),
            F(string=one(("p", 3))), F(string=one(St(" "))),
            # mixed
            F(one(St("a")), string=one(St("t1"))), F(kwargs=[("id", one(("b", True)))], string=one(("b", True))),
            # no rules at all / outside the property's domain (model vs implementation only)
            F(), F(kwargs=[("class_", one(St("x")))]), F(one(("f", 2))), F(kwargs=[("id", lst())]), F(one(St("a")), kwargs=[("id", lst())]),
            F(kwargs=[("text", one(St("t1")))])]


def random_filter(rng):
    r = rng.random()
    if r < 0.15:
        return F(string=S.random_crit(rng, "string"))
    if r < 0.22:
        return F(S.random_crit(rng, "name"), string=S.random_crit(rng, "string"))
    name = S.random_crit(rng, "name", 0.3)
    kwargs = []
    if rng.random() < 0.6:
        for k in rng.sample(["id", "data-k", "href", "class_"], rng.choice([1, 1, 2])):
            kwargs.append((k, S.random_crit(rng, "attr", 0.1)))
    return F(name, kwargs=kwargs)


def make_strainer(q, funs):
    kw = S.call_args(q, funs)
    name = kw.pop("name", None)
    attrs = kw.pop("attrs", {})
    string = kw.pop("string", None)
    return SoupStrainer(name, attrs, string, **kw)


def filter_kind(q):
    string, acs = S.o_effective(q)
    tagc = q["name"] != S.NONE or bool(acs)
    if string != S.NONE and tagc:
        return "mixed"
    if string != S.NONE:
        return "string"
    return "tag" if tagc else "none"


def has_function(q):
    return bool(S.funs_used(q))


# ----------------------------------------------------------------------------------- shapes and the oracle
def shape(o):
    if isinstance(o, Tag):
        return ("tag", o.name, o.prefix, tuple((k, tuple(v) if isinstance(v, list) else str(v)) for k, v in o.attrs.items()),
                tuple(shape(c) for c in o.contents))
    return ("str", T.CLASS_ID.get(type(o), -1), str(o))


def relaxed(sh):
    """Blind to string class and to whitespace collapsing (what a lost context can change)."""
    if sh[0] == "tag":
        return sh[:4] + (tuple(relaxed(c) for c in sh[4]),)
    t = sh[2]
    return ("str", 0, " " if t.strip(" \n\t\x0c\r") == "" else t)


def model_pshape(p, table_split):
    if p[0] == 0:
        name = S_str(p[1])
        attrs = tuple((S_str(k), S_str(v)) for k, v in p[3])
        return ("tag", name, S_str(p[2][0]) if p[2] else None, attrs, tuple(model_pshape(k, table_split) for k in p[4]))
    return ("str", p[1], S_str(p[2]))


def S_str(l):
    return "".join(map(chr, l))


def impl_shape_raw(o, multi):
    """Implementation tree with list-valued attributes joined back (the model keeps raw strings)."""
    if isinstance(o, Tag):
        at = []
        for k, v in o.attrs.items():
            at.append((k, ("LIST", tuple(v)) if isinstance(v, list) else str(v)))
        return ("tag", o.name, o.prefix, tuple(at), tuple(impl_shape_raw(c, multi) for c in o.contents))
    return ("str", T.CLASS_ID.get(type(o), -1), str(o))


def same_modulo_split(impl_sh, model_sh):
    """Equal, where a list-valued attribute of the implementation equals the whitespace split of the model's raw value."""
    if impl_sh[0] != model_sh[0]:
        return False
    if impl_sh[0] == "str":
        return impl_sh == model_sh
    if impl_sh[1:3] != model_sh[1:3] or len(impl_sh[3]) != len(model_sh[3]) or len(impl_sh[4]) != len(model_sh[4]):
        return False
    for (k, v), (k2, v2) in zip(impl_sh[3], model_sh[3]):
        if k != k2:
            return False
        if isinstance(v, tuple):
            if list(v[1]) != v2.split():
                return False
        elif v != v2:
            return False
    return all(same_modulo_split(a, b) for a, b in zip(impl_sh[4], model_sh[4]))


ASCII_WS = " \n\t\x0c\r"


def unctx(o):
    """A string of the full parse as the document level would have stored it (no enclosing element)."""
    from bs4.element import PreformattedString
    if isinstance(o, PreformattedString):
        return shape(o)
    t = str(o)
    if all(ch in ASCII_WS for ch in t):
        t = "\n" if "\n" in t else " "
    return ("str", 0, t)


def oracle_outermost(full_root, q, forest):
    out = []
    for c in full_root.contents:
        if isinstance(c, Tag):
            if S.o_matches(q, c, forest):
                out.append(c)
            else:
                out.extend(oracle_outermost(c, q, forest))
    return out


def context_ancestor(kept, ctxnames):
    p = kept.parent
    while p is not None:
        if p.name in ctxnames:
            return True
        p = p.parent
    return False


def judge(ctx, case, q, full, sel, cfg, via):
    """The direct oracle on one (document, filter): full = the implementation's full parse, sel = its selective parse."""
    kind = filter_kind(q)
    if S.unusable_crits(q):
        return "outside"                          # a list criterion without usable items: see C10's open finding
    forest = T.Forest(full)
    ctxnames = set(cfg["pw"]) | set(cfg["containers"])
    got = [shape(c) for c in sel.contents]
    if kind == "tag":
        if has_function(q) or S.unusable_crits(q) or S.in_domain(q) is not None:
            return "outside"
        _, acs = S.o_effective(q)
        multi = case.get("multi_keys") or set()
        if any(k in multi for k, _ in acs):
            return "outside"                      # a multi-valued attribute is constrained
        kept = oracle_outermost(full, q, forest)
        exp = [shape(c) for c in kept]
        if got != exp:
            tag = None
            if [relaxed(s) for s in got] == [relaxed(s) for s in exp] and any(context_ancestor(k, ctxnames) for k in kept):
                tag = "rejected-context-ancestor"
                ctx.count("cases_in_open_finding")
                if ctx.counts.get("cases_in_open_finding", 0) > 30:
                    return "tag"                  # the open finding is documented by 30 concrete cases already
            ctx.fail(dict(case, via=via), "selective parse is not the outermost matching elements of the full parse", got, exp, tag=tag)
        return "tag"
    if kind == "string":
        if has_function(q) or S.unusable_crits(q):
            return "outside"
        string, _ = S.o_effective(q)
        strs = [s for s in T.preorder(full) if not isinstance(s, Tag)]
        keep = lambda sh: S.o_crit_val(string, sh[2], ("str", sh[2]))
        # by the letter: the strings of the full parse that the filter matches
        letter = [shape(s) for s in strs if keep(shape(s))]
        # the text runs as the document level stores them (every tag is dropped, so no element context applies):
        # same segmentation as the full parse (endData runs at every tag, kept or not), comment-like strings as
        # sent, everything else default class and whitespace-collapsed
        runs = [unctx(s) for s in strs]
        expected = [r for r in runs if keep(r)]
        if got != expected:
            ctx.fail(dict(case, via=via), "string-only filter does not keep exactly the matching text runs of the document", got, expected)
        elif got != letter:
            ctx.count("cases_in_string_filter_finding")
            if ctx.counts["cases_in_string_filter_finding"] <= 30:
                ctx.fail(dict(case, via=via, text_runs_kept=expected, context_elements=sorted({t.name for t in full.find_all(True)} & ctxnames)),
                         "string-only filter: kept text runs differ from the matching strings of the full parse", got, letter,
                         tag="string-filter-lost-context")
        return "string"
    if kind == "mixed":
        if got != []:
            ctx.fail(dict(case, via=via), "a filter mixing string and tag criteria kept something", got, [])
        return "mixed"
    return "outside"


# ----------------------------------------------------------------------------------- one batch
def universe(ds, evs):
    u = {" ", "\n", ""}
    cur = []
    for e in evs:
        if e[0] == "s":
            u.add(e[1])
            if e[2]:
                u.add(e[2] + ":" + e[1])
            for k, v in e[3]:
                u.add(v)
                for t in v.split():
                    u.add(t)
                u.add(" ".join(v.split()))
        if e[0] == "d":
            cur.append(e[1])
            u.add(e[1])
            for i in range(len(cur)):
                u.add("".join(cur[i:]))
        else:
            cur = []
    return sorted(u)


def tables(uni, fids, pids):
    ft, pt = [], []
    for f in sorted(fids):
        for s in uni:
            ft.append([f, [1, s], S.fun_value(f, ("str", s))])
        ft.append([f, [2], S.fun_value(f, ("none",))])
    for p in sorted(pids):
        for s in uni:
            pt.append([p, s, re.search(S.PATTERNS[p], s) is not None])
    return ft, pt


def enc_filter(q):
    e = S.enc_query(q)
    return [e[:4]]


def run_batch(ctx, items):
    """items: list of (cname, cfg, mva, doc or None, events, q). doc None = raw (possibly malformed) events."""
    cmds = []
    for (cname, cfg, mva, doc, evs, q) in items:
        uni = universe(doc, evs)
        ft, pt = tables(uni, S.funs_used(q), S.pats_used(q))
        tenc = [] if mva is None else [[[k, sorted(v)] for k, v in sorted(mva.items())]]
        if doc is not None:
            cmds.append([16000, T.enc_cfg(cfg), tenc, ft, pt, enc_filter(q), [enc_doc(d) for d in doc]])
        else:
            cmds.append([16001, T.enc_cfg(cfg), tenc, ft, pt, enc_filter(q), [T.enc_event(e) for e in evs]])
    mres = ctx.model.run(cmds) if ctx.build.model_ok else [None] * len(items)
    for (cname, cfg, mva, doc, evs, q), m in zip(items, mres):
        case = {"config": cname, "doc": doc, "events": evs if doc is None else None, "filter": q}
        multi = set()
        if mva:
            for k, v in mva.items():
                multi |= set(v)
        case["multi_keys"] = sorted(multi)
        with warnings.catch_warnings():
            warnings.simplefilter("ignore")
            funs = S.Funs(T.Forest())
            strainer = make_strainer(q, funs)
            full = BeautifulSoup("x", builder=EB(evs, cfg, mva))
            sel = BeautifulSoup("x", builder=EB(evs, cfg, mva), parse_only=strainer)
        verdict = "outside"
        if doc is not None:
            verdict = judge(ctx, case, q, full, sel, cfg, "event interface")
        kept_n, full_n = len(T.preorder(sel)), len(T.preorder(full))
        ctx.case((cname, repr(doc if doc is not None else evs), repr(q)), nontrivial=1 < kept_n < full_n)
        ctx.count("judged_" + verdict)
        bad = T.walk_check(T.Forest(sel))
        if bad:
            ctx.fail(case, "selectively parsed tree is not consistently linked: " + bad[0], bad[:4], tag="links")
        if len(sel.tagStack) != 1:
            ctx.fail(case, "elements left open at the end of a selective parse", len(sel.tagStack), 1, tag="links")
        if m is None:
            continue
        if isinstance(m, tuple):
            ctx.disagree("extracted model failed", case, None, m[1])
            continue
        state, heap_nodes, znodes, agree, spec_nodes, flags = m
        in_dom = False
        if flags and verdict != "outside":
            tagf, strf, mixf, names_ok, single, ctx_ok, ctx_free = flags
            in_dom = bool((tagf and single and ctx_ok and not has_function(q)) or strf or mixf)
        impl_sh = [impl_shape_raw(c, multi) for c in sel.contents]
        hsh = [model_pshape(p, None) for p in heap_nodes]
        problem = None
        if len(impl_sh) != len(hsh) or not all(same_modulo_split(a, b) for a, b in zip(impl_sh, hsh)):
            problem = ("selective parse (event interface) ~ Model.Strainer.feed_po", impl_sh, hsh)
        else:
            d = T.compare_states(T.Forest(sel), state)
            if d:
                problem = ("links after a selective parse ~ Model.Strainer.feed_po", d[:4], None)
        if problem:
            if in_dom:
                ctx.disagree(problem[0], case, problem[1], problem[2])
            else:
                # outside the property's domain (malformed stream, empty filter, function / multi-valued /
                # unusable criteria, or inside the open finding): recorded, not a verdict
                ctx.count("model_differs_outside_domain")
                if ctx.counts["model_differs_outside_domain"] <= 3:
                    ctx.notes.append("model and implementation differ outside the domain: %s on %r" % (problem[0], q))
            continue
        if not agree:
            ctx.disagree("Model.Strainer.zfeed (frame machine) ~ feed_po (heap machine)", case,
                         hsh, [model_pshape(p, None) for p in znodes])
            continue
        # the Coq specification, inside the domain of its theorem, against the implementation
        if in_dom:
            ctx.count("spec_evaluated")
            ssh = [model_pshape(p, None) for p in spec_nodes]
            if len(impl_sh) != len(ssh) or not all(same_modulo_split(a, b) for a, b in zip(impl_sh, ssh)):
                ctx.disagree("Spec.StrainerSpec (outermost of the full parse) ~ implementation's selective parse", case, impl_sh, ssh)


def markup_runs(ctx, docs, filters):
    """The same property through html.parser on rendered markup (oracle only)."""
    cfg = T.HTML_CFG
    void = set(cfg["void"])
    for doc in docs:
        if any(t[2] is not None for t in doc_tags(doc)) or any(d[0] == "s" and d[1] != 4 for d in walk(doc)):
            continue
        if any(t[1] in ("script", "style") and any(k[0] != "x" for k in t[4]) for t in doc_tags(doc)):
            continue                  # html.parser reads the content of script / style as character data: the markup
                                      # written for such a document is not the well-formed document it was written from
        mk = "".join(render(d, void) for d in doc)
        if "<" in "".join("".join(d[1]) for d in walk(doc) if d[0] == "x"):
            continue
        with warnings.catch_warnings():
            warnings.simplefilter("ignore")
            full = BeautifulSoup(mk, "html.parser")
            for q in filters:
                funs = S.Funs(T.Forest())
                sel = BeautifulSoup(mk, "html.parser", parse_only=make_strainer(q, funs))
                case = {"config": "html.parser", "markup": mk, "filter": q, "multi_keys": sorted({a for v in DEFAULT_TABLE.values() for a in v})}
                v = judge(ctx, case, q, full, sel, cfg, "html.parser")
                ctx.case(("markup", mk, repr(q)), nontrivial=1 < len(T.preorder(sel)) < len(T.preorder(full)))
                ctx.count("markup_" + v)


def walk(ds):
    for d in ds:
        yield d
        if d[0] == "t":
            yield from walk(d[4])


def corpus():
    """The witness of the open finding and neighbours (must keep being classified, not silently pass or change class)."""
    pre_b = [("t", "pre", None, [], [("t", "b", None, [], [("x", [" \n "])])])]
    return [pre_b,
            [("t", "template", None, [], [("t", "b", None, [], [("x", ["t1"])])])],
            [("t", "div", None, [], [("t", "b", None, [], [("x", [" \n "])]), ("x", ["t1"])]), ("t", "b", None, [("id", "1")], [])],
            [("t", "b", None, [], [("t", "b", None, [], [])]), ("x", ["t1"]), ("t", "a", None, [], [("t", "b", None, [], [("s", 4, "c1")])])],
            # whitespace-only comments are kept as sent (endData collapses only text), also under a filter
            [("x", [" \n "]), ("t", "b", None, [("id", "1")], [("s", 4, " \n "), ("x", [" \n "]), ("s", 1, "")])],
            # an element named like the document object
            [("t", "[document]", None, [], [("t", "b", None, [], [("x", ["t1"])])]), ("t", "b", None, [], [])]]


def run(ctx):
    rng = ctx.rng
    filters = fixed_filters()
    items = []
    for doc in corpus():
        for q in filters[:4] + filters[10:13]:
            items.append(("html", T.HTML_CFG, DEFAULT_TABLE, doc, brackets_f(doc), q))
    run_batch(ctx, items)
    small = small_docs(4 if ctx.thorough else 3)
    ctx.sample({"small_doc": small[len(small) // 2], "filter": filters[3]})
    items = []
    for doc in small:
        for q in filters:
            items.append(("html", T.HTML_CFG, DEFAULT_TABLE, doc, brackets_f(doc), q))
    for i in range(0, len(items), 4000):
        run_batch(ctx, items[i:i + 4000])
        if too_many(ctx):
            return
    ctx.extra_cov["exhaustive"] = True
    ctx.extra_cov["exhaustive_scope"] = "%d documents (every forest with <=%d nodes over 3 tags / 2 texts) x %d fixed filters" % (
        len(small), 4 if ctx.thorough else 3, len(filters))
    markup_runs(ctx, small[::5], filters[:30])
    ndocs = 3000 if ctx.thorough else 400
    items, docs = [], []
    for i in range(ndocs):
        cname, cfg, mva = CONFIGS[i % len(CONFIGS)]
        doc = random_doc(rng, rng.choice([5, 9, 14]))
        docs.append(doc)
        evs = brackets_f(doc)
        qs = rng.sample(filters, 6) + [random_filter(rng) for _ in range(6)]
        for q in qs:
            items.append((cname, cfg, mva, doc, evs, q))
        if i == 3:
            ctx.sample({"random_doc": doc, "filter": qs[-1]})
    for i in range(0, len(items), 3000):
        run_batch(ctx, items[i:i + 3000])
        if too_many(ctx):
            return
    markup_runs(ctx, [random_doc(rng, 10, prefixes=False) for _ in range(400 if ctx.thorough else 60)],
                rng.sample(filters[:30], 10) + [random_filter(rng) for _ in range(4)])
    # malformed stream: arbitrary event sequences (unbalanced, unknown end tags, data everywhere)
    alpha = [("s", "a", None, []), ("e", "a", None), ("s", "b", None, [("id", "1")]), ("e", "b", None), ("s", "pre", None, []),
             ("e", "pre", None), ("s", "a", "p", []), ("e", "a", "p"), ("e", "zz", None), ("d", "t1"), ("d", " \n "), ("x", None), ("x", 4),
             ("s", "br", None, []), ("e", "[document]", None)]
    items = []
    for _ in range(3000 if ctx.thorough else 400):
        evs = [rng.choice(alpha) for _ in range(rng.randint(1, 10))]
        items.append(("html", T.HTML_CFG, DEFAULT_TABLE, None, evs, rng.choice(filters)))
    run_batch(ctx, items)


def too_many(ctx):
    return len([f for f in ctx.failures if f.get("tag") not in ("rejected-context-ancestor", "string-filter-lost-context")]) + len(ctx.disagreements) > 40


# ----------------------------------------------------------------------------------- known finding
def matcher_context(f):
    """A kept element lies under a rejected whitespace-preserving / string-container element and the whole
    difference is whitespace collapsing or string class."""
    if f.get("tag") != "rejected-context-ancestor":
        return False
    obs, exp = f.get("observed"), f.get("expected")

    def rel(sh):
        sh = tuple(sh)
        if sh[0] == "tag":
            return (sh[0], sh[1], sh[2], repr(sh[3]), tuple(rel(c) for c in sh[4]))
        t = sh[2]
        return ("str", 0, " " if t.strip(" \n\t\x0c\r") == "" else t)
    try:
        return [rel(s) for s in obs] == [rel(s) for s in exp] and obs != exp
    except Exception:
        return False


def matcher_string_context(f):
    """String-only filter: what was kept is exactly the matching text runs stored without element context, the
    document has a whitespace-preserving / string-container element, and that differs from the full parse."""
    if f.get("tag") != "string-filter-lost-context":
        return False
    import json
    norm = lambda x: json.loads(json.dumps(x))
    case = f.get("case") or {}
    return (norm(f.get("observed")) == norm(case.get("text_runs_kept")) and norm(f.get("observed")) != norm(f.get("expected"))
            and bool(case.get("context_elements")))


KNOWN_MATCHERS = {"rejected_context_ancestor": matcher_context, "string_filter_lost_context": matcher_string_context}


def replay_known(ctx, k):
    if k.get("id") == "C16-string-filter-lost-context":
        with warnings.catch_warnings():
            warnings.simplefilter("ignore")
            sel = BeautifulSoup("<pre> \n </pre>", "html.parser", parse_only=SoupStrainer(string=" \n "))
            full = BeautifulSoup("<pre> \n </pre>", "html.parser")
            return len(sel.contents) == 0 and full.find(string=" \n ") is not None
    with warnings.catch_warnings():
        warnings.simplefilter("ignore")
        mk = k.get("witness", {}).get("markup", "<pre><b> \n </b></pre>")
        full = BeautifulSoup(mk, "html.parser")
        sel = BeautifulSoup(mk, "html.parser", parse_only=SoupStrainer("b"))
        return sel.b is not None and full.b is not None and shape(sel.b) != shape(full.b)


def todoc(d):
    if d[0] == "t":
        return ("t", d[1], d[2], [tuple(a) for a in d[3]], [todoc(k) for k in d[4]])
    if d[0] == "x":
        return ("x", list(d[1]))
    return ("s", d[1], d[2])


def replay(ctx, data):
    f = data.get("failure") or {}
    case = f.get("case") or (data.get("disagreements") or [{}])[0].get("case")
    print("what:", f.get("what") or (data.get("disagreements") or [{}])[0].get("correspondence"))
    print("case:", case)
    print("recorded: observed", f.get("observed"), "expected", f.get("expected"))
    if not case:
        return 1
    q = S.norm_query(case["filter"])
    c = common_ctx()
    with warnings.catch_warnings():
        warnings.simplefilter("ignore")
        funs = S.Funs(T.Forest())
        if case.get("markup") is not None:
            full = BeautifulSoup(case["markup"], "html.parser")
            sel = BeautifulSoup(case["markup"], "html.parser", parse_only=make_strainer(q, funs))
            cfg = T.HTML_CFG
        else:
            cname = case["config"]
            _, cfg, mva = [x for x in CONFIGS if x[0] == cname][0]
            evs = brackets_f([todoc(d) for d in case["doc"]]) if case.get("doc") is not None else [
                (e[0], e[1], e[2], [tuple(a) for a in e[3]]) if e[0] == "s" else tuple(e) for e in case["events"]]
            full = BeautifulSoup("x", builder=EB(evs, cfg, mva))
            sel = BeautifulSoup("x", builder=EB(evs, cfg, mva), parse_only=make_strainer(q, funs))
        v = judge(c, {"multi_keys": case.get("multi_keys", [])}, q, full, sel, cfg, "replay")
    print("re-run: selective parse", [shape(x) for x in sel.contents])
    for x in c.failures:
        print("FAIL:", x["what"], "| expected", x["expected"], "| class", x["tag"])
    return 1 if c.failures else 0


def common_ctx():
    import common
    return common.Ctx("C16", "quick", 0)
