"""C15 — formatter options take effect and output is deterministic.
Correspondence with coq/Model/Formatter.v + Model/EntityAlt.v; direct oracle: an independent reference
renderer driven by the *documented* meaning of every option, call-site accounting for custom substitution
functions, attribute-insertion-order twins and subprocess runs under several PYTHONHASHSEED values."""
import copy, itertools, json, os, re, subprocess, sys, warnings

import c15lib as L
from common import PY, REPO, VERIF

RULE = ("constructors: the full product class x language x entity_substitution x void_element_close_prefix x "
        "cdata_containing_tags x empty_attributes_are_booleans x indent (each option also omitted; indent over None / "
        "negative / 0 / positive ints / bools / '' / tab / 'abc' / object / bytes / float), attributes of the built object "
        "compared; resolution: every known_xml chain of length <= 3 x top flag x {registered and unregistered names, "
        "None, library and user functions, objects}; rendering: (a) three probe trees x the product class x 4 substitution "
        "functions x 3 void prefixes x 3 cdata sets x 2 x 6 indents x {decode, prettify}; (b) every tree of <= 3 (quick) / "
        "4 (thorough) nodes over {text, comment, p, pre, script, void br, hidden div} x six formatter specifications x "
        "{decode, prettify, decode_contents at level 1, prettify(encoding, formatter), encode(encoding, 1, formatter), "
        "encode_contents(0, encoding, formatter)}; (b') name case: sibling tags whose names differ only by case (Code/code/CODE, "
        "script/SCRIPT, Style, pre/Pre) x cdata_containing_tags naming one spelling x flavour x class x way of passing x "
        "{decode, prettify, each string's output_ready}; (b'') parsed documents with <meta charset> / http-equiv content-type "
        "declarations (values of the charset-placeholder classes) x names / functions / objects of the three classes x "
        "{decode with default / no / another eventual encoding, encode(utf-8 / utf-16), prettify, *_contents}; (b3) histories: a flavour-less string / Tag rendered or copied in a tree of one flavour, then appended to / "
        "put in place of a child of a tree of the other flavour (Tag trees and parsed soups) or only extracted, then rendered "
        "by name / function / object through every entry point; (b4) parentless strings of every class through "
        "output_ready / format_string / Formatter.substitute, and as attribute values; (c) seeded random trees (every string class, prefixed / void / hidden / "
        "whitespace-preserving elements, attribute values None / '' / str with quotes / list / tuple / number, XML and HTML "
        "flavours, parsed documents) x random formatter specification (object / name / function) x entry point (decode, "
        "prettify, decode_contents, encode, encode_contents, string output_ready) x indent level; attribute order: every "
        "permutation of attribute sets of size <= 3 (a slice / all of size 4, a slice of size 5 in thorough); entity regexes: "
        "every alternative alone and followed by each excluded / a neutral character, plus random mixtures; a sample of all of "
        "it re-run in subprocesses under other PYTHONHASHSEED values. Non-trivial: a non-default option, a custom function, "
        "pretty-printing, or an attribute permutation is involved. Distinct by the JSON of the case.")
ASSUMPTIONS = [
    "element identity is a number in the model (assigned in document order by the harness); Tag._event_stream's `!=` on "
    "parents (structural equality) is modelled as identity comparison — on a tree the two coincide, which is argued, not proved",
    "entity-substitution functions (the three library ones included) are parameters of the renderer: the harness records "
    "their values on every string of the case; only the alternation step of substitute_html / substitute_html5 is modelled "
    "(Model/EntityAlt.v) and tied separately",
    "str.strip(), str.upper() etc. are the interpreter's; the whitespace set is generated from the interpreter (Gen/Stdlib.v)",
    "str(value) of non-string attribute values is supplied by the harness (interpreter's formatting)",
    "independence from hash randomisation is measured (subprocess runs under several PYTHONHASHSEED values), not proved: "
    "the theorems remove its two sources in the code (attribute order, alternation order)",
    "attribute values that are NavigableString objects are generated parentless only (one attached to a cdata-containing tag "
    "would be left verbatim by the code; the property is silent on that)",
    "<meta> charset placeholders (CharsetMetaAttributeValue / ContentMetaAttributeValue): the encoding step that precedes the "
    "formatter in _format_tag belongs to C08; the harness restates it independently (charset -> the eventual encoding, "
    "content -> its charset= part rewritten; Python-specific encodings not generated) and the model receives the resulting "
    "text as an ordinary str value — what is compared is that the formatter is then applied to it",
]

CLS_ID = {"Formatter": 0, "HTMLFormatter": 1, "XMLFormatter": 2}

# ------------------------------------------------------------------------------------------ documentation
# What the documentation (doc/index.rst "Output formatters", the Formatter docstrings, CHANGELOG 4.13.0) fixes.
# Nothing here is read from the implementation.
DOC_AFFIX = {0: ("", ""), 1: ("<![CDATA[", "]]>"), 2: ("<?", ">"), 3: ("<?", "?>"), 4: ("<!--", "-->"),
             5: ("<?", "?>"), 6: ("<!DOCTYPE ", ">\n"), 7: ("", ""), 8: ("", ""), 9: ("", ""), 10: ("", ""), 11: ("", "")}
DOC_VERBATIM_CLASSES = {1, 2, 3, 4, 5, 6}        # comments, CDATA, processing instructions, declarations, doctypes
DOC_HTML_CDATA = {"script", "style"}
DOC_REGISTRY = {
    False: {"html": ("html", "/", False), "html5": ("html5", "", True), "html5-4.12": ("html", "", True),
            "minimal": ("xml", "/", False), None: (None, "/", False)},
    True: {"html": ("html", "/", False), "minimal": ("xml", "/", False), None: (None, "/", False)},
}


def doc_indent(v):
    """Formatter docstring: non-negative int -> that many spaces; 0 / negative / '' / None -> only newlines;
    str -> that string; anything else -> the default (one space)."""
    if v[0] == "none":
        return ""
    if v[0] in ("int", "bool"):
        return " " * max(int(v[1]), 0)
    if v[0] == "str":
        return v[1]
    return " "


def doc_object(cls, kw):
    """documented attributes of cls(**kw): (language, fn, void, cdata set, eab, indent unit)"""
    if cls == "HTMLFormatter":
        lang = "html"
    elif cls == "XMLFormatter":
        lang = "xml"
    else:
        lang = kw.get("language") or "html"
    cd = kw.get("cdata_containing_tags")
    cdata = set(cd[1]) if cd is not None else (set() if lang == "xml" else set(DOC_HTML_CDATA))
    return {"language": lang, "fn": kw.get("entity_substitution"), "void": kw.get("void_element_close_prefix", "/"),
            "cdata": cdata, "eab": bool(kw.get("empty_attributes_are_booleans", False)),
            "unit": doc_indent(kw.get("indent", ["int", 1]))}


def doc_is_xml(chain, top):
    for k in chain:
        if k is not None:
            return k
    return top


def doc_resolve(spec, is_xml):
    """documented options for `formatter=spec` on a tree of the given flavour, or 'KeyError'"""
    if spec["way"] == "object":
        return doc_object(spec["cls"], spec["kw"])
    if spec["way"] == "function":
        return {"language": "xml" if is_xml else "html", "fn": spec["f"], "void": "/",
                "cdata": set() if is_xml else set(DOC_HTML_CDATA), "eab": False, "unit": " "}
    reg = DOC_REGISTRY[is_xml]
    if spec["name"] not in reg:
        return "KeyError"
    fn, void, eab = reg[spec["name"]]
    return {"language": "xml" if is_xml else "html", "fn": None if fn is None else ["lib", fn], "void": void,
            "cdata": set() if is_xml else set(DOC_HTML_CDATA), "eab": eab, "unit": " "}


CHARSET_IN_CONTENT = re.compile(r"((^|;)\s*charset\s*=\s*)([^;]*)", re.M | re.I)


def case_ev(case):
    """the eventual encoding the call is made with: decode()/decode_contents() default to utf-8 (None = no output
    encoding in mind), prettify() uses the default, encode(enc) passes enc on"""
    e = case["entry"]
    if e in ("encode", "encode_contents", "prettify_enc"):
        return case.get("encoding", "utf-8")
    if e in ("decode", "decode_contents"):
        return case["eventual"] if "eventual" in case else "utf-8"
    return "utf-8"


def value_text(v, ev="utf-8"):
    """the text of an attribute value as it is handed to the formatter. A <meta> charset placeholder first becomes
    the declaration for the eventual encoding (documented: "its <meta> tag will mention the new encoding"); with no
    eventual encoding it is its original text. Either way it then goes through the formatter like any other value."""
    t = v[0]
    if t == "none":
        return None
    if t == "navstr":
        return v[1]                 # a parentless string stored as a value is a value like any other
    if t == "charset":
        return v[1] if ev is None else ev
    if t == "content":
        return v[1] if ev is None else CHARSET_IN_CONTENT.sub(lambda m: m.group(1) + ev, v[1])
    if t in ("list", "tuple"):
        return " ".join(v[1])
    if t == "str":
        return v[1]
    return str(v[1])


def ref_render(node, o, level, incl_self, xml_decl=False):
    """Independent reference renderer: documented behaviour, written recursively.
    Returns (text, [arguments the substitution function must have been called with, in document order])."""
    fn = L.plain_fn(o["fn"])
    out, calls = [], []

    def subst(s):
        calls.append(s)
        return fn(s)

    def quote(v):
        if '"' in v:
            if "'" in v:
                return '"' + v.replace('"', "&quot;") + '"'
            return "'" + v + "'"
        return '"' + v + '"'

    def line(piece, lvl, before=True, after=True):
        if not piece:
            return
        out.append((o["unit"] * lvl if before and lvl > 0 else "") + piece + ("\n" if after else ""))

    def text(n, parent_name, lvl, literal):
        pre, suf = DOC_AFFIX[n["cls"]]
        protected = parent_name is not None and parent_name in o["cdata"]
        if n["cls"] in DOC_VERBATIM_CLASSES:
            if fn is not None and not protected:
                calls.append(n["text"])          # called for its side effects, result ignored (documented for CData)
            body = n["text"]
        elif fn is None or protected:
            body = n["text"]
        else:
            body = subst(n["text"])
        piece = pre + body + suf
        if lvl is None or literal:
            out.append(piece)
        else:
            line(piece.strip(), lvl)

    def tags(n):
        if n["hidden"]:
            return "", ""
        q = (n["prefix"] + ":" if n["prefix"] else "") + n["name"]
        parts = []
        for k, v in sorted(n["attrs"], key=lambda kv: kv[0]):
            if o["eab"] and v == ["str", ""]:
                v = ["none"]
            t = value_text(v, o.get("ev", "utf-8"))
            if t is None:
                parts.append(k)
            else:
                parts.append(k + "=" + quote(subst(t) if fn is not None else t))
        empty = bool(n["cbe"]) and not n["kids"]
        return "<" + q + "".join(" " + p for p in parts) + ((o["void"] or "") if empty else "") + ">", "</" + q + ">"

    def walk(n, parent_name, lvl, literal):
        if n["k"] == "s":
            text(n, parent_name, lvl, literal)
            return
        op, cl = tags(n)
        empty = bool(n["cbe"]) and not n["kids"]
        plain = lvl is None or literal
        if empty:
            out.append(op) if plain else line(op, lvl)
            return
        keeps_ws = bool(n["pw"]) and n["name"] in n["pw"]
        if plain:
            out.append(op)
            for c in n["kids"]:
                walk(c, n["name"], None if lvl is None else lvl + 1, literal)
            out.append(cl)
        elif keeps_ws:
            line(op, lvl, True, False)
            for c in n["kids"]:
                walk(c, n["name"], lvl + 1, True)
            line(cl, lvl, False, True)
        else:
            line(op, lvl)
            for c in n["kids"]:
                walk(c, n["name"], lvl + 1, False)
            line(cl, lvl)

    if node["k"] == "e" and (not incl_self or node["hidden"]):
        for c in node["kids"]:
            walk(c, node["name"], level, False)
    else:
        walk(node, None, level, False)
    return ('<?xml version="1.0" encoding="utf-8"?>\n' if xml_decl else "") + "".join(out), calls


# ------------------------------------------------------------------------------------------ model encoding
def enc_fn(fn):
    if fn[0] == "lib":
        return [{"xml": 0, "html": 1, "html5": 2}[fn[1]]]
    if fn[0] == "wrap":
        return [3, 10 + ["xml", "html", "html5"].index(fn[1])]
    return [3, fn[1]]


def enc_indent(v):
    if v[0] == "none":
        return [0]
    if v[0] in ("int", "bool"):
        return [1, int(v[1])]
    if v[0] == "str":
        return [2, v[1]]
    return [3]


def enc_args(kw):
    def o(k, f):
        return [f(kw[k])] if k in kw else []
    return [o("language", lambda v: [] if v is None else [v]),
            o("entity_substitution", lambda v: [] if v is None else [enc_fn(v)]),
            o("void_element_close_prefix", lambda v: [] if v is None else [v]),
            o("cdata_containing_tags", lambda v: [] if v is None else [sorted(set(v[1]))]),
            o("empty_attributes_are_booleans", lambda v: bool(v)),
            o("indent", enc_indent)]


def enc_spec(spec):
    if spec["way"] == "object":
        return [3, CLS_ID[spec["cls"]], enc_args(spec["kw"])]
    if spec["way"] == "name":
        return [1, [] if spec["name"] is None else [spec["name"]]]
    return [2, enc_fn(spec["f"])]


def enc_value(v, ev="utf-8"):
    t = v[0]
    if t == "none":
        return [0]
    if t in ("charset", "content", "navstr"):
        return [1, value_text(v, ev)]        # the model sees the value after the encoding step (a str)
    if t == "str":
        return [1, v[1]]
    if t in ("list", "tuple"):
        return [2, list(v[1])]
    return [3, str(v[1])]


def enc_node(n, counter, ev="utf-8"):
    if n["k"] == "s":
        return [0, n["cls"], n["text"]]
    i = counter[0]
    counter[0] += 1
    return [1, i, n["name"], [] if not n["prefix"] and n["prefix"] is None else [n["prefix"]],
            [[k, enc_value(v, ev)] for k, v in n["attrs"]], bool(n["cbe"]), bool(n["hidden"]),
            list(n["pw"] or []), [enc_node(c, counter, ev) for c in n["kids"]]]


def strings_of(n, acc, ev="utf-8"):
    if n["k"] == "s":
        acc.add(n["text"])
        return
    for _, v in n["attrs"]:
        t = value_text(v, ev)
        if t is not None:
            acc.add(t)
    for c in n["kids"]:
        strings_of(c, acc, ev)


def fns_of(spec):
    fs = [["lib", "xml"], ["lib", "html"], ["lib", "html5"]]
    f = None
    if spec is None:
        return fs
    if spec["way"] == "function":
        f = spec["f"]
    elif spec["way"] == "object":
        f = spec["kw"].get("entity_substitution")
    if f is not None and f not in fs:
        fs.append(f)
    return fs


def enc_env(spec, sub, ev="utf-8"):
    strs = set()
    strings_of(sub, strs, ev)
    strs = sorted(strs)
    return [[enc_fn(f), [[s, L.plain_fn(f)(s)] for s in strs]] for f in fns_of(spec)]


def subtree(case):
    """-> (node at path, known_xml chain from that node upward, name of its parent or None)"""
    n = case["tree"]
    chain = [n.get("known_xml")]
    parent = None
    for i in case["path"]:
        parent = n["name"]
        n = n["kids"][i]
        chain.append(n.get("known_xml") if n["k"] == "e" else None)
    return n, list(reversed(chain)), parent


def case_shape(case):
    """entry point -> (level, include self)"""
    e = case["entry"]
    if e in ("prettify", "prettify_enc"):
        return 0, True
    if e in ("decode", "encode"):
        return case["level"], True
    return case["level"], False


STR_ENTRIES = ("str_output_ready", "str_format_string", "str_substitute")


def str_cls(case, sub):
    """format_string / Formatter.substitute know nothing of string classes: no delimiters, the result is used"""
    return sub["cls"] if case["entry"] == "str_output_ready" else 0


def enc_case(case):
    sub, chain, parent = subtree(case)
    top = bool(case.get("top_is_xml"))
    if case["entry"] in STR_ENTRIES:
        return [15003, enc_env(case["fmt"], sub), [[] if k is None else [k] for k in chain], top,
                [] if case["fmt"] is None else [enc_spec(case["fmt"])], str_cls(case, sub), sub["text"],
                [] if parent is None else [parent]]
    lvl, incl = case_shape(case)
    soup_xml = bool(case.get("soup")) and case["soup"]["xml"] and not case["path"]
    ev = case_ev(case)
    return [15002, enc_env(case["fmt"], sub, ev), [[] if k is None else [k] for k in chain], top, enc_spec(case["fmt"]),
            [] if lvl is None else [lvl], incl, soup_xml, enc_node(sub, [0], ev)]


def dec_result(m):
    if m == [0] or (isinstance(m, list) and m and m[0] == 0):
        return {"out": None, "exc": "KeyError", "calls": []}
    return {"out": "".join(map(chr, m[1])), "exc": None, "calls": ["".join(map(chr, c)) for c in m[2]]}


# ------------------------------------------------------------------------------------------ generators
NAMES = ["p", "b", "div", "a", "script", "style", "pre", "textarea", "br", "hr", "template", "rect", "x", "rt",
         "SCRIPT", "Style", "Code", "code", "CODE", "P", "Pre"]        # names are case sensitive everywhere in the formatter
PREFIXES = [None, None, None, None, "svg", "", "xlink"]
KEYS = ["id", "class", "href", "a", "aa", "a-b", "B", "Z", "data-x", "xml:lang", "é", "selected", "z"]
VALUES = [["none"], ["str", ""], ["str", "v"], ["str", 'say "hi"'], ["str", "it's"], ["str", "\"both' "],
          ["str", "a&b<c>"], ["str", "é ≧̸"], ["str", "tea & AT&T &amp; &nosuch;"], ["list", ["y", "x", "y"]],
          ["list", []], ["tuple", ["u", "t"]], ["int", 5], ["float", 1.5], ["bool", True], ["str", " "], ["obj", "o&<b>"],
          ["str", "javascript:a&b<c"], ["str", "script"], ["str", "style&"], ["str", "&"], ["str", "<"],
          # what a parsed <meta charset=...> / <meta http-equiv=Content-Type content=...> carries
          ["navstr", "n&<é>"], ["charset", "ISO-8859-1"], ["charset", "a&b"], ["content", "text/html; charset=koi8-r"],
          ["content", "a&b <c>; charset=x; q='1'"], ["content", "no declaration here é"]]
TEXTS = ["text", " padded \n", "", "   ", "a<b&c>d", "é ≧̸ ≧", "&amp; &lt;", " x ", "]]>", "x\ny", "tea", "\t",
         "e a\"'", "AT&T &nosuch; &#233;", "<⃒ ="]
PW_CHOICES = [None, [], ["pre", "textarea"], ["pre", "textarea"], ["p"], ["Pre", "code"]]
FNS = [["lib", "xml"], ["lib", "html"], ["lib", "html5"], ["custom", 0], ["custom", 1], ["custom", 2], ["custom", 3],
       ["custom", 4], ["custom", 5], ["wrap", "html"], ["wrap", "xml"]]
INDENTS = [["none"], ["int", -1], ["int", 0], ["int", 1], ["int", 3], ["int", 8], ["bool", True], ["bool", False],
           ["str", ""], ["str", "\t"], ["str", "abc"], ["other", "object"], ["other", "bytes"], ["other", "float"]]
VOIDS = ["/", "", " /", None]
CDATAS = [None, ["set", []], ["set", ["script", "style"]], ["list", ["p"]], ["frozenset", ["b", "script"]],
          ["tuple", ["style", "pre", "x"]]]
# for the random cases only (the exhaustive constructor grid keeps CDATAS): sets that differ from tag names by case
CDATAS_RANDOM = CDATAS + [["set", ["Code"]], ["set", ["code", "P"]], ["list", ["CODE", "Style", "b"]], ["frozenset", ["SCRIPT", "pre"]]]
LANGS = [None, "html", "xml", "", "other"]
NAMES_TO_TRY = ["html", "html5", "html5-4.12", "minimal", None, "xml", "html5-4.12.0", "HTML", ""]
MARKUPS = [
    "<!DOCTYPE html><html><head><title>T &amp; t</title><script>if (a<b && c) {}</script><style>p>b{}</style></head>"
    "<body><p class=\"x y\" id=a>Il a dit &lt;&lt;Sacr&eacute; bleu!&gt;&gt;<br>next<!-- c & c --></p>"
    "<pre>  keep\n  this </pre><option selected=\"\"></option><textarea> t </textarea></body></html>",
    "<a href=\"http://example.com/?foo=val1&bar=val2\">A link</a>",
    "<root><item k=\"v\" a=\"\">x &amp; y</item><?pi data?><![CDATA[raw <&>]]><empty/></root>",
    "<p z=\"1\" m=\"2\" a=\"3\">&ldquo;Dammit!&rdquo; he said.</p>",
] + [
    "<html><head><meta charset=\"ISO-8859-1\"/><meta content=\"text/html; charset=ISO-8859-1\" http-equiv=\"Content-Type\"/>"
    "<title>t &amp; é</title></head><body><p title=\"t&amp;é\">x</p></body></html>",
    "<meta content=\"a&amp;b <c>; charset=koi8-r; é\" http-equiv=\"Content-Type\"/><meta charset=\"a&amp;b\">"
    "<a title=\"a&amp;b <c>\"></a>",
]
META_MARKUPS = MARKUPS[-2:]


def gen_attrs(rng):
    n = rng.choice([0, 0, 1, 1, 2, 3, 4])
    keys = rng.sample(KEYS, n)
    return [[k, copy.deepcopy(rng.choice(VALUES))] for k in keys]


def gen_tree(rng, depth, flavour):
    """flavour: known_xml policy: 'html' (False everywhere), 'xml' (True), 'mixed' (random None/True/False)"""
    if depth <= 0 or rng.random() < 0.3:
        return {"k": "s", "cls": rng.choice([0, 0, 0, 0, 1, 2, 3, 4, 4, 5, 6, 7, 8, 9, 10, 11]), "text": rng.choice(TEXTS)}
    name = rng.choice(NAMES)
    kx = {"html": False, "xml": True}.get(flavour, rng.choice([None, None, True, False]))
    cbe = rng.choice([None, False, True]) if name not in ("br", "hr") else rng.choice([True, True, True, False])
    kids = [] if (name in ("br", "hr") and rng.random() < 0.8) else [gen_tree(rng, depth - 1, flavour) for _ in range(rng.choice([0, 1, 1, 2, 3]))]
    return {"k": "e", "name": name, "prefix": rng.choice(PREFIXES), "attrs": gen_attrs(rng), "cbe": cbe,
            "hidden": rng.random() < 0.04, "pw": copy.deepcopy(rng.choice(PW_CHOICES)), "known_xml": kx, "kids": kids}


def gen_elem(rng, depth, flavour):
    while True:
        t = gen_tree(rng, depth, flavour)
        if t["k"] == "e":
            return t


def gen_kw(rng, cls, dense=False):
    kw = {}
    p = 0.7 if dense else 0.45
    if cls == "Formatter" and rng.random() < p:
        kw["language"] = rng.choice(LANGS)
    if rng.random() < 0.8:
        kw["entity_substitution"] = rng.choice([None] + FNS)
    if rng.random() < p:
        kw["void_element_close_prefix"] = rng.choice(VOIDS)
    if rng.random() < p:
        kw["cdata_containing_tags"] = copy.deepcopy(rng.choice(CDATAS_RANDOM))
    if rng.random() < p:
        kw["empty_attributes_are_booleans"] = rng.choice([True, False])
    if rng.random() < 0.6:
        kw["indent"] = rng.choice(INDENTS)
    return kw


def gen_spec(rng):
    r = rng.random()
    if r < 0.55:
        cls = rng.choice(["Formatter", "HTMLFormatter", "XMLFormatter"])
        return {"way": "object", "cls": cls, "kw": gen_kw(rng, cls)}
    if r < 0.8:
        return {"way": "name", "name": rng.choice(NAMES_TO_TRY[:7])}
    return {"way": "function", "f": rng.choice(FNS)}


def all_paths(n, prefix=()):
    """paths to every node: (path, node)"""
    yield list(prefix), n
    if n["k"] == "e":
        for i, c in enumerate(n["kids"]):
            yield from all_paths(c, prefix + (i,))


def nontrivial(case):
    s = case["fmt"]
    if s is None:
        return False
    if case["entry"] in ("prettify", "prettify_enc") or case.get("level") is not None or case.get("_history"):
        return True
    if s["way"] == "object":
        return bool(s["kw"])
    if s["way"] == "function":
        return True
    return s["name"] not in ("minimal",)


# ------------------------------------------------------------------------------------------ checks
def expected_for(case):
    """documented result of the case: {"out", "exc", "calls"}"""
    sub, chain, parent = subtree(case)
    top = bool(case.get("top_is_xml"))
    if case["entry"] in STR_ENTRIES:
        sub = dict(sub, cls=str_cls(case, sub))
    if case["fmt"] is None:
        pre, suf = DOC_AFFIX[sub["cls"]]
        return {"out": pre + sub["text"] + suf, "exc": None, "calls": []}
    o = doc_resolve(case["fmt"], doc_is_xml(chain, top))
    if o == "KeyError":
        return {"out": None, "exc": "KeyError", "calls": []}
    if case["entry"] in STR_ENTRIES:
        holder = {"k": "e", "name": parent if parent is not None else "\0none", "prefix": None, "attrs": [], "cbe": False,
                  "hidden": True, "pw": None, "kids": [sub]}
        if parent is None:
            o = dict(o, cdata=set())
        out, calls = ref_render(holder, o, None, False)
        return {"out": out, "exc": None, "calls": calls}
    lvl, incl = case_shape(case)
    soup_xml = bool(case.get("soup")) and case["soup"]["xml"] and not case["path"]
    out, calls = ref_render(sub, dict(o, ev=case_ev(case)), lvl, incl, soup_xml)
    return {"out": out, "exc": None, "calls": calls}


def logs_calls(case):
    """is the configured function one whose calls the implementation side records?"""
    s = case["fmt"]
    if s is None:
        return False
    f = s["f"] if s["way"] == "function" else s["kw"].get("entity_substitution") if s["way"] == "object" else None
    return f is not None and f[0] in ("custom", "wrap")


def check_render(ctx, cases, label):
    """implementation vs documented reference (oracle) vs model, on a list of JSON cases"""
    impl = []
    for c in cases:
        if c.get("soup") and "tree" not in c:
            root, _ = L.materialise(c)
            c["tree"] = L.describe(root)
        r = L.run_case(c)
        impl.append(r)
        ctx.case(("render", json.dumps(c, sort_keys=True, default=repr)), nontrivial=nontrivial(c))
        exp = expected_for(c)
        what = None
        if r["exc"] != exp["exc"]:
            what = "raises %s where %s is documented" % (r["exc"], exp["exc"] or "a result")
        elif r["out"] != exp["out"]:
            what = "output differs from the documented effect of the formatter options"
        elif logs_calls(c) and r["calls"] != exp["calls"]:
            what = "custom substitution function called on other strings than the text nodes and attribute values outside cdata-containing tags"
        if what:
            ctx.fail(c, what, {"out": r["out"], "exc": r["exc"], "calls": r["calls"] if logs_calls(c) else None},
                     exp, tag=label)
    if ctx.build.model_ok and cases:
        res = ctx.model.run([enc_case(c) for c in cases])
        for c, r, m in zip(cases, impl, res):
            if isinstance(m, tuple):
                ctx.disagree("model command failed", c, r, m[1])
                continue
            mr = dec_result(m)
            if r["exc"] not in (None, "KeyError"):
                ctx.disagree("Tag.decode/output_ready ~ Model.Formatter.tag_decode (unexpected exception)", c, r, mr)
            elif (r["exc"], r["out"]) != (mr["exc"], mr["out"]):
                ctx.disagree("Tag.decode/output_ready ~ Model.Formatter.tag_decode", c, r, mr)
            elif logs_calls(c) and r["calls"] != mr["calls"]:
                ctx.disagree("calls of entity_substitution ~ Model.Formatter.decode_calls", c, r["calls"], mr["calls"])
    return impl


def ctor_grid(ctx):
    """exhaustive constructor grid: attributes of the object vs documentation (oracle) vs model"""
    omitted = object()
    cmds, rows = [], []
    fn_choices = [omitted, None, ["lib", "html"], ["custom", 0]]
    eab_choices = [omitted, False, True]
    for cls in ("Formatter", "HTMLFormatter", "XMLFormatter"):
        langs = [omitted] + LANGS if cls == "Formatter" else [omitted]
        for lang, fn, void, cd, eab, ind in itertools.product(langs, fn_choices, [omitted] + VOIDS, [omitted] + CDATAS,
                                                               eab_choices, [omitted] + INDENTS):
            kw = {}
            for k, v in (("language", lang), ("entity_substitution", fn), ("void_element_close_prefix", void),
                         ("cdata_containing_tags", cd), ("empty_attributes_are_booleans", eab), ("indent", ind)):
                if v is not omitted:
                    kw[k] = v
            spec = {"way": "object", "cls": cls, "kw": kw}
            try:
                f = L.make_formatter(spec, [])
                got = L.formatter_fields(f)
            except Exception as e:
                got = "EXC:" + type(e).__name__
            d = doc_object(cls, kw)
            exp = {"language": d["language"],
                   "subst": None if d["fn"] is None else (d["fn"] if d["fn"][0] == "lib" else ["custom", "logged"]),
                   "void": d["void"], "cdata": sorted(d["cdata"]), "eab": d["eab"], "indent": d["unit"]}
            ctx.case(("ctor", cls, json.dumps(kw, sort_keys=True)), nontrivial=bool(kw))
            if got != exp:
                ctx.fail(spec, "constructor option does not arrive in the formatter as documented", got, exp, tag="ctor")
            cmds.append([15000, CLS_ID[cls], enc_args(kw)])
            rows.append((spec, got))
    ctx.count("ctor_grid", len(rows))
    ctx.sample({"constructor": rows[len(rows) // 2][0], "attributes": rows[len(rows) // 2][1]})
    if ctx.build.model_ok:
        for (spec, got), m in zip(rows, ctx.model.run(cmds)):
            if isinstance(m, tuple) or isinstance(got, str):
                ctx.disagree("Formatter.__init__ ~ Model.Formatter.construct", spec, got, m)
                continue
            fn = m[1]
            mv = {"language": "".join(map(chr, m[0])),
                  "subst": None if not fn else (["lib", ["xml", "html", "html5"][fn[0][0]]] if fn[0][0] < 3 else ["custom", "logged"]),
                  "void": None if not m[2] else "".join(map(chr, m[2][0])),
                  "cdata": sorted("".join(map(chr, x)) for x in m[3]), "eab": bool(m[4]), "indent": "".join(map(chr, m[5]))}
            if mv != got:
                ctx.disagree("Formatter.__init__ ~ Model.Formatter.construct", spec, got, mv)


def resolution_grid(ctx):
    """formatter_for_name over flavour chains x ways of passing"""
    from bs4.element import Tag
    specs = [{"way": "name", "name": n} for n in NAMES_TO_TRY]
    specs += [{"way": "function", "f": f} for f in (["lib", "html"], ["lib", "xml"], ["custom", 0])]
    specs += [{"way": "object", "cls": c, "kw": kw} for c in ("Formatter", "HTMLFormatter", "XMLFormatter")
              for kw in ({}, {"indent": ["int", 4], "void_element_close_prefix": ""})]
    chains = [list(c) for n in (1, 2, 3) for c in itertools.product([None, True, False], repeat=n)]
    cmds, rows = [], []
    for chain in chains:          # chain: self first, then ancestors
        for top in (False, True):
            tags = [Tag(name="n%d" % i, is_xml=k) for i, k in enumerate(chain)]
            for child, parent in zip(tags, tags[1:]):
                parent.append(child)
            if top:
                tags[-1].is_xml = True
            for spec in specs:
                try:
                    f = tags[0].formatter_for_name(L.make_formatter(spec, []))
                    got = L.formatter_fields(f)
                    if got["subst"] is not None and got["subst"][0] == "custom":
                        got["subst"] = ["custom", "logged"]
                except KeyError:
                    got = "KeyError"
                except Exception as e:
                    got = "EXC:" + type(e).__name__
                case = {"chain": chain, "top_is_xml": top, "fmt": spec}
                ctx.case(("resolve", json.dumps(case, sort_keys=True)))
                d = doc_resolve(spec, doc_is_xml(chain, top))
                if d == "KeyError":
                    exp = "KeyError"
                else:
                    exp = {"language": d["language"],
                           "subst": None if d["fn"] is None else (d["fn"] if d["fn"][0] == "lib" else ["custom", "logged"]),
                           "void": d["void"], "cdata": sorted(d["cdata"]), "eab": d["eab"], "indent": d["unit"]}
                if got != exp:
                    ctx.fail(case, "formatter_for_name does not resolve to the documented formatter for this tree flavour",
                             got, exp, tag="resolve")
                cmds.append([15001, [[] if k is None else [k] for k in chain], top, enc_spec(spec)])
                rows.append((case, got))
    ctx.count("resolution_grid", len(rows))
    k = next(i for i, (c, g) in enumerate(rows) if c["chain"] == [None, True] and c["fmt"].get("name") == "html5")
    ctx.sample({"resolution": rows[k][0], "impl": rows[k][1]})
    if ctx.build.model_ok:
        for (case, got), m in zip(rows, ctx.model.run(cmds)):
            if isinstance(m, tuple):
                ctx.disagree("formatter_for_name ~ Model.Formatter.formatter_for_name", case, got, m)
                continue
            if not m:
                mv = "KeyError"
            else:
                m = m[0]
                fn = m[1]
                mv = {"language": "".join(map(chr, m[0])),
                      "subst": None if not fn else (["lib", ["xml", "html", "html5"][fn[0][0]]] if fn[0][0] < 3 else ["custom", "logged"]),
                      "void": None if not m[2] else "".join(map(chr, m[2][0])),
                      "cdata": sorted("".join(map(chr, x)) for x in m[3]), "eab": bool(m[4]), "indent": "".join(map(chr, m[5]))}
            if mv != got:
                ctx.disagree("formatter_for_name ~ Model.Formatter.formatter_for_name", case, got, mv)


def S(cls, text):
    return {"k": "s", "cls": cls, "text": text}


def E(name, kids=(), attrs=(), cbe=None, pw=("pre", "textarea"), prefix=None, hidden=False, known_xml=None):
    return {"k": "e", "name": name, "prefix": prefix, "attrs": [list(a) for a in attrs], "cbe": cbe, "hidden": hidden,
            "pw": None if pw is None else list(pw), "known_xml": known_xml, "kids": list(kids)}


PROBES = [
    E("div", [E("p", [S(0, "tea & <é>"), E("br", cbe=True), S(4, " c&c "), E("b", [S(0, " in b ")], attrs=[["z", ["str", ""]], ["a", ["str", "say \"tea\""]]])],
                attrs=[["id", ["str", "e&é"]], ["class", ["list", ["x", "y"]]], ["selected", ["str", ""]], ["n", ["none"]]]),
              E("script", [S(8, "if (a<b && tea) {}")]), E("style", [S(7, "p>b{}")]),
              E("pre", [S(0, "  keep\n tea "), E("b", [S(0, "x")])]), S(1, "raw <&> tea"), S(6, "html"), S(0, "   ")]),
    E("a", [E("b", [S(0, "text")])]),
    E("root", [E("item", [S(0, "x & y"), S(2, "pi tea"), E("empty", cbe=True, attrs=[["e", ["str", ""]]])],
                 attrs=[["k", ["str", "it's"]], ["B", ["int", 5]]], prefix="ns"),
               E("script", [S(0, "a<tea")]), E("p", [S(9, "tpl<tea>")])], known_xml=True, pw=None),
]


def probe_grid(ctx):
    cases = []
    fns = [None, ["lib", "html"], ["custom", 1], ["custom", 4]]
    for tree in PROBES:
        for cls in ("Formatter", "HTMLFormatter", "XMLFormatter"):
            for fn, void, cd, eab, ind in itertools.product(
                    fns, ["/", "", None], [None, ["set", []], ["list", ["p", "script"]]], [False, True],
                    [["none"], ["int", -2], ["int", 3], ["str", "\t"], ["str", "ab"], ["other", "object"]]):
                kw = {"entity_substitution": fn, "void_element_close_prefix": void, "cdata_containing_tags": cd,
                      "empty_attributes_are_booleans": eab, "indent": ind}
                for entry in ("decode", "prettify"):
                    cases.append({"tree": tree, "path": [], "soup": None, "fmt": {"way": "object", "cls": cls, "kw": kw},
                                  "entry": entry, "level": None})
    ctx.count("probe_grid", len(cases))
    impl = check_render(ctx, cases, "probe-grid")
    k = len(cases) // 3 + 7
    ctx.sample({"case": {"formatter": cases[k]["fmt"], "entry": cases[k]["entry"], "tree": "probe tree 1"},
                "impl": impl[k]["out"]})
    return cases


def small_forests(n):
    """every forest (list of trees) with at most n nodes over a small alphabet of node kinds"""
    if n == 0:
        return [[]]
    out = [[]]
    for size in range(1, n + 1):
        for t in small_trees_of_size(size):
            for rest in small_forests(n - size):
                out.append([t] + rest)
    return out


_sized = {}


def small_trees_of_size(size):
    if size in _sized:
        return _sized[size]
    out = []
    if size == 1:
        out += [S(0, " t&x "), S(4, "c&")]
    for kind in ("p", "pre", "script", "br", "hid"):
        for f in small_forests(size - 1):
            if sum(count_nodes(t) for t in f) != size - 1:
                continue
            if kind == "br":
                out.append(E("br", f, cbe=True, attrs=[["b", ["str", ""]], ["a", ["str", "x&"]]]))
            elif kind == "hid":
                out.append(E("div", f, hidden=True))
            else:
                out.append(E(kind, f))
    _sized[size] = out
    return out


def count_nodes(t):
    return 1 + sum(count_nodes(c) for c in t.get("kids", []))


SMALL_SPECS = [
    {"way": "name", "name": "minimal"}, {"way": "name", "name": "html5"}, {"way": "name", "name": None},
    {"way": "function", "f": ["custom", 1]},
    {"way": "object", "cls": "Formatter", "kw": {"entity_substitution": ["custom", 4], "cdata_containing_tags": ["set", ["p"]],
                                                "void_element_close_prefix": "", "empty_attributes_are_booleans": True,
                                                "indent": ["int", 2]}},
    {"way": "object", "cls": "XMLFormatter", "kw": {"indent": ["str", "\t"], "entity_substitution": ["lib", "xml"]}},
]


def small_scope(ctx):
    """every tree of at most 3 (quick) / 4 (thorough) nodes over {text, comment, p, pre, script, void br, hidden div}
    x six formatter specifications x {decode, prettify, decode_contents at level 1}"""
    n = 3 if ctx.thorough else 2
    cases = []
    for kind in ("p", "pre", "script", "br", "hid"):
        for f in small_forests(n):
            if kind == "br":
                root = E("br", f, cbe=True)
            elif kind == "hid":
                root = E("div", f, hidden=True)
            else:
                root = E(kind, f)
            for spec in SMALL_SPECS:
                for entry, lvl in (("decode", None), ("prettify", None), ("decode_contents", 1), ("prettify_enc", None),
                                   ("encode", 1), ("encode_contents", 0)):
                    cases.append({"tree": root, "path": [], "soup": None, "fmt": spec, "entry": entry, "level": lvl})
    ctx.count("small_scope_cases", len(cases))
    check_render(ctx, cases, "small-scope")
    return n + 1


def run_coqchk(ctx):
    """thorough tier: independent re-check of the compiled theorems with coqchk"""
    from common import COQ, sh
    rc, out = sh("timeout 1500 coqchk -silent -o -R . BS BS.Props.C15", cwd=COQ, timeout=1600)
    ok = rc == 0 and "Axioms: <none>" in out.replace("\n", " ").replace("  ", " ")
    ctx.extra_cov["coqchk"] = {"cmd": "coqchk -silent -o -R . BS BS.Props.C15", "rc": rc, "axioms_none": ok,
                               "tail": out.strip()[-600:]}
    if not ok:
        ctx.build.proof_ok = False
        ctx.build.errors.append({"stage": "proof", "file": "coq/Props/C15.v", "line": 0, "theorem": "coqchk",
                                 "message": out.strip()[-800:]})


def case_grid(ctx):
    """Names are compared exactly: a tag is cdata-containing / whitespace-preserving iff its very name is in the set.
    Siblings whose names differ only by case x sets naming one of the spellings x flavour x class x way of passing."""
    spellings = ["Code", "code", "CODE", "script", "SCRIPT", "Style", "pre", "Pre"]
    cases = []
    for flavour in (None, False, True):
        tree = E("Doc", [E(nm, [S(0, " a<b&é tea "), E("b", [S(0, "in<b")])], known_xml=flavour, pw=("pre", "Code"))
                         for nm in spellings]
                 + [E("SCRIPT", [S(8, "x<y&")], known_xml=flavour, pw=None)],
                 known_xml=flavour, pw=("pre", "Code"))
        specs = [{"way": "name", "name": "html"}, {"way": "name", "name": "minimal"},
                 {"way": "function", "f": ["custom", 0]}]
        for cls in ("Formatter", "HTMLFormatter", "XMLFormatter"):
            for cd in (None, ["set", ["Code"]], ["set", ["code"]], ["list", ["CODE", "style"]], ["frozenset", ["SCRIPT", "Pre"]],
                       ["set", ["script", "Style", "pre"]]):
                for fn in (["lib", "xml"], ["custom", 0]):
                    kw = {"entity_substitution": fn}
                    if cd is not None:
                        kw["cdata_containing_tags"] = cd
                    specs.append({"way": "object", "cls": cls, "kw": kw})
        for spec in specs:
            for entry in ("decode", "prettify"):
                cases.append({"tree": tree, "path": [], "soup": None, "fmt": spec, "entry": entry, "level": None})
            # and each string on its own (NavigableString.output_ready)
            for i in range(len(spellings) + 1):
                cases.append({"tree": tree, "path": [i, 0], "soup": None, "fmt": spec, "entry": "str_output_ready", "level": None})
    ctx.count("case_sensitivity_grid", len(cases))
    check_render(ctx, cases, "name-case")
    return cases


def node_at(tree, path):
    n = tree
    for i in path:
        n = n["kids"][i]
    return n


def make_history(a, path, how, b, dest_path, first):
    """-> (description of the tree the moved element ends up in, its path there, the history for c15lib.run_history)"""
    x = copy.deepcopy(node_at(a["tree"], path))
    h = {"a": a, "path": list(path), "first": first, "how": how, "b": b if how in ("append", "replace") else None,
         "dest_path": list(dest_path)}
    if how == "extract":
        return x, [], h
    if how == "stay":
        return a["tree"], list(path), h
    tree = copy.deepcopy(b["tree"])
    dest = node_at(tree, dest_path)
    if how == "append":
        dest["kids"].append(x)
        return tree, list(dest_path) + [len(dest["kids"]) - 1], h
    dest["kids"][0] = x
    return tree, list(dest_path) + [0], h


def tree_of(spec):
    """{"tree"} or {"soup"} -> the same with "tree" filled in"""
    if spec.get("soup") and "tree" not in spec:
        root, _ = L.materialise({"soup": spec["soup"], "path": []})
        spec = dict(spec, tree=L.describe(root))
    return spec


def move_grid(ctx):
    """Histories: a flavour-less element (string, Tag made without is_xml) is rendered or copied inside a tree of one
    flavour, moved into a tree of the other flavour (append / replace_with) or merely extracted, and rendered again by
    name, by function, by object. Oracle: the formatter is resolved for the tree the element is in now (for a
    parentless string: the HTML default, and nothing protects it from the substitution function)."""
    xs = [S(0, "a<b&\u00e9"), S(8, "x<y&"), S(4, "c<&"), E("script", [S(0, "a<b&")], pw=None),
          E("b", [S(0, "t&<"), E("br", cbe=True, pw=None)], attrs=[["t", ["str", "v&"]], ["e", ["str", ""]]], pw=None)]

    def html_tree(x):
        return E("div", [E("script", [x], known_xml=False)], known_xml=False)

    def xml_tree(x):
        return E("root", [E("script", [x], known_xml=True)], known_xml=True)
    html_dest = [{"tree": E("div", [E("script", [S(0, "old")], known_xml=False), E("p", [], known_xml=False)], known_xml=False)},
                 tree_of({"soup": {"markup": "<div><script>old</script><p></p></div>", "xml": False}})]
    xml_dest = [{"tree": E("root", [E("script", [S(0, "old")], known_xml=True), E("item", [], known_xml=True)], known_xml=True, pw=None)},
                tree_of({"soup": {"markup": "<div><script>old</script><p></p></div>", "xml": True}})]
    specs = [{"way": "name", "name": n} for n in ("minimal", "html", "html5", None)]
    specs += [{"way": "function", "f": ["custom", 1]}, {"way": "function", "f": ["lib", "html"]},
              {"way": "object", "cls": "Formatter", "kw": {"entity_substitution": ["custom", 0]}}]
    cases = []
    for x in xs:
        for to_xml in (False, True):
            a = {"tree": (html_tree if to_xml else xml_tree)(x)}
            dests = xml_dest if to_xml else html_dest
            for b in dests:
                soup_b = bool(b.get("soup"))
                pre = [0] if soup_b else []
                for how, dest_path in (("append", pre + [0]), ("replace", pre + [0]), ("append", pre + [1]), ("extract", [])):
                    if how == "extract" and b is not dests[0]:
                        continue
                    for spec in specs:
                        entries = STR_ENTRIES if x["k"] == "s" else ("decode", "prettify", "encode", "decode_contents", "prettify_enc")
                        for entry in entries:
                            for first in (None, {"action": "copy"},
                                          {"action": "render", "fmt": spec, "entry": entry, "level": None}):
                                tree2, path2, h = make_history(a, [0, 0], how, b, dest_path, first)
                                cases.append({"tree": tree2, "path": path2, "soup": None, "fmt": spec, "entry": entry,
                                              "level": None, "_history": h})
    ctx.count("move_history_grid", len(cases))
    impl = check_render(ctx, cases, "moved-element")
    k = next(i for i, c in enumerate(cases) if c["_history"]["how"] == "append" and c["fmt"].get("name") == "minimal"
             and c["_history"]["first"] and c["_history"]["first"]["action"] == "render")
    ctx.sample({"history": {kk: v for kk, v in cases[k]["_history"].items() if kk != "b"}, "fmt": cases[k]["fmt"],
                "entry": cases[k]["entry"], "impl": impl[k]["out"]})
    return cases


def lone_strings(ctx):
    """strings that are in no tree (NavigableString(...), new_string, extracted): every string class x texts x every way of
    passing a formatter x output_ready / format_string / Formatter.substitute"""
    specs = [{"way": "name", "name": n} for n in ("minimal", "html", "html5", None)]
    specs += [{"way": "function", "f": f} for f in (["custom", 0], ["custom", 1], ["lib", "xml"])]
    specs += [{"way": "object", "cls": c, "kw": kw} for c in ("Formatter", "HTMLFormatter", "XMLFormatter")
              for kw in ({"entity_substitution": ["custom", 1]},
                         {"entity_substitution": ["lib", "html"], "cdata_containing_tags": ["set", []]}, {})]
    cases = []
    for cls in range(12):
        for text in ("a<b&\u00e9", " t ", ""):
            for spec in specs + [None]:
                for entry in STR_ENTRIES:
                    if spec is None and entry == "str_substitute":
                        continue
                    cases.append({"tree": S(cls, text), "path": [], "soup": None, "fmt": spec, "entry": entry, "level": None})
    ctx.count("lone_string_cases", len(cases))
    check_render(ctx, cases, "parentless-string")
    return cases


def meta_grid(ctx):
    """Parsed documents whose <meta> tags declare an encoding (the stored attribute values are the charset placeholder
    classes) x every kind of formatter x with / without / other output encoding. The value written is the formatter's
    attribute-value function applied to the declaration for the eventual encoding — whatever class the stored value has."""
    specs = [{"way": "name", "name": n} for n in ("html", "minimal", "html5", None)]
    specs += [{"way": "function", "f": f} for f in (["custom", 0], ["custom", 1], ["custom", 5], ["lib", "html"])]
    specs += [{"way": "object", "cls": c, "kw": ({} if f == "omit" else {"entity_substitution": f})}
              for c in ("Formatter", "HTMLFormatter", "XMLFormatter") for f in (["custom", 1], ["lib", "xml"], "omit")]
    entries = [("decode", {}), ("decode", {"eventual": None}), ("decode", {"eventual": "iso-8859-1"}), ("encode", {}),
               ("prettify_enc", {}), ("prettify_enc", {"encoding": "utf-16"}),
               ("encode", {"encoding": "utf-16"}), ("prettify", {}), ("decode_contents", {"eventual": "windows-1252"}),
               ("encode_contents", {})]
    cases = []
    for mk in META_MARKUPS:
        for xml in (False, True):
            for path in ([], [0]):
                for spec in specs:
                    for entry, extra in entries:
                        if xml and not path and extra:
                            continue          # BeautifulSoup.decode's XML declaration is outside this model
                        c = {"soup": {"markup": mk, "xml": xml}, "path": path, "fmt": spec, "entry": entry, "level": None}
                        c.update(extra)
                        cases.append(c)
    ctx.count("meta_charset_grid", len(cases))
    impl = check_render(ctx, cases, "meta-charset")
    k = next(i for i, c in enumerate(cases) if c["fmt"].get("f") == ["custom", 1] and c["entry"] == "encode" and c["path"] == [0])
    ctx.sample({"case": {k2: v for k2, v in cases[k].items() if k2 != "tree"}, "impl": impl[k]["out"]})
    return cases


def documented_examples(ctx, only=None):
    """the examples of doc/index.rst, with their printed results"""
    from bs4 import BeautifulSoup
    from bs4.formatter import HTMLFormatter, XMLFormatter, Formatter
    french = "<p>Il a dit &lt;&lt;Sacr&eacute; bleu!&gt;&gt;</p>"
    soup = BeautifulSoup(french, "html.parser")
    link = BeautifulSoup('<a href="http://example.com/?foo=val1&bar=val2">A link</a>', "html.parser")
    br = BeautifulSoup("<br>", "html.parser").br
    option = BeautifulSoup('<option selected=""></option>', "html.parser").option
    attr_soup = BeautifulSoup(b'<p z="1" m="2" a="3"></p>', "html.parser")
    checks = [
        ("minimal", lambda: soup.prettify(formatter="minimal"), "<p>\n Il a dit &lt;&lt;Sacré bleu!&gt;&gt;\n</p>\n"),
        ("html", lambda: soup.prettify(formatter="html"), "<p>\n Il a dit &lt;&lt;Sacr&eacute; bleu!&gt;&gt;\n</p>\n"),
        ("None", lambda: soup.prettify(formatter=None), "<p>\n Il a dit <<Sacré bleu!>>\n</p>\n"),
        ("br html", lambda: br.encode(formatter="html"), b"<br/>"),
        ("br html5", lambda: br.encode(formatter="html5"), b"<br>"),
        ("option html", lambda: option.encode(formatter="html"), b'<option selected=""></option>'),
        ("option html5", lambda: option.encode(formatter="html5"), b"<option selected></option>"),
        ("link None", lambda: link.a.encode(formatter=None), b'<a href="http://example.com/?foo=val1&bar=val2">A link</a>'),
        ("uppercase object", lambda: soup.prettify(formatter=HTMLFormatter(lambda s: s.upper())),
         "<p>\n IL A DIT <<SACRÉ BLEU!>>\n</p>\n"),
        ("uppercase link", lambda: link.a.prettify(formatter=HTMLFormatter(lambda s: s.upper())),
         '<a href="HTTP://EXAMPLE.COM/?FOO=VAL1&BAR=VAL2">\n A LINK\n</a>\n'),
        ("HTMLFormatter(indent=8)", lambda: link.a.prettify(formatter=HTMLFormatter(indent=8)),
         '<a href="http://example.com/?foo=val1&amp;bar=val2">\n        A link\n</a>\n'.replace("&amp;", "&")),
        ("XMLFormatter(indent=2)", lambda: link.a.prettify(formatter=XMLFormatter(indent=2)),
         '<a href="http://example.com/?foo=val1&bar=val2">\n  A link\n</a>\n'),
        ("Formatter(indent='\\t')", lambda: link.a.prettify(formatter=Formatter(indent="\t")),
         '<a href="http://example.com/?foo=val1&bar=val2">\n\tA link\n</a>\n'),
        ("sorted attributes", lambda: attr_soup.p.encode(), b'<p a="3" m="2" z="1"></p>'),
    ]
    # every formatter name the Formatter docstring lists for a flavour can be passed as formatter= on that flavour
    import re
    from bs4.element import Tag
    doc = Formatter.__doc__ or ""
    m = re.search(r"For HTML documents:(.*?)For XML documents:(.*)", doc, re.S)
    if m:
        for flavour, text in ((False, m.group(1)), (True, m.group(2))):
            for nm in re.findall(r"^\s*\* '([^']+)' -", text, re.M):
                def f(nm=nm, flavour=flavour):
                    t = Tag(name="br", is_xml=flavour, can_be_empty_element=True)
                    t.decode(formatter=nm)
                    return "accepted"
                checks.append(("docstring name %r on %s" % (nm, "XML" if flavour else "HTML"), f, "accepted"))
    if only is not None:
        checks = [c for c in checks if c[0] == only]
    for name, f, exp in checks:
        ctx.case(("doc-example", name))
        try:
            got = f()
        except Exception as e:
            got = "EXC:" + type(e).__name__
        if got != exp:
            ctx.fail({"documented_example": name}, "documented example does not give the documented output", repr(got), repr(exp),
                     tag="doc-example")


def load_corpus():
    d = os.path.join(VERIF, "corpus", "C15")
    out = []
    if os.path.isdir(d):
        for fn in sorted(os.listdir(d)):
            if fn.endswith(".json"):
                data = json.load(open(os.path.join(d, fn)))
                out += data["cases"]
    return out


def random_cases(ctx, n):
    rng = ctx.rng
    cases = []
    while len(cases) < n:
        r = rng.random()
        if r < 0.12:
            mk = rng.choice(MARKUPS)
            xml = rng.random() < 0.4
            c = {"soup": {"markup": mk, "xml": xml}, "path": []}
            root, _ = L.materialise(c)
            c["tree"] = L.describe(root)
        elif r < 0.18:
            c = {"soup": None, "tree": gen_tree(rng, 0, "mixed")}          # a string that is in no tree at all
        else:
            c = {"soup": None, "tree": gen_elem(rng, rng.choice([1, 2, 2, 3, 4]), rng.choice(["html", "xml", "mixed", "mixed"]))}
        paths = list(all_paths(c["tree"]))
        path, node = rng.choice(paths) if rng.random() < 0.5 else paths[0]
        c["fmt"] = gen_spec(rng)
        if not c.get("soup") and path and rng.random() < 0.2:
            # a history: the node is rendered / copied where it is, then moved to a tree of another flavour (or just
            # extracted), then rendered; the formatter must be the one of the tree it is in now
            b = gen_elem(rng, 2, rng.choice(["html", "xml"]))
            dests = [pp for pp, nn in all_paths(b) if nn["k"] == "e"]
            dp = rng.choice(dests)
            how = rng.choice(["extract", "append", "append", "replace"])
            if how == "replace" and not node_at(b, dp)["kids"]:
                how = "append"
            first = rng.choice([None, {"action": "copy"}, {"action": "render", "fmt": gen_spec(rng), "level": None,
                                                              "entry": "str_output_ready" if node["k"] == "s" else "decode"}])
            tree2, path2, h = make_history({"tree": c["tree"]}, path, how, {"tree": b}, dp, first)
            c = {"soup": None, "tree": tree2, "fmt": c["fmt"], "_history": h}
            path = path2
        if node["k"] == "s":
            c["path"] = path
            c["entry"] = rng.choice(STR_ENTRIES)
            c["level"] = None
            if rng.random() < 0.15 and c["entry"] != "str_substitute":
                c["fmt"] = None
        else:
            c["path"] = path
            c["entry"] = rng.choice(["decode", "decode", "prettify", "prettify", "decode_contents", "encode", "encode_contents",
                                     "prettify_enc"])
            c["level"] = rng.choice([None, None, 0, 1, 2, -1]) if c["entry"] not in ("prettify", "prettify_enc") else None
            xml_root = bool(c.get("soup")) and c["soup"]["xml"] and not path     # the XML declaration names the encoding too
            if not xml_root and rng.random() < 0.3:
                if c["entry"] in ("decode", "decode_contents"):
                    c["eventual"] = rng.choice([None, "iso-8859-1", "utf-8", "koi8-r"])
                elif c["entry"] in ("encode", "encode_contents", "prettify_enc"):
                    c["encoding"] = "utf-16"
        if not c.get("soup") and not c["path"] and not c.get("_history") and rng.random() < 0.1:
            c["top_is_xml"] = True
        cases.append(c)
    return cases


def permuted_twin(rng, case):
    """same case, every attribute dictionary filled in another order, cdata collection in another order"""
    t = copy.deepcopy(case)
    changed = [False]

    def walk(n):
        if n["k"] == "e":
            if len(n["attrs"]) > 1:
                old = list(n["attrs"])
                rng.shuffle(n["attrs"])
                if n["attrs"] == old:
                    n["attrs"].reverse()
                changed[0] = True
            for c in n["kids"]:
                walk(c)
    walk(t["tree"])
    s = t["fmt"]
    if s and s["way"] == "object" and s["kw"].get("cdata_containing_tags"):
        s["kw"]["cdata_containing_tags"][1].reverse()
    return t if changed[0] else None


def attribute_orders(ctx):
    """Formatter.attributes over every insertion order of small attribute sets"""
    from bs4.element import Tag
    from bs4.formatter import Formatter
    keys = ["a", "aa", "a-b", "B", "é", "b", "ab", "Z", "a:b"]
    vals = [["str", ""], ["str", "v"], ["none"], ["list", ["x"]]]
    sets = []
    for n in (0, 1, 2, 3):
        sets += list(itertools.combinations(keys, n))
    sets += [c for c in itertools.combinations(keys, 4)][::(1 if ctx.thorough else 7)]
    if ctx.thorough:
        sets += [c for c in itertools.combinations(keys, 5)][::9]
    cmds, rows = [], []
    for ks in sets:
        items = [[k, vals[(i + len(ks)) % len(vals)]] for i, k in enumerate(ks)]
        for eab in (False, True):
            results = set()
            for perm in itertools.permutations(items):
                tag = Tag(name="t")
                tag.attrs = {k: L.make_value(v) for k, v in perm}
                got = list(Formatter(empty_attributes_are_booleans=eab).attributes(tag))
                gotd = [[k, L.value_desc(v)] for k, v in got]
                results.add(json.dumps(gotd))
                exp = [[k, (["none"] if eab and v == ["str", ""] else v)] for k, v in sorted(items, key=lambda kv: kv[0])]
                case = {"attrs_in_insertion_order": list(perm), "empty_attributes_are_booleans": eab}
                ctx.case(("attrs", json.dumps(case)), nontrivial=len(ks) > 1)
                if gotd != exp:
                    ctx.fail(case, "Formatter.attributes is not the attribute list sorted by name", gotd, exp, tag="attributes")
                cmds.append([15004, eab, [[k, enc_value(v)] for k, v in perm]])
                rows.append((case, gotd))
            if len(results) > 1:
                ctx.fail({"attribute_set": items}, "attribute order in the output depends on insertion order", sorted(results), None,
                         tag="attributes")
    ctx.count("attribute_orders", len(rows))
    ctx.sample({"attributes": rows[len(rows) // 2][0], "impl": rows[len(rows) // 2][1]})
    if ctx.build.model_ok:
        for (case, got), m in zip(rows, ctx.model.run(cmds)):
            def dv(v):
                return [["none"], None, None, None][0] if v[0] == 0 else (["str", "".join(map(chr, v[1]))] if v[0] == 1 else
                                                                            ["list", ["".join(map(chr, x)) for x in v[1]]] if v[0] == 2 else
                                                                            ["str", "".join(map(chr, v[1]))])
            mv = [["".join(map(chr, k)), dv(v)] for k, v in m]
            if mv != got:
                ctx.disagree("Formatter.attributes ~ Model.Formatter.attributes", case, got, mv)


def particle_strings(ctx):
    import re
    from bs4.dammit import EntitySubstitution as ES
    pat = ES.CHARACTER_TO_HTML_ENTITY_WITH_AMPERSAND_RE.pattern
    strs = ["", "&", "a&b", "&&", "<>", "<⃒", ">⃒", "=⃥", "fj", "≫̸⃒", "≫⃒̸"]
    lits = []
    for x in pat[1:-1].split("|"):
        m = re.fullmatch(r"(.)\(\?!\[([^\]]+)\]\)", x, re.S)
        if m:
            lits.append(m.group(1))
            strs.append(m.group(1))
            strs.append(m.group(1) + "x")
            for c in m.group(2):
                strs.append(m.group(1) + c)
                strs.append(m.group(1) + c + m.group(1))
                strs.append(m.group(1) + m.group(1) + c)
        else:
            lits.append(x)
            strs.append(x)
            strs.append("a" + x + "b")
            if len(x) > 1:
                strs.append(x[0])
                strs.append(x[1:])
                strs.append(x[0] + x)
    rng = ctx.rng
    pool = lits + list("ab&<> ;#x1") + ["̸", "⃒", "︀", "⃥", "̱", "̳", " "]
    for _ in range(6000 if ctx.thorough else 1200):
        strs.append("".join(rng.choice(pool) for _ in range(rng.randint(1, 8))))
    return strs


def alternation(ctx):
    """the two entity regexes vs Model/EntityAlt.v; oracle: every reachable string is replaced by the entity whose
    html.unescape is that string, nothing else changes (so the result cannot depend on which alternative matched)"""
    import html
    from bs4.dammit import EntitySubstitution as ES
    strs = particle_strings(ctx)
    cmds, rows = [], []
    for s in strs:
        a = ES.substitute_html(s)
        b = ES.CHARACTER_TO_HTML_ENTITY_RE.sub(ES._substitute_html_entity, s)
        ctx.case(("alt", s), nontrivial=a != s)
        if html.unescape(a) != s:
            ctx.fail({"string": s}, "substitute_html output does not read back as the input", a, s, tag="alternation")
        cmds.append([15005, True, s])
        rows.append((s, a))
        cmds.append([15005, False, s])
        rows.append((s, b))
    ctx.count("alternation_strings", len(strs))
    ctx.sample({"substitute_html": "\u2267\u0338 \u2267x & <\u20d2", "impl": ES.substitute_html("\u2267\u0338 \u2267x & <\u20d2")})
    if ctx.build.model_ok:
        for (s, got), m in zip(rows, ctx.model.run(cmds)):
            mv = m if isinstance(m, tuple) else "".join(map(chr, m))
            if mv != got:
                ctx.disagree("entity regex .sub ~ Model.EntityAlt.sub_alt", {"string": s}, got, mv)
    return strs


def subprocess_seeds(ctx, cases, strs):
    """the same cases under other PYTHONHASHSEED values: outputs must be identical"""
    seeds = ["1", "2", "7", "42", "1234", "99991", "random", "random"] if ctx.thorough else ["1", "2", "random"]
    cases = [c for c in cases if c["fmt"] is not None]
    base = [L.run_case(c) for c in cases]
    from bs4.dammit import EntitySubstitution as ES
    sbase = [[ES.substitute_html(s), ES.substitute_html5(s), ES.substitute_xml(s),
              ES.CHARACTER_TO_HTML_ENTITY_RE.sub(ES._substitute_html_entity, s)] for s in strs]
    digests = set()
    import hashlib
    digests.add(hashlib.sha256(ES.CHARACTER_TO_HTML_ENTITY_WITH_AMPERSAND_RE.pattern.encode()).hexdigest()[:16])
    lib = os.path.join(VERIF, "harness", "c15lib.py")
    for seed in seeds:
        env = dict(os.environ, PYTHONHASHSEED=seed, PYTHONPATH=REPO)
        for kind, payload, ref in (("render", cases, base), ("subst", strs, sbase)):
            p = subprocess.run([PY, "-B", lib], input=json.dumps({"kind": kind, "cases": payload}).encode(),
                               stdout=subprocess.PIPE, stderr=subprocess.PIPE, env=env, timeout=900)
            if p.returncode != 0:
                raise RuntimeError("seed subprocess failed: " + p.stderr.decode()[-400:])
            data = json.loads(p.stdout.decode())
            digests.add(data["pattern_digest"])
            for c, r0, r1 in zip(payload, ref, data["results"]):
                ctx.evaluations += 1
                if r0 != r1:
                    ctx.fail({"PYTHONHASHSEED": seed, "case": c}, "output depends on interpreter hash randomisation", r1, r0,
                             tag="hashseed")
    ctx.count("hashseed_runs", len(seeds))
    ctx.count("hashseed_cases_per_run", len(cases) + len(strs))
    ctx.count("distinct_entity_regex_orders_seen", len(digests))
    ctx.extra_cov["pythonhashseeds"] = ["0 (in-process)"] + seeds


def run(ctx):
    with warnings.catch_warnings():
        warnings.simplefilter("ignore")
        corpus = load_corpus()
        ctx.count("corpus_cases", len(corpus))
        check_render(ctx, corpus, "corpus")
        documented_examples(ctx)
        ctor_grid(ctx)
        resolution_grid(ctx)
        probe = probe_grid(ctx)
        scope_nodes = small_scope(ctx)
        case_cases = case_grid(ctx)
        meta_cases = meta_grid(ctx)
        move_cases = move_grid(ctx)
        lone_cases = lone_strings(ctx)
        attribute_orders(ctx)
        strs = alternation(ctx)
        rnd = random_cases(ctx, 40000 if ctx.thorough else 3000)
        impl = check_render(ctx, rnd, "random")
        k = next((i for i, c in enumerate(rnd) if c["entry"] == "prettify" and logs_calls(c)), 0)
        ctx.sample({"case": {"formatter": rnd[k]["fmt"], "entry": rnd[k]["entry"], "path": rnd[k]["path"], "tree": rnd[k]["tree"]},
                    "impl": impl[k]})
        # attribute insertion order: twins must render identically
        twins = 0
        tw_cases = []
        for c, r in zip(rnd, impl):
            t = permuted_twin(ctx.rng, c)
            if t is None or c.get("soup") or c.get("_history"):
                continue
            twins += 1
            r2 = L.run_case(t)
            tw_cases.append(t)
            ctx.case(("twin", json.dumps(t, sort_keys=True, default=repr)))
            if (r2["out"], r2["exc"]) != (r["out"], r["exc"]):
                ctx.fail({"case": c, "same_tree_other_insertion_order": t},
                         "output depends on attribute insertion order", r2["out"], r["out"], tag="insertion-order")
        ctx.count("insertion_order_twins", twins)
        n = 4000 if ctx.thorough else 300
        sample = corpus + ctx.rng.sample(probe, min(len(probe), n)) + rnd[:n] + tw_cases[:n // 3] + case_cases[::7] + meta_cases[::11] + move_cases[::13] + lone_cases[::9]
        subprocess_seeds(ctx, sample, strs[:4000] if ctx.thorough else strs[:1500])
        if ctx.tier == "thorough" and not ctx.search_mode:
            run_coqchk(ctx)
    ctx.extra_cov["exhaustive"] = True
    ctx.extra_cov["exhaustive_scope"] = ("constructor grid (all classes x all option values incl. omitted); resolution grid (chains <= 3); "
                                         "probe trees x option product x {decode, prettify}; every tree of <= %d nodes over 7 node kinds x 6 formatter "
                                         "specifications x 3 entry points; the name-case grid; attribute permutations (sets <= 3 "
                                         "fully, a slice of size 4); every alternative of both entity regexes") % scope_nodes


def replay(ctx, data):
    f = (data.get("failure") or {})
    case = f.get("case") or {}
    if isinstance(case, dict) and "case" in case and "entry" in (case.get("case") or {}):
        case = case["case"]
    if "entry" in case:
        r = L.run_case(case)
        e = expected_for(case)
        print("formatter=%r entry=%s level=%r path=%r" % (case["fmt"], case["entry"], case.get("level"), case["path"]))
        if case.get("_history"):
            h = case["_history"]
            print("history: element at %r of tree a %s, then %s%s; rendered where it is now" % (
                h["path"], "first %s there" % (h["first"] or {}).get("action") if h.get("first") else "untouched",
                h["how"], " into tree b at %r" % h.get("dest_path") if h.get("b") else ""))
        print("implementation:", json.dumps(r, ensure_ascii=True))
        print("documented:    ", json.dumps(e, ensure_ascii=True))
        return 1 if (r["out"], r["exc"]) != (e["out"], e["exc"]) else 0
    if "documented_example" in case:
        class _C:
            failures = []
            def case(self, *a, **k):
                pass
            def fail(self, case, what, observed=None, expected=None, tag=None):
                self.failures.append((what, observed, expected))
        c = _C()
        documented_examples(c, only=case["documented_example"])
        print("documented example %r:" % case["documented_example"], c.failures or "gives the documented output")
        return 1 if c.failures else 0
    if "way" in case:
        try:
            got = L.formatter_fields(L.make_formatter(case, []))
        except Exception as ex:
            got = "EXC:" + type(ex).__name__
        print("constructor %r -> %r ; documented %r" % (case, got, f.get("expected")))
        return 1
    print(json.dumps(f, ensure_ascii=True)[:2000])
    return 1
