"""C12 — copies and pickles are equal, detached and independent; equality is structural.
Direct oracle: independent signatures / reference equality / object-identity disjointness / edit probes
on the real objects. Correspondence: coq/Model/Copy.v (commands 12000..12005) on the same object graphs."""
import copy, itertools, pickle, random, warnings
from bs4 import BeautifulSoup
from bs4.element import Tag, NavigableString, Comment, CData, Doctype, AttributeValueList, NamespacedAttribute
import treeimpl as T
import histgen as G
import histrun as R
import c12lib as L

RULE = ("documents: (a) every document of <=3 (quick) / <=4 (thorough) elements (all forest shapes x leaf kinds "
        "tag/string/comment, built through the event interface, attributes dealt round-robin from a fixed list); "
        "(b) seeded random html.parser documents written from a random tree (void elements, string containers, "
        "comments, CDATA, PI, doctype, prefixed names, multi-valued / boolean / duplicate-free attributes) under 5 "
        "builder configurations (default, multi_valued_attributes=None, HTML attribute dict, custom list / dict / "
        "Tag / string classes, custom whitespace / container / void sets), followed by attribute assignments "
        "through the Tag API (None, True, False, ints, strings, new lists, deletions, namespaced keys); (c) seeded "
        "random edit histories (C01's 14 call kinds) on event-built documents, every tree of the resulting forest. "
        "For every element of every tree: copy.copy and copy.deepcopy -> signature (names, attributes with value "
        "types, settings, string classes), ==, !=, hash, decode, detachedness + C01 walker, object-identity "
        "disjointness (elements, attribute dicts, list values); every single edit of a fixed catalogue (28 kinds: "
        "structure, attributes, list values) applied to the copy (original re-inspected) and to the original (copy "
        "re-inspected); equality on all ordered pairs of pools of near-identical trees (one name / attribute / "
        "attribute order / value type / child / string class / position changed); pickle round trips of documents "
        "(protocols 2 and highest) and of tags; multi-step chains (3-8 steps of copy / deepcopy / pickle round trip / "
        "structure edit / attribute edit, fixed patterns such as pickle-edit-pickle plus seeded random ones), every copy or "
        "pickle step checked against the document it was applied to as it is at that moment. Non-trivial: the element is a tag with attributes or children. "
        "Distinct by (document recipe, element, check).")
ASSUMPTIONS = [
    "pickle / copy module mechanics (__reduce_ex__, __getnewargs__, memo) are the interpreter's; Tag pickling (generic object pickling of the connected graph) is measured, not modelled",
    "Tag.descendants is modelled as the pre-order of the child lists (C01_descendants) and append() of a new parentless element as the two writes of append_child (C02_insert1_places_child); the six links of a finished copy are checked on the implementation by the C01 walker",
    "the generator's lazily interleaved reads of the original during __deepcopy__ are modelled as reads of the pre-copy state (sound because every write goes to a new object: C12_copy_isomorphic_detached_fresh, frame clause)",
    "builder-derived settings objects (cdata_list_attributes, preserve_whitespace_tags, interesting_string_types, _namespaces) are shared by reference between original and copy as in the code and treated as immutable; the class of the attribute container is not modelled",
    "rendering (decode) and hashing are arbitrary functions of the content in the theorems; decode/hash equality of copies is measured on the implementation",
    "pickled documents: render / parse are parameters of C12_pickle_is_reparse_partial; equality up to the re-parse normalisations is C05's and is measured here",
    "a BeautifulSoup object carries no attributes of its own (hypothesis soup_ok; copy_self and pickling do not keep them)",
    "float attribute values are not modelled (oracle only)",
]

EVENT_ATTRS = [[], [("id", "i1")], [("class", "a b"), ("id", "x")], [("href", "h?a=1&b=2")], [("title", "T")]]


def quiet():
    c = warnings.catch_warnings()
    c.__enter__()
    warnings.simplefilter("ignore")
    return c


# ------------------------------------------------------------------------------------------------
# one element: oracle + correspondence
# ------------------------------------------------------------------------------------------------
def oracle_copy(ctx, recipe, roots, xi, x, deep_edits):
    """Direct oracle for one element x (index xi in the pre-order of all roots)."""
    top = L.top_of(x)
    base_top = L.sig(top)
    for fname, fn in (("copy.copy", copy.copy), ("copy.deepcopy", copy.deepcopy)):
        case = {"recipe": recipe, "element": xi, "call": fname}
        try:
            c = fn(x)
        except Exception as e:
            ctx.fail(case, "%s raised %s" % (fname, type(e).__name__), repr(e)[:200], "a copy", tag="copy-raised")
            continue
        if c is x:
            ctx.fail(case, "the copy is the original object", None, None, tag="same-object")
            continue
        d = L.sig_diff(L.sig(x), L.sig(c))
        if d:
            ctx.fail(case, "copy does not preserve names / attributes / settings / string classes: " + d,
                     None, None, tag="signature")
        if isinstance(x, Tag):
            if not (c == x) or not (x == c) or (c != x) or (x != c):
                ctx.fail(case, "copy does not compare equal to its original", (c == x, x == c, c != x, x != c),
                         (True, True, False, False), tag="equal")
            if hash(c) != hash(x):
                ctx.fail(case, "copy does not hash like its original", None, None, tag="hash")
            if c.decode() != x.decode() or str(c) != str(x):
                ctx.fail(case, "copy renders differently", c.decode(), x.decode(), tag="render")
            try:
                if c.prettify() != x.prettify():
                    ctx.fail(case, "copy prettifies differently", c.prettify(), x.prettify(), tag="render")
            except Exception as e:
                ctx.fail(case, "prettify raised %s" % type(e).__name__, None, None, tag="render")
        else:
            if type(c) is not type(x) or str(c) != str(x) or not (c == x):
                ctx.fail(case, "copied string has another class or text", (type(c).__name__, str(c)),
                         (type(x).__name__, str(x)), tag="string-class")
        for b in L.detached_problems(c):
            ctx.fail(case, "copy is attached / inconsistent: " + b, None, None, tag="detached")
        a = L.objects_of(top)
        bset = L.objects_of(c)
        for i, what in enumerate(("elements", "attribute dictionaries", "attribute value lists")):
            if a[i] & bset[i]:
                ctx.fail(case, "copy shares %s with the original" % what, None, None, tag="shared")
        if L.sig(top) != base_top:
            ctx.fail(case, "copying changed the original", None, None, tag="original-changed")
    if deep_edits and isinstance(x, Tag):
        independence(ctx, recipe, xi, x)


def independence(ctx, recipe, xi, x):
    """Every single edit of the catalogue, applied to a copy (original unchanged?) and to the original
    (copy unchanged?)."""
    top = L.top_of(x)
    base_top = L.sig(top)
    n = len(L.edits_for(x))
    for ei in range(n):
        try:
            c = copy.copy(x)
        except Exception:
            return
        eds = L.edits_for(c)
        if ei >= len(eds):
            break             # the copy has another shape than the original: already reported
        desc, fn = eds[ei]
        case = {"recipe": recipe, "element": xi, "edit": desc, "applied_to": "copy"}
        before = L.sig(c)
        try:
            fn(c)
        except Exception as e:
            ctx.fail(case, "edit of a copy raised %s" % type(e).__name__, repr(e)[:200], None, tag="edit-raised")
            continue
        ctx.count("edits_on_copy")
        if L.sig(top) != base_top:
            ctx.fail(case, "editing the copy changed the original", L.sig_diff(base_top, L.sig(top)), None,
                     tag="independence")
            return
        f = T.Forest(top)
        w = T.walk_check(f)
        if w:
            ctx.fail(case, "the original is inconsistently linked after editing the copy: " + w[0], None, None,
                     tag="independence")
            return
        if L.sig(c) != before:
            ctx.count("edits_effective")
    # the other direction needs a fresh original per edit
    for ei in range(n):
        roots2 = L.build_doc(recipe)
        x2 = all_elements(roots2)[xi]
        c = copy.copy(x2)
        before = L.sig(c)
        desc, fn = L.edits_for(x2)[ei]
        case = {"recipe": recipe, "element": xi, "edit": desc, "applied_to": "original"}
        try:
            fn(x2)
        except Exception:
            continue          # the same call on the original may be inadmissible (e.g. wrap of a root): not our concern
        ctx.count("edits_on_original")
        if L.sig(c) != before:
            ctx.fail(case, "editing the original changed the copy", L.sig_diff(before, L.sig(c)), None,
                     tag="independence")
            return
        bad = L.detached_problems(c)
        if bad:
            ctx.fail(case, "the copy is attached / inconsistent after editing the original: " + bad[0], None, None,
                     tag="independence")
            return


def all_elements(roots):
    out = []
    for r in roots:
        out.extend(T.preorder(r))
    return out


EV_KIND = {0: "start", 1: "end", 2: "empty", 3: "string"}


def model_copy_cases(ctx, recipe, roots):
    """Correspondence for every element of the forest: event stream, copy (whole resulting state), hypotheses."""
    if not ctx.build.model_ok:
        return
    els = all_elements(roots)
    enc = L.StateEnc()
    for r in roots:
        enc.add_root(r)
    try:
        st0 = enc.state()
    except L.Unencodable:
        ctx.count("unencodable_states")
        return
    cmds = []
    for xi, x in enumerate(els):
        cmds.append([12000, st0, xi])
        cmds.append([12004, st0, xi])
        if isinstance(x, Tag):
            cmds.append([12001, st0, xi])
        cmds.append([12005, st0, xi])
    res = ctx.model.run(cmds)
    k = 0
    for xi, x in enumerate(els):
        case = {"recipe": recipe, "element": xi}
        rcopy, rhyp = res[k], res[k + 1]
        k += 2
        ctx.count("theorem_hypotheses_evaluated")
        if not rhyp:
            ctx.count("hypotheses_false")
            ctx.notes.append("hypotheses of the copy theorems do not hold for %r" % case) if len(ctx.notes) < 5 else None
        if isinstance(x, Tag):
            revs = res[k]
            k += 1
            impl_evs = []
            for ev, el in x._event_stream(x.descendants):
                kind = ("start" if ev is Tag.START_ELEMENT_EVENT else "end" if ev is Tag.END_ELEMENT_EVENT
                        else "empty" if ev is Tag.EMPTY_ELEMENT_EVENT else "string")
                impl_evs.append([kind, enc.eid[id(el)]])
            m_evs = [[EV_KIND[a], b] for a, b in revs]
            if impl_evs != m_evs:
                ctx.disagree("Tag._event_stream(descendants) ~ Model.Copy.es_loop", case, impl_evs, m_evs)
        rspec = res[k]
        k += 1
        # the implementation's copy, registered after everything that existed
        try:
            c = copy.copy(x)
        except Exception:
            continue          # reported by the oracle
        enc2 = L.StateEnc()
        enc2.objs, enc2.classes = enc.objs, enc.classes
        for r in roots:
            enc2.add_root(r)
        enc2.add_root(c)
        impl_state = L.norm_state(enc2.state())
        if rcopy[0] != 1:
            ctx.disagree("Tag.__deepcopy__ ~ Model.Copy.deepcopy (model ran out of its tag stack)", case, "copied", "None")
            continue
        if rcopy[1] != enc2.eid[id(c)]:
            ctx.disagree("id of the clone", case, enc2.eid[id(c)], rcopy[1])
            continue
        mstate = L.dec_state(rcopy[2])
        d = L.state_diff(impl_state, mstate)
        if d:
            ctx.disagree("state after copy.copy(x) (all elements, all list objects) ~ Model.Copy.deepcopy", case, d, None)
        # the recursive statement agrees with the loop (theorem C12_deepcopy_is_recursive_copy, evaluated)
        if rspec[0] != rcopy[1] or L.dec_state(rspec[1]) != mstate:
            ctx.disagree("Spec.CopySpec.copy_spec = Model.Copy.deepcopy (evaluated)", case, None, None)


MODEL_EDITS = ["set", "del", "name", "newlist", "lappend", "lclear", "lset0", "lpop", "lreverse", "extract",
               "append_existing", "append_new_tag", "append_new_string"]


def model_edit_cases(ctx, recipe, roots, rng, count):
    """Copy an element, then apply modelled single edits to the copy or to the original on both sides and
    compare the whole state (so: the edited tree AND the untouched one)."""
    if not ctx.build.model_ok:
        return
    els = all_elements(roots)
    tags = [i for i, e in enumerate(els) if isinstance(e, Tag)]
    if not tags:
        return
    for _ in range(count):
        roots2 = L.build_doc(recipe)
        els2 = all_elements(roots2)
        xi = rng.choice(tags)
        x = els2[xi]
        c = copy.copy(x)
        enc = L.StateEnc()
        for r in roots2:
            enc.add_root(r)
        enc.add_root(c)
        try:
            st0 = enc.state()
        except L.Unencodable:
            return
        side = rng.choice(["copy", "original"])
        pool = T.preorder(c) if side == "copy" else T.preorder(L.top_of(x))
        ptags = [e for e in pool if isinstance(e, Tag)]
        kind = rng.choice(MODEL_EDITS)
        t = rng.choice(ptags)
        tid = enc.eid[id(t)]
        cmd = None
        desc = None
        new_obj = None
        lists = [(k, v) for k, v in t.attrs.items() if isinstance(v, list)]
        if kind == "set":
            k = rng.choice(list(t.attrs.keys()) + ["zz"])
            cmd = [0, tid, str(k), [0, "changed"]]
            dict.__setitem__(t.attrs, k, "changed")
        elif kind == "del" and t.attrs:
            k = rng.choice(list(t.attrs.keys()))
            cmd = [1, tid, str(k)]
            del t.attrs[k]
        elif kind == "name":
            cmd = [2, tid, "renamed"]
            t.name = "renamed"
        elif kind == "newlist":
            k = rng.choice(list(t.attrs.keys()) + ["zz"])
            v = AttributeValueList(["p", "q"])
            cmd = [3, tid, str(k), enc.classes(AttributeValueList), ["p", "q"]]
            dict.__setitem__(t.attrs, k, v)
        elif kind.startswith("l") and lists:
            k, v = rng.choice(lists)
            lid = enc.lid[id(v)]
            if kind == "lappend":
                cmd = [4, lid, 0, "zz"]; v.append("zz")
            elif kind == "lclear":
                cmd = [4, lid, 1, ""]; v.clear()
            elif kind == "lset0" and v:
                cmd = [4, lid, 2, "zz"]; v[0] = "zz"
            elif kind == "lpop" and v:
                cmd = [4, lid, 3, ""]; v.pop()
            elif kind == "lreverse":
                cmd = [4, lid, 4, ""]; v.reverse()
        elif kind == "extract":
            e = rng.choice(pool)
            cmd = [5, enc.eid[id(e)]]
            e.extract()
        elif kind == "append_existing":
            e = rng.choice(pool)
            anc = set()
            p = t
            while p is not None:
                anc.add(id(p)); p = p.parent
            if id(e) not in anc and not isinstance(e, BeautifulSoup):
                cmd = [6, tid, enc.eid[id(e)]]
                t.append(e)
        elif kind == "append_new_tag":
            new_obj = Tag(name="zz", attrs={"k": "v"})
            cmd = [7, tid, enc.payload(new_obj)]
            t.append(new_obj)
        elif kind == "append_new_string":
            new_obj = Comment("zz")
            cmd = [7, tid, enc.payload(new_obj)]
            t.append(new_obj)
        if cmd is None:
            continue
        case = {"recipe": recipe, "element": xi, "edit": cmd, "applied_to": side}
        ctx.case(("medit", repr(recipe), xi, repr(cmd), side))
        ctx.count("model_edits")
        enc2 = L.StateEnc()
        enc2.objs, enc2.classes = enc.objs, enc.classes
        # same ids as before the edit: re-register in the old order, then whatever is new
        enc2.els, enc2.eid = list(enc.els), dict(enc.eid)
        enc2.lists, enc2.lid = list(enc.lists), dict(enc.lid)
        if new_obj is not None:
            enc2.add_root(new_obj)
        try:
            impl_state = L.norm_state(enc2.state())
        except L.Unencodable:
            continue
        m = ctx.model.run([[12003, st0, [cmd]]])[0]
        d = L.state_diff(impl_state, L.dec_state(m))
        if d:
            ctx.disagree("state after a single edit of the %s (edited tree and untouched tree) ~ Model.Copy edits" % side,
                         case, d, None)


# ------------------------------------------------------------------------------------------------
# documents
# ------------------------------------------------------------------------------------------------
def small_event_docs(maxn):
    docs = []
    for n in range(0, maxn + 1):
        for shape in G.shapes(n):
            for evs in G.leaf_variants(shape):
                out, k = [], 0
                for e in evs:
                    if e[0] == "s":
                        out.append(("s", e[1], e[2], EVENT_ATTRS[k % len(EVENT_ATTRS)]))
                        k += 1
                    else:
                        out.append(e)
                docs.append(out)
                if n >= 1:
                    # the same document with void-element names: <br> with and without children (EMPTY events)
                    docs.append([("s", "br", e[2], e[3]) if e[0] == "s" else ("e", "br", e[2]) if e[0] == "e" else e
                                 for e in out])
    return docs


def check_document(ctx, recipe, deep_edits, rng, medits):
    nfail = len(ctx.failures)
    try:
        check_document1(ctx, recipe, deep_edits, rng, medits)
    except Exception:
        if len(ctx.failures) == nfail:
            raise             # nothing wrong was seen with the implementation: a defect of the harness
        ctx.count("checks_aborted_after_a_failure")


def check_document1(ctx, recipe, deep_edits, rng, medits):
    with warnings.catch_warnings():
        warnings.simplefilter("ignore")
        roots = L.build_doc(recipe)
        els = all_elements(roots)
        for xi, x in enumerate(els):
            nontriv = isinstance(x, Tag) and bool(x.attrs or x.contents)
            ctx.case(("copy", repr(recipe), xi), nontrivial=nontriv)
            oracle_copy(ctx, recipe, roots, xi, x, deep_edits)
            if len(ctx.failures) > 40:
                return
        model_copy_cases(ctx, recipe, roots)
        if medits:
            model_edit_cases(ctx, recipe, roots, rng, medits)


# ------------------------------------------------------------------------------------------------
# equality pools
# ------------------------------------------------------------------------------------------------
def variants(base_markup, kw):
    """A pool of near-identical trees: [(description, element)]. The base is the first <div> of the markup."""
    pool = []

    def fresh():
        return L.parse(base_markup, kw).div

    pool.append(("base", fresh()))
    pool.append(("base again (another parse)", fresh()))
    pool.append(("copy of base", copy.copy(fresh())))
    v = fresh(); v.name = "section"; pool.append(("root renamed", v))
    v = fresh(); v.name = "DIV"; pool.append(("root name in upper case", v))
    v = fresh(); v.name = "x:div"; v.prefix = "x"; pool.append(("root name with a prefix", v))
    v = fresh(); v.prefix = "x"; v.namespace = "urn:x"; pool.append(("same name, other prefix / namespace fields", v))
    v = fresh()
    inner = [t for t in v.find_all(True)]
    if inner:
        inner[0].name = "other"; pool.append(("first descendant renamed", v))
    v = fresh(); v["data-added"] = "1"; pool.append(("attribute added", v))
    v = fresh()
    if v.attrs:
        k = list(v.attrs)[0]
        del v[k]; pool.append(("attribute removed", v))
    v = fresh()
    if v.attrs:
        items = list(v.attrs.items())
        v.attrs.clear()
        for k, val in reversed(items):
            dict.__setitem__(v.attrs, k, val)
        pool.append(("attribute order reversed", v))
    v = fresh()
    for k, val in list(v.attrs.items()):
        if isinstance(val, list):
            dict.__setitem__(v.attrs, k, " ".join(val)); pool.append(("list value replaced by its joined string", v)); break
    v = fresh()
    for k, val in list(v.attrs.items()):
        if isinstance(val, list) and len(val) > 1:
            val.reverse(); pool.append(("list value reversed", v)); break
    v = fresh()
    for k, val in list(v.attrs.items()):
        if isinstance(val, list):
            dict.__setitem__(v.attrs, k, list(val)); pool.append(("list value of another list class", v)); break
    v = fresh()
    for k, val in list(v.attrs.items()):
        if isinstance(val, str):
            dict.__setitem__(v.attrs, k, val + "x"); pool.append(("string value changed", v)); break
    v = fresh()
    if v.contents:
        v.contents[-1].extract(); pool.append(("last child removed", v))
    v = fresh(); v.append(Tag(name="extra")); pool.append(("child added", v))
    v = fresh()
    if len(v.contents) > 1:
        a = v.contents[0].extract(); v.append(a); pool.append(("children rotated", v))
    v = fresh()
    strs = [s for s in v.find_all(string=True)]
    if strs:
        strs[0].replace_with(NavigableString(str(strs[0]) + "!")); pool.append(("string text changed", v))
    v = fresh()
    strs = [s for s in v.find_all(string=True) if type(s) is NavigableString]
    if strs:
        strs[0].replace_with(Comment(str(strs[0]))); pool.append(("string class changed (same text)", v))
    v = fresh()
    tags = v.find_all(True)
    if tags:
        tags[-1].replace_with(NavigableString(tags[-1].decode())); pool.append(("a tag replaced by its markup as text", v))
    # positions: the same tree under other parents / detached
    v = fresh(); v.extract(); pool.append(("base, extracted", v))
    other = L.parse("<section><p>before</p></section>", kw)
    v = fresh(); other.section.append(v); pool.append(("base, moved into another document", v))
    v = fresh(); w = Tag(name="wrapper"); v.wrap(w); pool.append(("base, wrapped", v))
    # numbers and booleans stored raw
    v = fresh(); dict.__setitem__(v.attrs, "n", 1); pool.append(("raw int 1", v))
    v = fresh(); dict.__setitem__(v.attrs, "n", True); pool.append(("raw True", v))
    v = fresh(); dict.__setitem__(v.attrs, "n", "1"); pool.append(("string '1'", v))
    v = fresh(); dict.__setitem__(v.attrs, "n", None); pool.append(("raw None", v))
    return pool


POOL_BASES = [
    '<div class="a b" id="x"><p>one</p>two<b class="k">three</b><!--c--></div>',
    '<div id="only"></div>',
    '<div rel="r1 r2" class="c" data-x="v"><span><i>deep</i></span><br/>t</div>',
    '<div><div><div>x</div></div>x</div>',
]


def equality_pools(ctx, rng):
    for bi, base in enumerate(POOL_BASES):
        for cname, kw in L.CONFIGS[:3] if not ctx.thorough else L.CONFIGS:
            with warnings.catch_warnings():
                warnings.simplefilter("ignore")
                pool = variants(base, kw)
                # a string and a child tag join the pool: a string never equals a tag
                extra = [("a child tag", pool[0][1].find(True) or Tag(name="q")), ("a string", NavigableString("one")),
                         ("a comment with the same text", Comment("one"))]
                allp = pool + extra
                recipe = {"kind": "pool", "base": bi, "config": cname}
                # correspondence: all roots in one state
                m_eq = None
                if ctx.build.model_ok:
                    enc = L.StateEnc()
                    tops = []
                    for _, e in allp:
                        t = L.top_of(e)
                        if id(t) not in [id(z) for z in tops]:
                            tops.append(t)
                    for t in tops:
                        enc.add_root(t)
                    try:
                        st = enc.state()
                        cmds = [[12002, st, enc.eid[id(a)], enc.eid[id(b)]] for _, a in allp for _, b in allp]
                        m_eq = ctx.model.run(cmds)
                    except L.Unencodable:
                        m_eq = None
                k = 0
                eqm = {}
                for i, (da, a) in enumerate(allp):
                    for j, (db, b) in enumerate(allp):
                        case = {"recipe": recipe, "left": da, "right": db}
                        ctx.case(("eq", bi, cname, i, j), nontrivial=(i != j))
                        got = (a == b)
                        gne = (a != b)
                        exp = L.ref_eq(a, b)
                        eqm[(i, j)] = got
                        if bool(got) != exp:
                            ctx.fail(case, "== disagrees with structural equality (name, attribute map, pairwise children)",
                                     got, exp, tag="eq-structure")
                        if bool(gne) == bool(got):
                            ctx.fail(case, "!= is not the negation of ==", (got, gne), None, tag="eq-ne")
                        if m_eq is not None:
                            me = m_eq[k]
                            k += 1
                            if bool(me[0]) != bool(got) or bool(me[1]) != bool(got):
                                ctx.disagree("Tag.__eq__ ~ Model.Copy.eq_h / Spec teq(content)", case, bool(got),
                                             [bool(me[0]), bool(me[1])])
                n = len(allp)
                for i in range(n):
                    if not eqm[(i, i)]:
                        ctx.fail({"recipe": recipe, "left": allp[i][0]}, "== is not reflexive", None, None, tag="eq-refl")
                    for j in range(n):
                        if eqm[(i, j)] != eqm[(j, i)]:
                            ctx.fail({"recipe": recipe, "left": allp[i][0], "right": allp[j][0]}, "== is not symmetric",
                                     None, None, tag="eq-sym")
                        if eqm[(i, j)]:
                            for l in range(n):
                                if eqm[(j, l)] and not eqm[(i, l)]:
                                    ctx.fail({"recipe": recipe, "a": allp[i][0], "b": allp[j][0], "c": allp[l][0]},
                                             "== is not transitive", None, None, tag="eq-trans")
                # a copy hashes like its original (every pool member)
                for d, a in pool:
                    if isinstance(a, Tag):
                        c = copy.copy(a)
                        ctx.case(("hash", bi, cname, d))
                        if hash(c) != hash(a) or not (c == a):
                            ctx.fail({"recipe": recipe, "left": d}, "a copy does not equal / hash like its original", None, None,
                                     tag="hash")
    ctx.sample({"equality_pool_base": POOL_BASES[0], "variants": [d for d, _ in variants(POOL_BASES[0], {})][:8]})


# ------------------------------------------------------------------------------------------------
# pickling
# ------------------------------------------------------------------------------------------------
PLAIN = (NavigableString, L.MyString, L.BoldString)


def rendered(v):
    """An attribute value as the renderer writes it (and the parser reads it back): lists joined by spaces,
    a valueless attribute as the empty string."""
    if isinstance(v, list):
        return " ".join(str(x) for x in v)
    return "" if v is None else str(v)


def norm_sig(e, norm, pwset, pw=False, loose=False):
    """Signature up to the re-parse normalisations of C05 (norm=True: adjacent default-class strings merged, empty
    ones dropped, a newline after a doctype, whitespace-only runs outside whitespace-preserving tags collapsed)."""
    if not isinstance(e, Tag):
        return ("s", type(e).__name__, str(e))
    kids = []
    pw = pw or (e.name in pwset)
    for c in e.contents:
        if isinstance(c, Tag):
            kids.append(norm_sig(c, norm, pwset, pw, loose))
            continue
        # loose: every string class that is written as bare text counts as text (a copied document is re-parsed under
        # the builder's own string classes: BeautifulSoup.copy_self does not carry element_classes over)
        k = ("s", "plain" if (type(c) in PLAIN or (loose and not type(c).PREFIX and not type(c).SUFFIX)) else type(c).__name__,
             str(c))
        if norm and k[1] == "plain" and k[2] == "":
            continue
        kids.append(k)
        if norm and isinstance(c, Doctype):
            kids.append(("s", "plain", "\n"))
    if norm:
        out = []
        for k in kids:
            if out and k[0] == "s" and out[-1][0] == "s" and k[1] == "plain" and out[-1][1] == "plain":
                out[-1] = ("s", "plain", out[-1][2] + k[2])
            else:
                out.append(k)
        kids = []
        for k in out:
            if k[0] == "s" and k[1] == "plain" and not pw and k[2].strip(" \n\t\x0c\r") == "":
                k = ("s", "plain", "\n" if "\n" in k[2] else " ")
            kids.append(k)
    return ("t", e.name, tuple(sorted((str(k), rendered(v)) for k, v in e.attrs.items())), tuple(kids))


BUILDER_OPTS = ["cdata_list_attributes", "preserve_whitespace_tags", "string_containers", "empty_element_tags",
                "attribute_dict_class", "attribute_value_list_class", "store_line_numbers"]


def pickle_cases(ctx, rng, count):
    for it in range(count):
        cname, kw = L.CONFIGS[it % len(L.CONFIGS)]
        markup = L.random_markup(rng, 12)
        recipe = {"kind": "markup", "config": cname, "markup": markup, "mut_seed": 0, "nmut": 0}
        pickle_one(ctx, recipe)
        if len(ctx.failures) > 40:
            return
    # edited documents: adjacent strings get merged by the re-parse
    for it in range(count // 2):
        cname, kw = L.CONFIGS[it % len(L.CONFIGS)]
        markup = L.random_markup(rng, 10)
        recipe = {"kind": "markup", "config": cname, "markup": markup, "mut_seed": it, "nmut": 2, "raw": False,
                  "edit_seed": rng.randrange(1 << 30), "nedits": rng.randint(1, 5)}
        pickle_one(ctx, recipe, tags=False)
        if it == 0:
            ctx.sample({"pickled_edited_document": recipe})


def pickle_one(ctx, recipe, tags=True):
    with warnings.catch_warnings():
        warnings.simplefilter("ignore")
        roots = L.build_doc(recipe)
        soup = roots[0]
        if any(t.can_be_empty_element and t.contents for t in soup.find_all(True)):
            # children under a void element cannot be written as markup (C05's "representable"); such trees come out of
            # the parser itself for <br> ... <br/> (C04's finding) — not a matter of pickling
            ctx.count("pickle_skipped_not_representable")
            return
        pws = tuple(soup.builder.preserve_whitespace_tags or ())
        for proto in (2, pickle.HIGHEST_PROTOCOL):
            case = {"recipe": recipe, "pickle_protocol": proto}
            ctx.case(("pickle", repr(recipe), proto))
            try:
                u = pickle.loads(pickle.dumps(soup, proto))
            except Exception as e:
                ctx.fail(case, "pickling a document raised %s" % type(e).__name__, repr(e)[:200], None, tag="pickle-raised")
                continue
            if type(u) is not type(soup):
                ctx.fail(case, "unpickled document has another class", type(u).__name__, type(soup).__name__, tag="pickle")
            exp = norm_sig(soup, True, pws)
            got = norm_sig(u, False, pws)
            if got != exp:
                ctx.fail(case, "unpickled document differs from the original by more than the re-parse normalisations",
                         got, exp, tag="pickle-equal")
            # == on the pair is the structural relation; an unedited parsed document without a doctype is == its pickle
            if bool(u == soup) != L.ref_eq(u, soup):
                ctx.fail(case, "== between a document and its unpickled form is not structural", u == soup,
                         L.ref_eq(u, soup), tag="pickle-equal")
            if (recipe["kind"] == "markup" and not recipe.get("nmut") and not recipe.get("nedits")
                    and "<!DOCTYPE" not in recipe["markup"] and not (u == soup)):
                ctx.fail(case, "unpickled document is not == its original (parsed, unedited, no doctype)", None, None,
                         tag="pickle-equal")
            a, b = L.objects_of(soup), L.objects_of(u)
            if a[0] & b[0] or a[1] & b[1] or a[2] & b[2]:
                ctx.fail(case, "unpickled document shares objects with the original", None, None, tag="pickle-shared")
            if type(u.builder) is not type(soup.builder):
                ctx.fail(case, "builder class lost in pickling", None, None, tag="pickle-builder")
            for attr in BUILDER_OPTS:
                if getattr(u.builder, attr, None) != getattr(soup.builder, attr, None):
                    ctx.fail(case, "builder option %s did not survive pickling" % attr, getattr(u.builder, attr, None),
                             getattr(soup.builder, attr, None), tag="pickle-builder")
            if u.element_classes != soup.element_classes:
                ctx.fail(case, "element_classes did not survive pickling", None, None, tag="pickle-builder")
            # pickle = re-parse of the rendering with the same builder settings (C12_pickle_is_reparse_partial, measured)
            if recipe["kind"] == "markup":
                r = L.parse(soup.decode(), dict(L.CONFIGS)[recipe["config"]])
                if L.sig_diff(L.sig(r), L.sig(u)):
                    ctx.disagree("unpickle(pickle(doc)) ~ parse(render(doc)) with the same builder options", case,
                                 L.sig_diff(L.sig(r), L.sig(u)), None)
            # independence
            base = L.sig(soup)
            ut = [t for t in u.find_all(True)]
            if ut:
                ut[0]["zz"] = "1"; ut[0].append("zz"); ut[0].name = "renamed"
                for k, v in ut[0].attrs.items():
                    if isinstance(v, list):
                        v.append("zz")
            if L.sig(soup) != base:
                ctx.fail(case, "editing the unpickled document changed the original", None, None, tag="pickle-independence")
        if not tags:
            return
        for xi, x in enumerate(T.preorder(soup)):
            if isinstance(x, Tag) and x is not soup:
                case = {"recipe": recipe, "element": xi, "pickle": "tag"}
                ctx.case(("pickle-tag", repr(recipe), xi))
                try:
                    p = pickle.loads(pickle.dumps(x))
                except Exception as e:
                    ctx.fail(case, "pickling a tag raised %s" % type(e).__name__, repr(e)[:200], None, tag="pickle-raised")
                    continue
                if not (p == x) or (p != x):
                    ctx.fail(case, "unpickled tag is not equal to the original", None, None, tag="pickle-equal")
                d = L.sig_diff(L.sig(x), L.sig(p))
                if d:
                    ctx.fail(case, "unpickled tag differs: " + d, None, None, tag="pickle-equal")
                a, b = L.objects_of(soup), L.objects_of(p)
                if a[0] & b[0] or a[1] & b[1] or a[2] & b[2]:
                    ctx.fail(case, "unpickled tag shares objects with the original", None, None, tag="pickle-shared")
                base = L.sig(soup)
                p["zz"] = "1"; p.append("zz")
                for k, v in p.attrs.items():
                    if isinstance(v, list):
                        v.append("zz")
                if L.sig(soup) != base:
                    ctx.fail(case, "editing the unpickled tag changed the original", None, None, tag="pickle-independence")


# ------------------------------------------------------------------------------------------------
# multi-step sequences: copy / deepcopy / pickle round trip / edit, each step applied to the RESULT of the step before
# (a document that came out of a pickle or of a copy must behave like any other document afterwards)
# ------------------------------------------------------------------------------------------------
CHAIN_KINDS = ["pickle", "pickle", "pickle-highest", "copy", "deepcopy", "edit", "edit", "attrs"]
CHAIN_PATTERNS = [["pickle", "edit", "pickle"], ["pickle", "attrs", "pickle-highest"], ["pickle", "pickle", "edit", "pickle"],
                  ["copy", "edit", "pickle", "edit", "pickle"], ["pickle", "copy", "edit", "pickle"],
                  ["pickle", "edit", "copy", "pickle"], ["deepcopy", "attrs", "deepcopy", "edit", "copy"],
                  ["pickle", "edit", "deepcopy", "edit", "pickle-highest", "edit", "pickle"]]


def representable_doc(soup):
    return not any(t.can_be_empty_element and t.contents for t in soup.find_all(True))


def chain_one(ctx, recipe):
    """recipe: {"kind": "chain", "config", "markup", "steps": [[kind, seed], ...]}. Every copy / pickle step is checked
    against the document it was applied to, as that document is at that moment."""
    with warnings.catch_warnings():
        warnings.simplefilter("ignore")
        kw = dict(L.CONFIGS)[recipe["config"]]
        doc = L.parse(recipe["markup"], kw)
        history = []
        for si, (kind, seed) in enumerate(recipe["steps"]):
            case = {"recipe": recipe, "step": si, "step_kind": kind, "steps_so_far": history + [kind]}
            ctx.case(("chain", repr(recipe), si), nontrivial=(si > 0))
            if kind == "edit":
                L.safe_edits(random.Random(seed), doc, 1 + seed % 3)
            elif kind == "attrs":
                L.mutate_attrs(random.Random(seed), doc, 2, raw=False)
            elif kind in ("copy", "deepcopy"):
                try:
                    c = (copy.copy if kind == "copy" else copy.deepcopy)(doc)
                except Exception as e:
                    ctx.fail(case, "%s of a document raised %s" % (kind, type(e).__name__), repr(e)[:200], None, tag="chain-copy")
                    return
                d = L.sig_diff(L.sig(doc), L.sig(c))
                if d:
                    ctx.fail(case, "after these steps the copy differs from the document it was made from: " + d, None, None,
                             tag="chain-copy")
                if not (c == doc) or (c != doc) or hash(c) != hash(doc) or c.decode() != doc.decode():
                    ctx.fail(case, "after these steps the copy does not equal / hash / render like the document it was made from",
                             c.decode(), doc.decode(), tag="chain-copy")
                for b in L.detached_problems(c):
                    ctx.fail(case, "copy is attached / inconsistent: " + b, None, None, tag="chain-copy")
                a, b = L.objects_of(doc), L.objects_of(c)
                if a[0] & b[0] or a[1] & b[1] or a[2] & b[2]:
                    ctx.fail(case, "copy shares objects with the document it was made from", None, None, tag="chain-copy")
                doc = c
            else:
                if not representable_doc(doc):
                    ctx.count("chain_stopped_not_representable")
                    return
                proto = pickle.HIGHEST_PROTOCOL if kind == "pickle-highest" else 2
                pws = tuple(doc.builder.preserve_whitespace_tags or ())
                try:
                    u = pickle.loads(pickle.dumps(doc, proto))
                except Exception as e:
                    ctx.fail(case, "pickling a document raised %s" % type(e).__name__, repr(e)[:200], None, tag="chain-pickle")
                    return
                exp = norm_sig(doc, True, pws, loose=True)
                got = norm_sig(u, False, pws, loose=True)
                if got != exp:
                    ctx.fail(case, "after these steps the unpickled document differs from the document that was pickled by more "
                                   "than the re-parse normalisations", {"unpickled": u.decode(), "tree": got},
                             {"pickled": doc.decode(), "tree": exp}, tag="chain-pickle")
                if bool(u == doc) != L.ref_eq(u, doc):
                    ctx.fail(case, "== between a document and its unpickled form is not structural", u == doc, L.ref_eq(u, doc),
                             tag="chain-pickle")
                a, b = L.objects_of(doc), L.objects_of(u)
                if a[0] & b[0] or a[1] & b[1] or a[2] & b[2]:
                    ctx.fail(case, "unpickled document shares objects with the pickled one", None, None, tag="chain-pickle")
                for attr in BUILDER_OPTS:
                    if getattr(u.builder, attr, None) != getattr(doc.builder, attr, None):
                        ctx.fail(case, "builder option %s did not survive pickling" % attr, None, None, tag="chain-pickle")
                # a second dump of the same, unedited object gives the same document again
                u2 = pickle.loads(pickle.dumps(doc, proto))
                if norm_sig(u2, False, pws, loose=True) != got:
                    ctx.fail(case, "pickling the same document twice gives two different documents", None, None, tag="chain-pickle")
                doc = u
            history.append(kind)
            if len(ctx.failures) > 40:
                return
        # the end of the chain is a document like any other: an element of it copies correctly
        tags = doc.find_all(True)
        if tags:
            x = tags[len(tags) // 2]
            c = copy.copy(x)
            d = L.sig_diff(L.sig(x), L.sig(c))
            if d or not (c == x) or c.decode() != x.decode():
                ctx.fail({"recipe": recipe, "step": len(recipe["steps"]), "step_kind": "copy of an element of the final document"},
                         "element of a document at the end of a copy/pickle/edit chain does not copy correctly: %s" % d,
                         c.decode(), x.decode(), tag="chain-copy")


def chain_cases(ctx, rng, count):
    for it in range(count):
        cname, kw = L.CONFIGS[it % len(L.CONFIGS)]
        markup = L.random_markup(rng, 10)
        if it < len(CHAIN_PATTERNS) * 2:
            kinds = CHAIN_PATTERNS[it % len(CHAIN_PATTERNS)]
        else:
            kinds = [rng.choice(CHAIN_KINDS) for _ in range(rng.randint(3, 7))]
        recipe = {"kind": "chain", "config": cname, "markup": markup,
                  "steps": [[k, rng.randrange(1 << 30)] for k in kinds]}
        chain_one(ctx, recipe)
        if it == 0:
            ctx.sample({"copy_pickle_edit_chain": recipe})
        if len(ctx.failures) > 40:
            return


# ------------------------------------------------------------------------------------------------
# corpus: witnesses of the two defects repaired for this property (a regression is reported)
# ------------------------------------------------------------------------------------------------
def corpus(ctx):
    with warnings.catch_warnings():
        warnings.simplefilter("ignore")
        for val in (None, True, False, 0, 7, -3, 1.5):
            soup = BeautifulSoup('<a class="x y" href="h">t</a>', "html.parser")
            a = soup.a
            a["disabled"] = val
            c = copy.copy(a)
            case = {"corpus": "C12-copy-raw-attribute-values", "markup": '<a class="x y" href="h">t</a>',
                    "assignment": "a['disabled'] = %r" % (val,)}
            ctx.case(("corpus-raw", repr(val)))
            if list(c.attrs.items()) != list(a.attrs.items()) or type(c["disabled"]) is not type(a["disabled"]) \
                    or not (c == a) or c.decode() != a.decode() or hash(c) != hash(a):
                ctx.fail(case, "copy of a tag whose attribute was assigned %r does not have the same attributes" % (val,),
                         dict(c.attrs), dict(a.attrs), tag="corpus-raw-values")
            sc = copy.copy(soup)
            if not (sc == soup) or sc.decode() != soup.decode():
                ctx.fail(case, "copy of the whole document differs after the assignment", sc.decode(), soup.decode(),
                         tag="corpus-raw-values")
        soup = BeautifulSoup('<a class="x y" id="i">t</a>', "html.parser", attribute_value_list_class=L.MyList)
        c = copy.copy(soup.a)
        ctx.case(("corpus-listclass",))
        if type(c.get_attribute_list("id")) is not L.MyList or c.attribute_value_list_class is not L.MyList \
                or type(c["class"]) is not L.MyList:
            ctx.fail({"corpus": "C12-copy-list-class", "markup": '<a class="x y" id="i">t</a>',
                      "attribute_value_list_class": "MyList"},
                     "copy forgot the builder's attribute_value_list_class", type(c.get_attribute_list("id")).__name__,
                     "MyList", tag="corpus-list-class")


# ------------------------------------------------------------------------------------------------
def run(ctx):
    rng = ctx.rng
    corpus(ctx)
    # (a) exhaustive small documents
    maxn = 4 if ctx.thorough else 3
    docs = small_event_docs(maxn)
    for evs in docs:
        recipe = {"kind": "events", "events": evs, "ops": [], "mut_seed": 0, "nmut": 0}
        check_document(ctx, recipe, deep_edits=(len(evs) <= (12 if ctx.thorough else 8)), rng=rng, medits=1)
        if len(ctx.failures) > 40:
            return
    ctx.extra_cov["exhaustive"] = True
    ctx.extra_cov["exhaustive_scope"] = ("%d event-built documents (every forest shape with <=%d elements x leaf kinds) x every "
                                         "element x {copy, deepcopy}" % (len(docs), maxn))
    ctx.sample({"small_document_events": docs[min(40, len(docs) - 1)]})
    # (b) parsed documents under the builder configurations, with attribute assignments
    nb = 900 if ctx.thorough else 90
    for it in range(nb):
        cname, kw = L.CONFIGS[it % len(L.CONFIGS)]
        markup = L.random_markup(rng, 24 if ctx.thorough else 14)
        recipe = {"kind": "markup", "config": cname, "markup": markup, "mut_seed": rng.randrange(1 << 30),
                  "nmut": rng.choice([0, 0, 2, 4]), "raw": it % 3 != 0,
                  "void_kids": rng.randrange(1, 1 << 30) if it % 4 == 1 else 0,
                  "empties": rng.randrange(1, 1 << 30) if it % 3 == 1 else 0,
                  "nset": rng.randrange(1, 1 << 30) if it % 3 == 2 else 0}
        check_document(ctx, recipe, deep_edits=(it % (6 if not ctx.thorough else 4) == 0 and len(markup) < 400),
                       rng=rng, medits=3)
        if it < 2:
            ctx.sample({"parsed_document": recipe})
        if len(ctx.failures) > 40:
            return
    # (c) edit histories
    nh = 500 if ctx.thorough else 50
    for it in range(nh):
        evs = G.random_doc(rng, 12)
        if rng.random() < 0.3:
            evs = G.relabel(evs)
        ops, _ = R.gen_history(rng, evs, T.HTML_CFG, rng.randint(2, 12))
        recipe = {"kind": "events", "events": evs, "ops": ops, "mut_seed": rng.randrange(1 << 30),
                  "nmut": rng.choice([0, 2, 3]), "raw": True, "nset": rng.randrange(1, 1 << 30) if it % 2 else 0,
                  "empties": rng.randrange(1, 1 << 30) if it % 4 == 2 else 0}
        check_document(ctx, recipe, deep_edits=(it % 5 == 0), rng=rng, medits=2)
        if it < 1:
            ctx.sample({"edited_document": recipe})
        if len(ctx.failures) > 40:
            return
    equality_pools(ctx, rng)
    pickle_cases(ctx, rng, 240 if ctx.thorough else 45)
    chain_cases(ctx, rng, 600 if ctx.thorough else 60)


# ------------------------------------------------------------------------------------------------
def replay(ctx, data):
    f = data.get("failure") or {}
    case = f.get("case") or ((data.get("disagreements") or [{}])[0].get("case"))
    if not case:
        print("nothing to replay")
        return 1
    import common
    c = common.Ctx(ctx.prop, "quick", 0)
    c.build = type("B", (), {"model_ok": common.Model().available()})()
    with warnings.catch_warnings():
        warnings.simplefilter("ignore")
        if "corpus" in case:
            corpus(c)
        elif case.get("recipe", {}).get("kind") == "chain":
            chain_one(c, case["recipe"])
        elif "pickle_protocol" in case or case.get("pickle") == "tag":
            pickle_one(c, case["recipe"])
        elif case.get("recipe", {}).get("kind") == "pool":
            equality_pools(c, random.Random(0))
        else:
            recipe = case["recipe"]
            roots = L.build_doc(recipe)
            els = all_elements(roots)
            xi = case.get("element", 0)
            oracle_copy(c, recipe, roots, xi, els[xi], deep_edits=True)
            model_copy_cases(c, recipe, L.build_doc(recipe))
    print("case:", case)
    for x in c.failures[:5]:
        print("FAIL:", x["what"], "| observed:", x["observed"], "| expected:", x["expected"])
    for x in c.disagreements[:5]:
        print("DISAGREE:", x["correspondence"], x["impl"], x["model"])
    return 1 if (c.failures or c.disagreements) else 0
