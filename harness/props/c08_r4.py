"""C08, round 4: the self-describing clause on two families of trees the main generator did not reach.

(A) renderings that START WITH TEXT (a document whose first node is a string; encode_contents() of an element whose
    first child is a string) in the codecs that write a byte-order mark, with the first code point chosen from
    classes of code-unit shapes: low byte zero (U+0100, U+0400, U+3000, U+4E00 ... every U+xx00), high byte zero
    (ASCII, Latin-1), both bytes non-zero, astral (surrogate pair). Re-parsing the bytes must recognise the mark.
(B) documents whose <meta> declaration lands at a CONTROLLED BYTE OFFSET of the output: its end just below / at /
    just above 1024 and 2048, in between, and around the 5 % mark of longer documents; the material in front of it
    is a <title> (ASCII, or characters the target cannot represent -> numeric references), a comment, or other head
    elements; both declaration styles; ASCII-compatible single- and multi-byte targets. A declaration that ends
    inside the documented search window (the first max(2048 bytes, 5 % of the document)) must be auto-detected;
    one that starts beyond it is outside the clause (counted, not demanded).

All cases are ordinary C08 document cases (description + path + entry point + encoding), so `--replay` re-runs them
through c08.replay. Called from c08.run via `c08_r4.extra(ctx)`.
"""
import re
import warnings

from bs4 import BeautifulSoup

from props import c08
from props.c08 import (E, T, build_doc, call, cinfo, drop_decl, find_path, make_soup, merge_text, name_equiv, parse_str,
                       texts_and_attrs, write_markup)

BOM_CODECS = ["utf-16", "utf-32", "utf-8-sig", "UTF-16"]
WINDOW_MIN = 2048          # documented search window of the declaration sniffing: max(2048 bytes, 5 % of the document)
WINDOW_FRACTION = 0.05


def _doc(kids):
    return ("e", "[document]", None, [], kids, True)


def _reparse(data):
    with warnings.catch_warnings():
        warnings.simplefilter("ignore")
        return BeautifulSoup(data, "html.parser")


def _obs(soup):
    return drop_decl(merge_text(texts_and_attrs(soup)))


# ------------------------------------------------------------------------------------------------ (A)
def first_code_points(ctx):
    rng = ctx.rng
    low_zero = [cp for cp in range(0x100, 0x10000, 0x100) if not (0xD800 <= cp <= 0xDFFF) and cp != 0xFF00]
    if not ctx.thorough:
        low_zero = [0x100, 0x400, 0x3000, 0x4E00, 0xAC00, 0xE000] + rng.sample(low_zero, 24)
    high_zero = [0x41, 0x7A, 0x26, 0xE9, 0xFF, 0xAC]
    other = [0x101, 0x20AC, 0x4E01, 0xFFFD, 0x3042]
    astral = [0x10000, 0x1F600, 0x20000, 0x10FF00, 0xE0100]
    out = []
    for cls, cps in (("low-byte-zero", low_zero), ("high-byte-zero", high_zero), ("both-non-zero", other), ("astral", astral)):
        for cp in cps:
            out.append((cls, cp))
    return out


def leading_text(ctx):
    rng = ctx.rng
    tails = ["x", " é", "日本", ""]
    for cls, cp in first_code_points(ctx):
        text = chr(cp) + rng.choice(tails)
        shapes = [
            # a document that starts with a string
            ("document", _doc([T(text), E("p", [("title", "é")], [T("Жук")])]), [], "encode"),
            ("document", _doc([T(text), E("p", [], [T("x")])]), [], "prettify"),
            # the contents of an element whose first child is a string
            ("contents", _doc([E("div", [], [T(text), E("b", [], [T("中")])])]), [0], "encode_contents"),
        ]
        for shape, d, path, ep in shapes:
            for enc in BOM_CODECS:
                info = cinfo(enc)
                if not info["bom"]:
                    continue
                route = "built"
                soup = build_doc(d)
                el = find_path(soup, path)
                if ep == "encode":
                    r = call(el.encode, enc)
                elif ep == "prettify":
                    r = call(el.prettify, enc, "minimal")
                else:
                    r = call(el.encode_contents, None, enc, "minimal")
                case = {"route": route, "markup": None, "doc": d, "path": path, "entry": ep, "encoding": enc,
                        "indent_level": None, "formatter": "minimal", "errors": None, "flavour": "html",
                        "family": "rendering starts with text", "first_code_point": cp, "first_code_point_class": cls}
                ctx.case(("r4-lead", cp, shape, ep, enc))
                ctx.count("r4_leading_text_cases")
                if r[0] != "ok":
                    ctx.fail(case, "rendering to bytes raised", r[1], "bytes", tag="encode-raised")
                    continue
                data = r[1]
                try:
                    decoded = data.decode(enc)
                except Exception as ex:          # noqa: BLE001
                    ctx.fail(case, "bytes do not decode in the target encoding", type(ex).__name__, "text", tag="undecodable")
                    continue
                again = _reparse(data)
                if not name_equiv(enc, again.original_encoding):
                    ctx.fail(case, "re-parsing bytes that start with a byte-order mark and then text does not auto-detect the encoding",
                             again.original_encoding, enc, tag="autodetect-bom")
                elif _obs(again) != _obs(parse_str(decoded)):
                    ctx.fail(case, "auto-detected re-parse of BOM-marked bytes reads different text",
                             _obs(again)[:3], _obs(parse_str(decoded))[:3], tag="autodetect-text")


# ------------------------------------------------------------------------------------------------ (B)
TARGETS = [("koi8-r", "Привет, мир"), ("cp1251", "Привет"), ("latin-1", "café déjà vu"), ("shift_jis", "こんにちは世界"),
           ("iso-8859-7", "Καλημέρα"), ("big5", "你好世界"), ("euc_kr", "안녕")]
META_STYLES = [
    ("charset", lambda decl: E("meta", [("charset", decl)], [])),
    ("content", lambda decl: E("meta", [("http-equiv", "Content-Type"), ("content", "text/html; charset=%s" % decl)], [])),
]
CJK = "見出し文字列試験用漢字"


def filler_kids(kind, n):
    """head material of about n output bytes in front of the declaration (n counted by the caller after rendering)"""
    if kind == "title-ascii":
        return [E("title", [], [T(("lorem ipsum " * (n // 12 + 1))[:max(n, 1)])])]
    if kind == "title-references":      # characters the 8-bit targets cannot represent: 8 bytes each in the output
        k = max(n // 8, 1)
        return [E("title", [], [T((CJK * (k // len(CJK) + 1))[:k])])]
    if kind == "comment":
        return [("t", 4, ("x" * max(n, 1)))]
    k = max(n // 40, 1)                 # other head elements
    return [E("link", [("rel", "stylesheet"), ("href", "s%04d.css" % i)], []) for i in range(k)]


def locate_declaration(data, enc):
    """(start of the <meta tag, end of the declaration incl. the character after the encoding name) in the bytes"""
    m = re.search(rb"charset\s*=\s*[\"']?" + re.escape(enc.encode("ascii")) + rb"[\"' ;/>]", data)
    if not m:
        return None
    start = data.rfind(b"<meta", 0, m.start())
    return (start, m.end())


def build_offset_doc(style_fn, fill_kind, n, body_text, pad_body):
    head = filler_kids(fill_kind, n) + [style_fn("x-sjis")]
    body = [E("p", [], [T(body_text)])]
    if pad_body:
        body.append(E("pre", [], [T("z" * pad_body)]))
    return _doc([E("html", [], [E("head", [], head), E("body", [], body)])])


def declaration_offsets(ctx):
    rng = ctx.rng
    # wanted END offsets of the declaration (bytes); >= 2100 in a short document is beyond the window
    short_targets = [300, 1000, 1023, 1024, 1025, 1100, 1536, 2000, 2040, 2047, 2048, 2049, 2300]
    fills = ["title-ascii", "title-references", "comment", "head-elements"]
    plan = []
    for tgt in short_targets:
        for fill in (fills if ctx.thorough else rng.sample(fills, 2)):
            plan.append((tgt, fill, 0))
    # longer documents: the 5 % mark is the window (document of ~60-100 kB -> window 3000-5000 bytes)
    for total in (60000, 100000):
        w = int(total * WINDOW_FRACTION)
        for tgt in (w - 400, w - 20, w + 600):
            plan.append((tgt, rng.choice(fills), total))
    for tgt, fill, total in plan:
        enc, body_text = rng.choice(TARGETS)
        sname, style_fn = rng.choice(META_STYLES)
        route = rng.choice(["built", "parsed"])
        ep = rng.choice(["encode", "encode", "prettify", "encode_contents"])
        # size the filler so that the declaration ends near the wanted offset: render once, measure, correct
        n = max(tgt - 80, 1)
        d = None
        for _ in range(4):
            d = build_offset_doc(style_fn, fill, n, body_text, max(total - tgt, 0))
            r = render(d, route, ep, enc)
            loc = locate_declaration(r[1], enc) if r[0] == "ok" else None
            if not loc:
                break
            delta = tgt - loc[1]
            if abs(delta) <= (1 if fill in ("title-ascii", "comment") else 45):
                break
            n = max(n + delta, 1)
        if d is None:
            continue
        check_offset_case(ctx, d, route, ep, enc, sname, fill, tgt)


def render(d, route, ep, enc):
    soup = make_soup(write_markup(d)) if route == "parsed" else build_doc(d)
    if ep == "encode":
        return call(soup.encode, enc)
    if ep == "prettify":
        return call(soup.prettify, enc, "minimal")
    return call(soup.encode_contents, None, enc, "minimal")


def check_offset_case(ctx, d, route, ep, enc, sname, fill, tgt):
    r = render(d, route, ep, enc)
    case = {"route": route, "markup": write_markup(d) if route == "parsed" else None, "doc": d, "path": [], "entry": ep,
            "encoding": enc, "indent_level": None, "formatter": "minimal", "errors": None, "flavour": "html",
            "family": "declaration at a controlled byte offset", "meta_style": sname, "in_front": fill,
            "wanted_end_offset": tgt}
    ctx.case(("r4-offset", tgt, fill, sname, enc, ep, route))
    ctx.count("r4_offset_cases")
    if r[0] != "ok":
        ctx.fail(case, "rendering to bytes raised", r[1], "bytes", tag="encode-raised")
        return
    data = r[1]
    try:
        decoded = data.decode(enc)
    except Exception as ex:          # noqa: BLE001
        ctx.fail(case, "bytes do not decode in the target encoding", type(ex).__name__, "text", tag="undecodable")
        return
    loc = locate_declaration(data, enc)
    if loc is None:
        ctx.fail(case, "<meta> declaration does not name the encoding actually used", None, enc, tag="meta-charset")
        return
    start, end = loc
    window = max(WINDOW_MIN, int(len(data) * WINDOW_FRACTION))
    case.update({"declaration_bytes": [start, end], "output_bytes": len(data), "search_window": window})
    if end <= window:
        again = _reparse(data)
        ctx.count("r4_offset_inside_window")
        if not name_equiv(enc, again.original_encoding):
            ctx.fail(case, "the rewritten declaration lies inside the first max(2048 bytes, 5 %) of the output but re-parsing "
                           "the bytes does not auto-detect the encoding", again.original_encoding, enc, tag="autodetect-window")
        elif _obs(again) != _obs(parse_str(decoded)):
            ctx.fail(case, "auto-detected re-parse reads different text", _obs(again)[:3], _obs(parse_str(decoded))[:3],
                     tag="autodetect-text")
    elif start >= window:
        ctx.count("r4_offset_beyond_window")      # outside the clause: nothing demanded
    else:
        ctx.count("r4_offset_straddles_window")   # the declaration crosses the boundary: nothing demanded


def extra(ctx):
    import time
    for fn in (leading_text, declaration_offsets):
        t0 = time.time()
        fn(ctx)
        ctx.counts["wall_s_r4_" + fn.__name__] = round(time.time() - t0, 1)
