"""C09 — entity substitution and attribute quoting are reversible for every string.

Correspondence with coq/Model/EntitySubst.v (substitutions, quoting, Formatter.substitute / attribute_value, the
attribute text of Tag.decode; html.unescape, the quoted-value reader and the text reader against the real parser).
Direct oracle (independent of the model): no raw angle bracket, every '&' starts a well-formed reference with a name
of html.entities.html5, html.unescape gives the original back, and the real parser (BeautifulSoup + html.parser)
reads the original back from element text and from a quoted attribute value; the quoted value is well-formed.
"""
import copy, html, html.entities, html.parser, itertools, json, os, re

from bs4 import BeautifulSoup
from bs4.dammit import EntitySubstitution as ES
from bs4.element import NavigableString
from bs4.formatter import HTMLFormatter, XMLFormatter

import common

RULE = ("strings: (a) every BMP code point as a one-character string (plus all of U+1D400-1D7FF, thorough: every 5th "
        "astral code point) through the implementation and the direct oracle (model correspondence in the quick tier: "
        "all below U+3000, every code point of an entity sequence and its neighbours, every 7th of the rest); (b) every character sequence of html.entities.html5, alone, doubled, embedded, its first "
        "character alone and before each look-ahead character; (c) every '&'+name of html.entities.html5 with and "
        "without ';' before each of five (quick: three) followers; (d) all strings of <=4 (thorough <=5) tokens over the 12 markup "
        "tokens & < > \" ' ; # x 1 amp U+2267 U+0338; (e) seeded random strings of 0-14 tokens over markup characters, "
        "entity sequences, names, numeric references, controls, astral and (malformed stream) arbitrary code points "
        "incl. lone surrogates; (f) the corpus. Each string goes through substitute_xml (plain and quoted), "
        "substitute_html, substitute_html5, quoted_attribute_value; a slice through Formatter.substitute / "
        "attribute_value of every registered name and through Tag.decode; a sample through every string class an HTML "
        "builder creates (NavigableString, Script, Stylesheet, TemplateString, RubyTextString, RubyParenthesisString) x "
        "seven histories (in place, moved, copied, parent renamed, moved into <script>, parent copied and renamed) x every "
        "registered formatter: the string is substituted according to where it IS; user-built formatter objects (Formatter "
        "with language HTML / XML / none, HTMLFormatter, XMLFormatter) x entity_substitution in {xml, html, html5, None} x "
        "cdata_containing_tags in {not given, None, set(), frozenset(), [], (), non-empty sets/lists} x twelve kinds of value "
        "(str; NavigableString / Script / Stylesheet without parent; copied; extracted; with parent p/script/style/pre/em) "
        "through substitute, attribute_value, output_ready and as a tag's attribute value. Non-trivial: the string contains a "
        "character some substitution or the quoting rewrites. Distinct by string.")
ASSUMPTIONS = [
    "element text is read back by the stdlib html.parser tokenizer + bs4's handle_entityref/handle_charref: modelled by "
    "Base/Reader.v (idealised) and by Model/TextReaderReal.v (real: the tokenizer gives up at '&#' + non-reference, pass 1 / "
    "pass 2, rest of the document swallowed); both compared with the real parser on every output, the real one without exception",
    "attribute values are read back by html.unescape: modelled in Model/EntitySubst.v from Lib/html/__init__.py, tables "
    "html.entities.html5 / _invalid_charrefs / _invalid_codepoints and sys.get_int_max_str_digits() generated from the "
    "interpreter; int()'s digit limit (ValueError -> ParserRejectedMarkup) is modelled in Model/UnescapeLimit.v",
    "re's \\w and \\d classes on str are generated from the interpreter (oracle ranges in Gen/T_C09.v)",
    "regular-expression substitution is modelled by hand-written scanners tied by correspondence; PYTHONHASHSEED=0 "
    "fixes the alternation order the translator reads (proved irrelevant: C09_alternation_order_irrelevant)",
    "the real text reader is compared in documents '<pre>TEXT</pre>' parsed on their own (first pass, nothing after the "
    "closing tag); other contexts (pass 2, a ';' later in the document) are covered by the model's parameters and a "
    "seeded sample with a tail",
]

H5 = html.entities.html5
SEQS = sorted(set(H5.values()))
NAMES = sorted(H5)                                   # with and without ';' as the table has them
TOKENS12 = ["&", "<", ">", '"', "'", ";", "#", "x", "1", "amp", "≧", "̸"]
FOLLOW = ["", " ", "=", "x", ";"]
WELLFORMED = re.compile(r"(?:[^&<>]|&([A-Za-z][A-Za-z0-9]*);)*\Z")
REF = re.compile(r"&([A-Za-z][A-Za-z0-9]*);")
ANYFORM = re.compile(r"&(?:#\d+|#x[0-9a-fA-F]+|\w+);", re.I)     # the forms the html5 formatter documents it escapes
NEUTRAL = ""


def py_unescape(t):
    """html.unescape; its one failure (int()'s digit limit on a decimal reference) as a value."""
    try:
        return html.unescape(t)
    except ValueError:
        return "EXC:ValueError"


def exc(f, *a):
    try:
        return f(*a)
    except Exception as e:             # the substitutions never raise on the unchanged tree
        return "EXC:" + type(e).__name__


# ------------------------------------------------------------------------------------------ readers (real parser)
def _text_of(pre):
    if all(type(k) is NavigableString for k in pre.contents):
        return "".join(pre.contents)
    return "TAGS:" + pre.decode_contents(formatter=None)


def read_text_one(o):
    try:
        soup = BeautifulSoup("<pre>" + o + "</pre>", "html.parser")
        pres = soup.find_all("pre", recursive=False)
        if len(pres) != 1 or len(soup.contents) != 1:
            return "DOC:" + soup.decode(formatter=None)
        return _text_of(pres[0])
    except Exception as e:
        return "EXC:" + type(e).__name__


def read_attr_one(q):
    try:
        soup = BeautifulSoup("<p t=" + q + "></p>", "html.parser")
        ps = soup.find_all("p", recursive=False)
        if len(ps) != 1 or len(soup.contents) != 1 or list(ps[0].attrs) != ["t"] or ps[0].contents:
            return "DOC:" + soup.decode(formatter=None)
        return ps[0]["t"]
    except Exception as e:
        return "EXC:" + type(e).__name__


def read_batch(items, one, wrap, tag):
    """Parse many independent elements in one document. If the document does not come back as exactly one intact
    element per item (an output broke the markup), every element of that batch is parsed on its own, so one bad
    output cannot blur its neighbours."""
    out = [None] * len(items)
    alone = [i for i, x in enumerate(items) if tag == "pre" and parser_gives_up(x)]
    for i in alone:
        out[i] = one(items[i])
    rest = [i for i in range(len(items)) if out[i] is None]
    B = 400
    for k in range(0, len(rest), B):
        idx = rest[k:k + B]
        part = [items[i] for i in idx]
        res = None
        try:
            soup = BeautifulSoup("".join(wrap(x) for x in part), "html.parser")
            els = soup.find_all(tag, recursive=False)
            if len(els) == len(part) and len(soup.contents) == len(part):
                if tag == "pre":
                    res = [_text_of(e) for e in els]
                    if any(r.startswith("TAGS:") for r in res):
                        res = None
                elif all(list(e.attrs) == ["t"] and not e.contents for e in els):
                    res = [e["t"] for e in els]
        except Exception:
            res = None
        if res is None:
            res = [one(x) for x in part]
        for i, r in zip(idx, res):
            out[i] = r
    return out


_TEXT_CACHE, _ATTR_CACHE = {}, {}


def _cached(cache, items, reader):
    """What the parser reads depends on the written text alone: each distinct text is parsed once per run."""
    todo = [x for x in dict.fromkeys(items) if x not in cache]
    if todo:
        for x, r in zip(todo, reader(todo)):
            cache[x] = r
    return [cache[x] for x in items]


def read_text_many(outs):
    return _cached(_TEXT_CACHE, outs,
                   lambda xs: read_batch(xs, read_text_one, lambda o: "<pre>" + o + "</pre>", "pre"))


def read_attr_many(qs):
    return _cached(_ATTR_CACHE, qs,
                   lambda xs: read_batch(xs, read_attr_one, lambda q: "<p t=" + q + "></p>", "p"))


def parser_gives_up(text):
    """html.parser stops tokenising at '&#' that does not begin a numeric reference (it waits for more input and
    finally hands the rest of the document over as text). Base/Reader.v is idealised there."""
    i = text.find("&#")
    while i >= 0:
        if not html.parser.charref.match(text + "<", i):
            return True
        i = text.find("&#", i + 1)
    return False


# ------------------------------------------------------------------------------------------ html5: the finding class
def bare_positions(s):
    """Ampersands the html5 formatter leaves alone although a letter or '#' follows (independent restatement of
    'only "&...;" forms are escaped')."""
    pos, i = [], s.find("&")
    while i >= 0:
        m = ANYFORM.match(s, i)
        if m:
            i = s.find("&", m.end())
            continue
        nxt = s[i + 1:i + 2]
        if nxt == "#" or (nxt != "" and nxt.isascii() and nxt.isalpha()):
            pos.append(i)
        i = s.find("&", i + 1)
    return pos


def neutralise(s):
    ps = set(bare_positions(s))
    return "".join(NEUTRAL if i in ps else c for i, c in enumerate(s))


def m_html5_bare_ref(f):
    c = f.get("case") or {}
    return (f.get("tag") == "html5-bare-ref" and c.get("formatter") == "html5"
            and isinstance(c.get("s"), str) and bool(bare_positions(c["s"])))


KNOWN_MATCHERS = {"html5_bare_ref": m_html5_bare_ref}


# ------------------------------------------------------------------------------------------ case generation
def interesting(s):
    return any(c in "&<>\"'" or ord(c) > 127 for c in s)


def family_singles(ctx):
    cps = list(range(0x10000)) + list(range(0x1D400, 0x1D800))
    if ctx.thorough:
        cps += list(range(0x10000, 0x110000, 5))
    return [chr(c) for c in sorted(set(cps))]


def family_sequences(ctx):
    from bs4.dammit import EntitySubstitution
    out = []
    heads = {}
    for q in SEQS:
        if len(q) > 1:
            heads.setdefault(q[0], set()).add(q[1])
    for q in SEQS:
        out += [q, q + q, "a" + q + "b", q + ";", "&" + q]
        if len(q) > 1:
            out += [q[0], q[0] + "z", q[1] + q[0], q + q[1]]
    for h, followers in heads.items():
        for d in followers:
            for e in followers:
                out.append(h + d + e)
    return out


def family_names(ctx):
    out = []
    for n in NAMES:
        base = n[:-1] if n.endswith(";") else n
        for f in (FOLLOW if ctx.thorough else FOLLOW[:2] + FOLLOW[4:]):
            out.append("&" + base + f)
        out.append("&" + base + ";" + "x")
        out.append("&amp;" + base + ";")
    return sorted(set(out))


def family_small(ctx):
    L = 5 if ctx.thorough else 4
    return ["".join(c) for n in range(L + 1) for c in itertools.product(TOKENS12, repeat=n)]


POOL = (["&", "&", "&", "<", ">", '"', "'", ";", "#", "x", "X", "=", "-", ".", "_", " ", "\n", "\t", "\r", "\x0c", "\x00",
         "a", "Z", "0", "9", "f", "g", "amp", "lt", "gt", "quot", "apos", "nbsp", "not", "notit", "alpha", "AMP",
         "&amp", "&lt", "&amp;", "&lt;", "&gt;", "&quot;", "&#", "&#x", "&#38", "&#38;", "&#x26;", "&#X26", "&#0;",
         "&#128;", "&#xD800;", "&#1114112;", "&#12a", "&nosuch;", "&a-b;", "&a.b", "CounterClockwiseContourIntegral",
         "\xe9", "\xa0", "≧", "̸", "≧̸", "<⃒", ">⃒", "=⃥", "⃒", "⃥",
         "  ", " ", "⊔︀", "︀", "〈", "〉", "⟨", "\U0001d504", "\U0001f600",
         "٣", "²", "fj", "|", "]]>", "<!--", "</p>", "'\"'", "\"'\""])


def family_random(ctx):
    rng = ctx.rng
    n = 6000 if ctx.thorough else 1500
    out = []
    for k in range(n):
        toks = []
        for _ in range(rng.randint(0, 14)):
            r = rng.random()
            if r < 0.72:
                toks.append(rng.choice(POOL))
            elif r < 0.82:
                toks.append(rng.choice(SEQS))
            elif r < 0.90:
                nm = rng.choice(NAMES)
                toks.append("&" + (nm if rng.random() < 0.5 else nm.rstrip(";")))
            else:
                toks.append(chr(rng.choice([rng.randrange(0x20, 0x7f), rng.randrange(0x80, 0x3000),
                                            rng.randrange(0x2190, 0x2c00), rng.randrange(0x10000, 0x110000)])))
        out.append("".join(toks))
    # malformed stream: arbitrary code points, lone surrogates included
    for k in range(n // 5):
        out.append("".join(chr(rng.choice([rng.randrange(0, 0x110000), rng.randrange(0xd800, 0xe000),
                                           rng.randrange(0, 0x100), 38, 59, 35]))
                           for _ in range(rng.randint(1, 10))))
    return out


def family_corpus(ctx):
    out = []
    d = os.path.join(common.VERIF, "corpus", "C09")
    if os.path.isdir(d):
        for fn in sorted(os.listdir(d)):
            if fn.endswith(".json"):
                for x in json.load(open(os.path.join(d, fn))).get("strings", []):
                    out.append(x)
    return out


# ------------------------------------------------------------------------------------------ one family
FMT = ("minimal", "html", "html5")


def impl_all(s):
    return {"minimal": exc(ES.substitute_xml, s), "minimal_q": exc(ES.substitute_xml, s, True),
            "html": exc(ES.substitute_html, s), "html5": exc(ES.substitute_html5, s),
            "quote": exc(ES.quoted_attribute_value, s)}


def ts(l):
    return "".join(map(chr, l))


def oracle_static(ctx, s, fmt, o, kind):
    """Checks that need no parser."""
    case = {"s": s, "formatter": fmt, "family": kind}
    if not isinstance(o, str) or o.startswith("EXC:"):
        ctx.fail(case, "the substitution raised", o, "a string", tag="raised")
        return False
    ok = True
    if "<" in o or ">" in o:
        ctx.fail(case, "raw angle bracket in the output", o, None, tag="raw-angle")
        ok = False
    if fmt != "html5":
        m = WELLFORMED.match(o)
        if not m or any((n + ";") not in H5 for n in REF.findall(o)):
            ctx.fail(case, "an ampersand in the output does not start a well-formed known reference", o, None, tag="amp")
            ok = False
        if py_unescape(o) != s:
            ctx.fail(case, "html.unescape of the output is not the original", py_unescape(o), s, tag="unescape")
            ok = False
    return ok


def check_quote(ctx, s, q, kind, what):
    if not (isinstance(q, str) and len(q) >= 2 and q[0] == q[-1] and q[0] in "\"'" and q[0] not in q[1:-1]):
        ctx.fail({"s": s, "formatter": what, "family": kind}, "quoted attribute value is not well-formed", q, None,
                 tag="quote")
        return False
    return True


def model_all(ctx, strings):
    """One model command per string: all outputs and all readings (Run/D_C09.v, sub-command 13)."""
    res = ctx.model.run([[9013, s] for s in strings])
    out = []
    for s, r in zip(strings, res):
        if isinstance(r, tuple):
            ctx.disagree("model run", {"s": s}, None, r[1])
            out.append(None)
            continue

        def readings(x):
            chk = x[5]
            return {"q": ts(x[0]), "text": ts(x[1]), "unescape": ts(x[2]), "attr": ts(x[3][0]) if x[3] else None,
                    "real": ts(x[4][0]), "real_tok": x[4][1],
                    "attr_checked": ts(chk[1]) if chk[0] == 0 else (None if chk[0] == 1 else "EXC:ParserRejectedMarkup")}
        out.append({"minimal": ts(r[0][0]) if r[0] else "EXC:KeyError",
                    "minimal_q": ts(r[1][0]) if r[1] else "EXC:KeyError",
                    "html": ts(r[2]), "html5": ts(r[3]), "quote": ts(r[4]),
                    "R": {"minimal": readings(r[5][0]) if r[5] else None, "html": readings(r[6]), "html5": readings(r[7])},
                    "unescape_s": ts(r[8]), "nbr": bool(r[9]), "nbr_attr": bool(r[10]), "nsh": bool(r[11])})
    return out


def run_family(ctx, kind, strings, st, model_subset=None):
    strings = list(dict.fromkeys(strings))            # distinct, order kept
    if not strings:
        return
    ctx.count("family_" + kind, len(strings))
    impl = [impl_all(s) for s in strings]
    for s in strings:
        ctx.case((kind, s), nontrivial=interesting(s))
    # ---- model side (correspondence of the substitutions)
    model = {}
    if ctx.build.model_ok:
        ms = strings if model_subset is None else [s for s in strings if model_subset(s)]
        ctx.count("model_cases_" + kind, len(ms))
        for s, m in zip(ms, model_all(ctx, ms)):
            if m is not None:
                model[s] = m
        for s, im in zip(strings, impl):
            m = model.get(s)
            if m is None:
                continue
            for k, name in (("minimal", "substitute_xml"), ("minimal_q", "substitute_xml(make_quoted_attribute=True)"),
                            ("html", "substitute_html"), ("html5", "substitute_html5"),
                            ("quote", "quoted_attribute_value")):
                if im[k] != m[k]:
                    ctx.disagree("EntitySubstitution.%s ~ Model.EntitySubst" % name, {"s": s, "family": kind}, im[k], m[k])
            if py_unescape(s) != "EXC:ValueError" and m["unescape_s"] != py_unescape(s):
                ctx.disagree("html.unescape ~ Model.EntitySubst.unescape", {"text": s}, py_unescape(s), m["unescape_s"])
    # ---- direct oracle + the model's readers against the real parser, per formatter
    neutral = []
    for fmt in FMT:
        outs = [im[fmt] for im in impl]
        for s, o in zip(strings, outs):
            oracle_static(ctx, s, fmt, o, kind)
        safe = [o if isinstance(o, str) and not o.startswith("EXC:") else "" for o in outs]
        qs = [exc(ES.quoted_attribute_value, o) for o in safe]
        qs = [q if check_quote(ctx, s, q, kind, fmt) else '""' for s, q in zip(strings, qs)]
        texts = read_text_many(safe)
        attrs = read_attr_many(qs)
        for s, o, q, t, a in zip(strings, safe, qs, texts, attrs):
            case = {"s": s, "formatter": fmt, "family": kind}
            mm = model.get(s)
            if mm is not None:
                # the proved exact class (C09_html5_text_roundtrip_iff / _attr_roundtrip_iff / C09_html5_real_text):
                # a text mismatch must be explained by a bare reference or a stray "&#", an attribute mismatch by a
                # bare reference in the attribute sense; anything else is not the listed finding
                in_class = ((t == s or not mm["nbr"] or not mm["nsh"]) and (a == s or not mm["nbr_attr"]))
            else:
                in_class = True
            if fmt == "html5" and (t != s or a != s) and bare_positions(s) and in_class:
                # the listed class; a few are recorded, all are counted
                st["known"] += 1
                if st["known_recorded"] < 3:
                    st["known_recorded"] += 1
                    ctx.fail(case, "html5: a bare reference is written as it is and read back changed",
                             {"output": o, "text": t, "attribute": a}, s, tag="html5-bare-ref")
                neutral.append(s)
            else:
                if t != s:
                    ctx.fail(case, "element text read back by the parser is not the original",
                             {"output": o, "read": t}, s, tag="text-readback")
                if a != s:
                    ctx.fail(case, "quoted attribute value read back by the parser is not the original",
                             {"quoted": q, "read": a}, s, tag="attr-readback")
            m = model.get(s)
            R = m and m["R"].get(fmt)
            if R and m[fmt] == o:
                ctx.traces_validated += 1
                if R["q"] != q:
                    ctx.disagree("quoted_attribute_value(substituted) ~ Model.EntitySubst", {"text": o}, q, R["q"])
                    continue
                if py_unescape(o) == "EXC:ValueError":
                    if R["attr_checked"] != "EXC:ParserRejectedMarkup":
                        ctx.disagree("html.unescape raises ValueError ~ Model.UnescapeLimit.unescape_raises", {"text": o[:80]},
                                     "ValueError", R["attr_checked"] and R["attr_checked"][:80])
                elif R["unescape"] != py_unescape(o):
                    ctx.disagree("html.unescape ~ Model.EntitySubst.unescape", {"text": o}, py_unescape(o), R["unescape"])
                if not parser_gives_up(o) and R["text"] != t:
                    ctx.disagree("html.parser+bs4 element text ~ Base.Reader.read_text", {"text": o}, t, R["text"])
                # the real reader (gives up at a stray "&#"): every output, no exception
                if R["real"] != t:
                    ctx.disagree("html.parser+bs4 element text of <pre>o</pre> ~ Model.TextReaderReal.real_read_text",
                                 {"text": o}, t, R["real"])
                if (R["real_tok"] == 0) != (not parser_gives_up(o)):
                    ctx.disagree("charref pattern fails at some '&#' <-> the model's tokenizer left pass 1 (evaluated)",
                                 {"text": o}, parser_gives_up(o), R["real_tok"])
                if R["attr_checked"] != a:
                    ctx.disagree("html.parser attribute value / ParserRejectedMarkup ~ Model.UnescapeLimit.read_quoted_checked",
                                 {"quoted": q[:80], "length": len(q)}, a if a is None or len(a) < 200 else a[:200],
                                 R["attr_checked"] if R["attr_checked"] is None or len(R["attr_checked"]) < 200 else R["attr_checked"][:200])
                if a != "EXC:ParserRejectedMarkup" and R["attr"] != a:
                    ctx.disagree("html.parser attribute value ~ Model.EntitySubst.read_quoted", {"quoted": q[:200]}, a, R["attr"])
                if fmt == "html5":
                    # the hypothesis of the partial theorem is exactly the class that reads back (model reader)
                    st["nbr_true" if m["nbr"] else "nbr_false"] += 1
                    if m["nbr"] != (R["text"] == s):
                        ctx.disagree("no_bare_ref s <-> read_text (substitute_html5 s) = s (evaluated)", {"s": s},
                                     R["text"] == s, m["nbr"])
                    if m["nsh"] != (not parser_gives_up(o)):
                        ctx.disagree("no_stray_hash s <-> the charref pattern never fails in substitute_html5 s (evaluated)",
                                     {"s": s}, not parser_gives_up(o), m["nsh"])
                    st["nbra_true" if m["nbr_attr"] else "nbra_false"] += 1
                    if m["nbr_attr"] != (R["attr"] == s):
                        ctx.disagree("no_bare_ref_attr s <-> read_quoted (quote (substitute_html5 s)) = s (evaluated)",
                                     {"s": s}, R["attr"] == s, m["nbr_attr"])
    # ... nothing else may be wrong with a string of the listed class: with its bare ampersands taken out it
    # must read back exactly
    if neutral:
        n2 = list(dict.fromkeys(neutralise(s) for s in neutral))
        o2 = [exc(ES.substitute_html5, x) for x in n2]
        ok = [isinstance(o, str) and not o.startswith("EXC:") for o in o2]
        safe2 = [o if k else "" for o, k in zip(o2, ok)]
        t2 = read_text_many(safe2)
        a2 = read_attr_many([exc(ES.quoted_attribute_value, o) for o in safe2])
        for x, o, k, t, a in zip(n2, o2, ok, t2, a2):
            if not k or t != x or a != x:
                ctx.fail({"s": x, "formatter": "html5", "family": kind, "derived": "bare ampersands replaced by U+E000"},
                         "html5: the string does not read back even with its bare ampersands removed",
                         {"output": o, "text": t, "attribute": a}, x, tag="html5-other")
    # quoting of the raw string as well (any mixture of quotes)
    for s, im in zip(strings, impl):
        check_quote(ctx, s, im["quote"], kind, "quoted_attribute_value(raw)")


# ------------------------------------------------------------------------------------------ formatter level
def formatter_level(ctx, strings):
    """Formatter.substitute / attribute_value for every registered name, and the text Tag.decode writes."""
    regs = [(False, HTMLFormatter, k) for k in HTMLFormatter.REGISTRY] + [(True, XMLFormatter, k) for k in XMLFormatter.REGISTRY]
    soup = BeautifulSoup("<pre t='x'>y</pre><script>z</script>", "html.parser")
    p, sc = soup.pre, soup.script
    cmds, cases = [], []
    for s in strings:
        ns = NavigableString(s)
        p.string.replace_with(ns)
        p["t"] = s
        sc.string.replace_with(NavigableString(s))
        for xml, cls, name in regs:
            f = cls.REGISTRY[name]
            got = (exc(f.substitute, s), exc(f.attribute_value, s), exc(f.substitute, p.string),
                   exc(f.substitute, sc.string), exc(lambda: p.decode(formatter=f)), exc(lambda: sc.decode(formatter=f)))
            ctx.case(("fmt", xml, name, s), nontrivial=interesting(s))
            in_cdata = (not xml)               # script is a CDATA-containing tag for HTML formatters only
            cmds += [[9004, xml, common.opt(name), False, s], [9004, xml, common.opt(name), in_cdata, s],
                     [9005, xml, common.opt(name), s]]
            cases.append((xml, cls, name, s, got))
    ctx.count("formatter_level_cases", len(cases))
    if not ctx.build.model_ok:
        return
    res = ctx.model.run(cmds)
    for i, (xml, cls, name, s, got) in enumerate(cases):
        r_txt, r_cd, r_att = res[3 * i:3 * i + 3]
        case = {"s": s, "formatter": name, "xml": xml}
        if isinstance(r_txt, tuple) or not r_txt or not r_cd or not r_att:
            ctx.disagree("Formatter registry ~ Model.registry_esub", case, "registered", "unknown to the model"); continue

        def val(r):
            return ts(r[0][0]) if r[0] else "EXC:KeyError"
        mt, mc, ma = val(r_txt), val(r_cd), val(r_att)
        exp = (mt, mt, mt, mc, "<pre t=" + ma + ">" + mt + "</pre>", "<script>" + mc + "</script>")
        names = ("Formatter.substitute(str)", "Formatter.attribute_value", "Formatter.substitute(NavigableString)",
                 "Formatter.substitute(string inside <script>)", "Tag.decode: attribute and text",
                 "Tag.decode: <script> content")
        boolean_attr = (s == "" and cls.REGISTRY[name].empty_attributes_are_booleans)   # rendered as a bare name (C15)
        for g, e, nm in zip(got, exp, names):
            if boolean_attr and nm.startswith("Tag.decode: attribute"):
                continue
            if g != e:
                ctx.disagree("%s ~ Model.EntitySubst.formatter_substitute/render_attribute_value" % nm, case, g, e)
        # end to end through the real code path (independent of the model): what Tag.decode writes for an
        # attribute value and a text is read back by the parser as the original
        if name in ("minimal", "html", "html5") and isinstance(got[4], str) and not got[4].startswith("EXC:"):
            back = exc(BeautifulSoup, got[4], "html.parser")
            el = back.find("pre") if not isinstance(back, str) else None
            rt = _text_of(el) if el is not None else None
            ra = el.get("t") if el is not None else None
            if boolean_attr:
                ra = s if ra == "" else ra
            if (rt != s or ra != s) and not (name == "html5" and bare_positions(s)):
                ctx.fail(case, "Tag.decode(formatter=%r): attribute value / text are not read back as the original" % name,
                         {"written": got[4], "text": rt, "attribute": ra}, s, tag="decode-readback")
        # the same for a multi-valued (list) attribute value: every token goes through the substitution too
        if name in ("minimal", "html", "html5") and s and not any(ch.isspace() for ch in s):
            p["class"] = [s, "k"]
            fmt = cls.REGISTRY[name]
            w = exc(lambda: p.decode(formatter=fmt))
            del p["class"]
            back = exc(BeautifulSoup, w, "html.parser") if isinstance(w, str) and not w.startswith("EXC:") else w
            el = back.find("pre") if not isinstance(back, str) else None
            rc = el.get("class") if el is not None else None
            if rc != [s, "k"] and not (name == "html5" and bare_positions(s)):
                ctx.fail(case, "Tag.decode(formatter=%r): a token of a multi-valued attribute is not read back as the original" % name,
                         {"written": w, "class": rc}, [s, "k"], tag="decode-readback-list")
        # the registered names mean the documented functions (independent of the model)
        if name in ("minimal", "html", "html5"):
            ref = {"minimal": ES.substitute_xml, "html": ES.substitute_html, "html5": ES.substitute_html5}[name]
            if got[0] != exc(ref, s):
                ctx.fail(case, "formatter %r does not apply its documented substitution" % name, got[0], exc(ref, s),
                         tag="registry")


# ------------------------------------------------------------------------------------------ string classes and histories
# Which strings are substituted is decided by Formatter.substitute from where the string IS (the name of its parent,
# against cdata_containing_tags) - not from how it got there and not from the class the tree builder gave it.
HOLDERS = ["p", "script", "style", "template", "rt", "rp"]          # -> NavigableString, Script, Stylesheet, TemplateString, Ruby*
HISTORIES = ["in place", "moved to pre", "copied to em", "parent renamed to code", "parent renamed to script",
             "moved into script", "parent copied then renamed to code"]


def string_scenario(s, holder, history):
    """Parse a small document, give the string of <holder> (an object of the class the builder uses there) the text s,
    apply the history; returns (element whose text the string now is, the string object)."""
    soup = BeautifulSoup("<div><%s>x</%s><pre></pre><em></em><script></script></div>" % (holder, holder), "html.parser")
    el = soup.find(holder)
    obj = type(el.string)(s)
    el.string.replace_with(obj)
    if history == "in place":
        return el, obj
    if history == "moved to pre":
        soup.pre.append(obj.extract())
        return soup.pre, obj
    if history == "copied to em":
        c = copy.copy(obj)
        soup.em.append(c)
        return soup.em, c
    if history == "parent renamed to code":
        el.name = "code"
        return el, obj
    if history == "parent renamed to script":
        el.name = "script"
        return el, obj
    if history == "moved into script":
        target = soup.find_all("script")[-1]
        target.append(obj.extract())
        return target, obj
    if history == "parent copied then renamed to code":
        c = copy.copy(el)
        c.name = "code"
        return c, c.contents[0]
    raise ValueError(history)


def string_class_level(ctx, strings):
    regs = [(False, HTMLFormatter, k) for k in HTMLFormatter.REGISTRY] + [(True, XMLFormatter, k) for k in XMLFormatter.REGISTRY]
    cmds, cases = [], []
    for s in strings:
        for holder in HOLDERS:
            for history in HISTORIES:
                for xml, cls, name in regs:
                    f = cls.REGISTRY[name]
                    try:
                        el, obj = string_scenario(s, holder, history)
                        got = (exc(lambda: obj.output_ready(formatter=f)), exc(lambda: el.decode(formatter=f)))
                        parent, kind = el.name, type(obj).__name__
                    except Exception as e:
                        got, parent, kind = ("EXC:" + type(e).__name__,) * 2, "?", "?"
                    ctx.case(("cls", xml, name, holder, history, s), nontrivial=interesting(s))
                    cmds.append([9004, xml, common.opt(name), parent in ("script", "style") and not xml, s])
                    cases.append((xml, name, holder, history, s, parent, kind, got))
    ctx.count("string_class_cases", len(cases))
    res = ctx.model.run(cmds) if ctx.build.model_ok else [None] * len(cases)
    for (xml, name, holder, history, s, parent, kind, got), r in zip(cases, res):
        case = {"s": s, "formatter": name, "xml": xml, "holder": holder, "history": history, "string_class": kind,
                "parent": parent}
        # ---- direct oracle: ordinary element text is escaped reversibly whatever the string's class and history
        if name in ("minimal", "html", "html5") and parent not in ("script", "style", "?") and isinstance(got[1], str) \
                and not got[1].startswith("EXC:") and not (name == "html5" and bare_positions(s)):
            w = got[1]
            body = w[len(parent) + 2:len(w) - len(parent) - 3] if w.startswith("<%s>" % parent) and w.endswith("</%s>" % parent) else None
            bad = None
            if body is None or "<" in body or ">" in body:
                bad = "raw angle bracket in the text of <%s>" % parent
            elif py_unescape(body) != s and name != "html5":
                bad = "html.unescape of the written text is not the original"
            elif s.strip(" \t\n\r\x0c") != "":
                back = exc(BeautifulSoup, w, "html.parser")
                bel = back.find(parent) if not isinstance(back, str) else None
                if bel is None or not all(isinstance(k, NavigableString) for k in bel.contents) \
                        or "".join(bel.contents) != s:
                    bad = "the text of <%s> is not read back as the original" % parent
            if bad:
                ctx.fail(case, "a %s that is the text of <%s> (%s): %s" % (kind, parent, history, bad), w, s,
                         tag="string-class-readback")
        # ---- correspondence: Formatter.substitute decides by the parent's name only
        if r is None or isinstance(r, tuple) or not r:
            continue
        mt = ts(r[0][0]) if r[0] else "EXC:KeyError"
        exp = (mt, "<%s>%s</%s>" % (parent, mt, parent))
        for g, e, nm in zip(got, exp, ("output_ready", "Tag.decode")):
            if g != e:
                ctx.disagree("%s of a parsed string object after a history ~ Model.EntitySubst.formatter_substitute" % nm,
                             case, g, e)


# ------------------------------------------------------------------------------------------ formatter objects x value kinds
# User-built formatter objects with every boundary value of cdata_containing_tags, and every kind of value
# Formatter.substitute can be handed: a plain str, NavigableString objects (and the builder's subclasses) with and
# without a parent, as text (output_ready), through attribute_value, and as the attribute value of a tag.
# Documented rule: a value is left alone only if it is a NavigableString WITH a parent whose name is in the formatter's
# cdata_containing_tags; an option that is given - the empty set included - is used as given, None means the
# language's default ({script, style} for HTML, nothing for XML).
ES_FUNCS = {"minimal": "substitute_xml", "html": "substitute_html", "html5": "substitute_html5", None: None}
CDATA_VALUES = {"(not given)": "omit", "None": None, "set()": set(), "frozenset()": frozenset(), "[]": [], "()": (),
                "{'script'}": {"script"}, "{'pre'}": {"pre"}, "['style', 'em']": ["style", "em"]}
FCLASSES = ["Formatter(HTML)", "Formatter(XML)", "Formatter()", "HTMLFormatter", "XMLFormatter"]
VALUE_KINDS = ["str", "NavigableString without parent", "Script without parent", "Stylesheet without parent",
               "copy of a parsed string", "extracted string of <p>", "extracted string of <script>",
               "string in <p>", "string in <script>", "string in <style>", "string in <pre>", "string in <em>"]


def build_formatter(fclass, es_name, cdata_label, variant=0):
    from bs4.formatter import Formatter
    es = getattr(ES, ES_FUNCS[es_name]) if ES_FUNCS[es_name] else None
    kw = {"entity_substitution": es}
    cv = CDATA_VALUES[cdata_label]
    if not (isinstance(cv, str) and cv == "omit"):
        kw["cdata_containing_tags"] = copy.copy(cv)
    if variant % 3 == 1:
        kw["indent"] = 3
    if variant % 3 == 2:
        kw["void_element_close_prefix"] = ""
    if fclass == "Formatter(HTML)":
        return Formatter(Formatter.HTML, **kw), False
    if fclass == "Formatter(XML)":
        return Formatter(Formatter.XML, **kw), True
    if fclass == "Formatter()":
        return Formatter(**kw), False               # language None means HTML
    if fclass == "HTMLFormatter":
        return HTMLFormatter(**kw), False
    return XMLFormatter(**kw), True


def expected_cdata(cdata_label, is_xml):
    cv = CDATA_VALUES[cdata_label]
    if cv is None or (isinstance(cv, str) and cv == "omit"):
        return set() if is_xml else {"script", "style"}
    return set(cv)


def build_value(kind, s):
    """-> (value, name of its parent or None)."""
    from bs4.element import Script, Stylesheet
    if kind == "str":
        return s, None
    if kind == "NavigableString without parent":
        return NavigableString(s), None
    if kind == "Script without parent":
        return Script(s), None
    if kind == "Stylesheet without parent":
        return Stylesheet(s), None
    soup = BeautifulSoup("<div><p>x</p><script>x</script><style>x</style><pre>x</pre><em>x</em></div>", "html.parser")
    holder = {"copy of a parsed string": "p", "extracted string of <p>": "p", "extracted string of <script>": "script"}.get(kind) \
        or kind[len("string in <"):-1]
    el = soup.find(holder)
    obj = type(el.string)(s)
    el.string.replace_with(obj)
    if kind == "copy of a parsed string":
        return copy.copy(obj), None
    if kind.startswith("extracted"):
        return obj.extract(), None
    return obj, holder


def apply_formatter(f, v):
    carrier = BeautifulSoup("<pre></pre>", "html.parser").pre
    carrier["t"] = v
    return (exc(f.substitute, v), exc(f.attribute_value, v),
            exc(lambda: v.output_ready(formatter=f)) if isinstance(v, NavigableString) else None,
            exc(lambda: carrier.decode(formatter=f)))


def formatter_objects_level(ctx, strings):
    rng = ctx.rng
    cases, cmds = [], []
    combos = [(fc, es, cd) for fc in FCLASSES for es in ES_FUNCS for cd in CDATA_VALUES]
    for n, (fc, es, cd) in enumerate(combos):
        try:
            f, is_xml = build_formatter(fc, es, cd, n)
        except Exception as e:
            ctx.fail({"fclass": fc, "es": es, "cdata": cd}, "the formatter cannot be constructed", "EXC:" + type(e).__name__, None,
                     tag="formatter-object")
            continue
        cdset = expected_cdata(cd, is_xml)
        # every value kind with two strings each (all strings get used across the formatters)
        for kind in VALUE_KINDS:
            for s in (strings[n % len(strings)], rng.choice(strings)):
                v, parent = build_value(kind, s)
                left_alone = es is None or (parent is not None and parent in cdset)
                got = apply_formatter(f, v)
                ctx.case(("fobj", fc, es, cd, kind, s), nontrivial=interesting(s))
                cmds.append([9004, False, common.opt(es), bool(left_alone), s])
                cases.append(({"s": s, "fclass": fc, "es": es, "cdata": cd, "kind": kind, "variant": n, "formatter": es},
                              left_alone, got))
    ctx.count("formatter_object_cases", len(cases))
    # ---- direct oracle (documented rule; no model)
    written = [g[3] for _, _, g in cases]
    qs = []
    for (case, left_alone, got) in cases:
        w = got[3]
        q = w[len("<pre t="):-len("></pre>")] if isinstance(w, str) and w.startswith("<pre t=") and w.endswith("></pre>") else None
        qs.append(q)
    backs = read_attr_many([q if q is not None else '""' for q in qs])
    for (case, left_alone, got), q, back in zip(cases, qs, backs):
        s, es = case["s"], case["es"]
        if left_alone:
            for g, nm in zip(got[:3], ("substitute", "attribute_value", "output_ready")):
                if g is not None and g != s:
                    ctx.fail(case, "Formatter.%s changed a value it must leave alone" % nm, g, s, tag="formatter-object")
            continue
        if es == "html5" and bare_positions(s):
            continue
        for g, nm in zip(got[:3], ("substitute", "attribute_value", "output_ready")):
            if g is None:
                continue
            if not isinstance(g, str) or g.startswith("EXC:") or "<" in g or ">" in g:
                ctx.fail(case, "Formatter.%s: raw angle bracket (or an exception) for a value that must be substituted" % nm,
                         g, None, tag="formatter-object")
                break
            if es != "html5" and py_unescape(g) != s:
                ctx.fail(case, "Formatter.%s: html.unescape of the result is not the original" % nm, g, s, tag="formatter-object")
                break
        else:
            if s == "" and q is None:
                continue                      # empty value rendered as a bare attribute name (C15)
            if q is None or not check_quote(ctx, s, q, "formatter-object", es):
                ctx.fail(case, "Tag.decode: the attribute is not written as a well-formed quoted value", got[3], None,
                         tag="formatter-object")
            elif "<" in q or ">" in q or back != s:
                ctx.fail(case, "Tag.decode: the attribute value is not read back as the original",
                         {"written": got[3], "read": back}, s, tag="formatter-object")
    # ---- correspondence with Model.EntitySubst.formatter_substitute / quoted_attribute_value
    if not ctx.build.model_ok:
        return
    res = ctx.model.run(cmds)
    mts = [(ts(r[0][0]) if (not isinstance(r, tuple) and r and r[0]) else None) for r in res]
    resq = ctx.model.run([[9003, mt if mt is not None else ""] for mt in mts])
    for (case, left_alone, got), mt, rq in zip(cases, mts, resq):
        if mt is None or isinstance(rq, tuple):
            ctx.disagree("model run (formatter objects)", case, None, None); continue
        exp = (mt, mt, mt, "<pre t=" + ts(rq) + "></pre>")
        for g, e, nm in zip(got, exp, ("Formatter.substitute", "Formatter.attribute_value", "output_ready", "Tag.decode (attribute)")):
            if g is None or (nm.startswith("Tag") and case["s"] == ""):
                continue
            if g != e:
                ctx.disagree("%s of a user-built formatter ~ Model.EntitySubst.formatter_substitute" % nm, case, g, e)


# ------------------------------------------------------------------------------------------ real reader, other contexts
def real_reader_contexts(ctx):
    """Model/TextReaderReal.real_read_text against the parser for raw texts (not outputs), in three document contexts:
    nothing after the closing tag; a ';' later in the document; and tokenizer already in its second pass (an earlier
    stray '&#' used up the first)."""
    if not ctx.build.model_ok:
        return
    L = 5 if ctx.thorough else 4
    texts = ["".join(c) for n in range(L + 1) for c in itertools.product("&;#x1a", repeat=n)]
    rng = ctx.rng
    for _ in range(1500 if ctx.thorough else 300):
        texts.append("".join(rng.choice(["&", ";", "#", "x", "X", "1", "a", "g", "-", " ", "&#", "&#x", "amp", "&#12", "\u00e9"])
                             for _ in range(rng.randint(0, 10))))
    texts = list(dict.fromkeys(texts))
    contexts = [("alone", "", "</pre>", False), ("semicolon later", "", "</pre><b>;</b>", False),
                ("second pass", "&#!", "</pre><b>;</b>", True)]
    cmds = [[9014, p2, t, K] for t in texts for (_, _, K, p2) in contexts]
    res = ctx.model.run(cmds)
    k = 0
    for t in texts:
        for name, before, K, p2 in contexts:
            r = res[k]; k += 1
            ctx.case(("ctx", name, t), nontrivial=("&#" in t))
            try:
                soup = BeautifulSoup(before + "<pre>" + t + K, "html.parser")
                pre = soup.find("pre")
                real = _text_of(pre) if pre is not None else "NOPRE:" + soup.decode(formatter=None)
            except Exception as e:
                real = "EXC:" + type(e).__name__
            if isinstance(r, tuple):
                ctx.disagree("model run (real reader)", {"text": t}, None, r[1]); continue
            if ts(r[0]) != real:
                ctx.disagree("html.parser+bs4 element text ~ Model.TextReaderReal.real_read_text (context: %s)" % name,
                             {"text": t, "before": before, "after": K}, real, ts(r[0]))
    ctx.count("real_reader_context_cases", len(cmds))


# ------------------------------------------------------------------------------------------ entry points
def run(ctx):
    _TEXT_CACHE.clear(); _ATTR_CACHE.clear()
    st = {"known": 0, "known_recorded": 0, "nbr_true": 0, "nbr_false": 0, "nbra_true": 0, "nbra_false": 0}
    if not ctx.build.tables_ok:
        ctx.disagree("translator (fail-closed): the tables of EntitySubstitution could not be read",
                     {"stage": "translator"}, ctx.build.tables_msg[-400:], None)
    fams = [("corpus", family_corpus), ("small", family_small), ("sequences", family_sequences),
            ("names", family_names), ("random", family_random), ("singles", family_singles)]
    slice_for_formatters = []
    particle_cps = set(ord(c) for q in SEQS for c in q)

    def singles_subset(s):
        c = ord(s)
        return c < 0x3000 or c in particle_cps or (c - 1) in particle_cps or (c + 1) in particle_cps or c % 7 == 0
    for kind, gen in fams:
        strings = gen(ctx)
        sub = singles_subset if (kind == "singles" and not ctx.thorough) else None
        run_family(ctx, kind, strings, st, sub)
        step = max(1, len(strings) // (400 if ctx.thorough else 120))
        slice_for_formatters += strings[::step]
    real_reader_contexts(ctx)
    pool = [x for x in dict.fromkeys(slice_for_formatters) if any(c in "&<>" for c in x) and len(x) < 40]
    k = 24 if ctx.thorough else 8
    string_class_level(ctx, ["a<b", "x > y", "AT&T", "&amp;", "if (a < b && c > d) { go('&lt;'); }", "<\u20d2\u00e9>", "\"'<>&"]
                       + ctx.rng.sample(pool, min(k, len(pool))))
    formatter_objects_level(ctx, ["a<b", "x > y", "AT&T", "&amp;", "\"'<>&", "<\u20d2\u00e9>", "a\"b", "it's <i>", ""]
                            + ctx.rng.sample(pool, min(6, len(pool))))
    formatter_level(ctx, list(dict.fromkeys(slice_for_formatters + ["", "&", "<>", "a\"b'c", "&amp x", "≧̸"])))
    ctx.counts.update({"html5_known_class_cases": st["known"], "html5_no_bare_ref_true": st["nbr_true"],
                       "html5_no_bare_ref_false": st["nbr_false"],
                       "html5_no_bare_ref_attr_true": st["nbra_true"], "html5_no_bare_ref_attr_false": st["nbra_false"]})
    ctx.sample({"s": "AT&T <⃒ \"x\" 'y'", "minimal": ES.substitute_xml("AT&T <⃒ \"x\" 'y'"),
                "html": ES.substitute_html("AT&T <⃒ \"x\" 'y'"),
                "quoted": ES.quoted_attribute_value(ES.substitute_html("AT&T <⃒ \"x\" 'y'"))})
    ctx.sample({"s": "≧̸≧x", "html": ES.substitute_html("≧̸≧x"),
                "read_back": read_text_one(ES.substitute_html("≧̸≧x"))})
    ctx.sample({"s": "&amp x &amp; x", "html5": ES.substitute_html5("&amp x &amp; x"),
                "read_back": read_text_one(ES.substitute_html5("&amp x &amp; x"))})
    ctx.extra_cov["exhaustive"] = True
    ctx.extra_cov["exhaustive_scope"] = ("every BMP code point (and U+1D400-1D7FF) singly; every html5 entity sequence; every "
                                         "'&'+html5 name with/without ';' x 5 followers; all strings of <=%d tokens over 12 "
                                         "markup tokens" % (5 if ctx.thorough else 4))


def replay_known(ctx, k):
    w = k.get("witness") or {}
    s = w.get("s")
    if not isinstance(s, str):
        return False
    o = ES.substitute_html5(s)
    return read_text_one(o) != s or read_attr_one(ES.quoted_attribute_value(o)) != s


def replay(ctx, data):
    f = data.get("failure") or {}
    c = f.get("case") or {}
    s = c.get("s")
    if not isinstance(s, str):
        print("nothing to replay in", data.get("kind"), data.get("no_longer_checks"))
        return 1
    fmt = c.get("formatter")
    if "fclass" in c:
        f, is_xml = build_formatter(c["fclass"], c.get("es"), c["cdata"], c.get("variant", 0))
        v, parent = build_value(c["kind"], s)
        left_alone = c.get("es") is None or (parent is not None and parent in expected_cdata(c["cdata"], is_xml))
        got = apply_formatter(f, v)
        w = got[3]
        q = w[len("<pre t="):-len("></pre>")] if isinstance(w, str) and w.startswith("<pre t=") else None
        back = read_attr_one(q) if q else None
        print("%s(entity_substitution=%s, cdata_containing_tags=%s), value: %s %r (parent %r) -> substitute %r ; attribute_value %r ; "
              "output_ready %r ; as attribute %r read back %r ; must be %s"
              % (c["fclass"], c.get("es"), c["cdata"], c["kind"], s, parent, got[0], got[1], got[2], w, back,
                 "left alone" if left_alone else "substituted"))
        if left_alone:
            bad = any(g is not None and g != s for g in got[:3])
        else:
            bad = any(g is not None and (not isinstance(g, str) or "<" in g or ">" in g) for g in got[:3]) or \
                (s != "" and back != s and not (c.get("es") == "html5" and bare_positions(s)))
        print("still failing" if bad else "no longer failing")
        return 1 if bad else 0
    if "history" in c:
        cls = XMLFormatter if c["xml"] else HTMLFormatter
        fo = cls.REGISTRY.get(fmt)
        el, obj = string_scenario(s, c["holder"], c["history"])
        w = exc(lambda: el.decode(formatter=fo))
        back = exc(BeautifulSoup, w, "html.parser") if isinstance(w, str) else None
        bel = back.find(el.name) if back is not None and not isinstance(back, str) else None
        rt = "".join(str(k) for k in bel.contents) if bel is not None else None
        print("%s.REGISTRY[%r]: a %s with text %r, history %r, is now the text of <%s>: written %r ; read back %r"
              % (cls.__name__, fmt, type(obj).__name__, s, c["history"], el.name, w, rt))
        body = w[len(el.name) + 2:len(w) - len(el.name) - 3] if isinstance(w, str) else ""
        bad = el.name not in ("script", "style") and ("<" in body or ">" in body or (s.strip() != "" and rt != s))
        print("still failing" if bad else "no longer failing")
        return 1 if bad else 0
    if "xml" in c:
        # formatter level: Formatter.substitute / attribute_value / Tag.decode of the registered name
        cls = XMLFormatter if c["xml"] else HTMLFormatter
        fo = cls.REGISTRY.get(fmt)
        soup = BeautifulSoup("<pre t='x'>y</pre>", "html.parser")
        soup.pre["t"] = s
        soup.pre.string.replace_with(NavigableString(s))
        w = exc(lambda: soup.pre.decode(formatter=fo))
        back = exc(BeautifulSoup, w, "html.parser") if isinstance(w, str) else None
        el = back.find("pre") if back is not None and not isinstance(back, str) else None
        rt, ra = (_text_of(el), el.get("t")) if el is not None else (None, None)
        print("%s.REGISTRY[%r]: s=%r written %r ; text read back %r ; attribute read back %r ; substitute -> %r"
              % (cls.__name__, fmt, s, w, rt, ra, exc(fo.substitute, s) if fo else None))
        bad = (rt != s or (ra != s and not (s == "" and ra == "")))
        print("still failing" if bad else "no longer failing")
        return 1 if bad else 0
    fn = {"minimal": ES.substitute_xml, "html": ES.substitute_html, "html5": ES.substitute_html5}.get(fmt)
    if fn is None:
        q = exc(ES.quoted_attribute_value, s)
        ok = isinstance(q, str) and len(q) >= 2 and q[0] == q[-1] and q[0] in "\"'" and q[0] not in q[1:-1]
        print("quoted_attribute_value(%r) = %r ; read back %r" % (s, q, read_attr_one(q) if isinstance(q, str) else None))
        print("no longer failing" if ok else "still failing")
        return 0 if ok else 1
    o = exc(fn, s)
    q = exc(ES.quoted_attribute_value, o) if isinstance(o, str) else None
    t = read_text_one(o) if isinstance(o, str) else None
    a = read_attr_one(q) if isinstance(q, str) else None
    print("formatter=%s s=%r -> %r ; as text %r ; quoted %r -> %r ; html.unescape %r"
          % (fmt, s, o, t, q, a, py_unescape(o) if isinstance(o, str) else None))
    wf = isinstance(q, str) and len(q) >= 2 and q[0] == q[-1] and q[0] in "\"'" and q[0] not in q[1:-1]
    bad = (t != s or a != s or not isinstance(o, str) or "<" in o or ">" in o or not wf
           or (fmt != "html5" and py_unescape(o) != s))
    print("still failing" if bad else "no longer failing")
    return 1 if bad else 0
