"""C05 — serialising and re-parsing gives the same tree back.
Correspondence: Tag.decode / decode_contents / BeautifulSoup.decode / _event_stream vs coq/Model/Render.v (strings and
event streams), html.parser's reading of the rendered string vs Model.Reparse.read_tokens, the re-parsed tree vs
Spec.RenderSpec.norm.  Direct oracle (Python, independent of the model): normalised structural comparison of the
re-parse, second round trip, no empty-element tag with children, script/style text verbatim."""
import json, os, re, warnings
import rendergen as G
from rendergen import Tag, NavigableString, BeautifulSoup

RULE = ("trees: (a) documents written from a random tree model (void spellings, quoting, entity spellings, whitespace, "
        "comments/doctype/PI/CDATA/marked sections randomised) and parsed by html.parser; (b) token soup parsed by "
        "html.parser; (c) documents built through the API (new_tag / Tag() / new strings of every class, append, insert, "
        "extract, replace_with, wrap, unwrap, insert_before/after, attribute set/del incl. list, int, bool, None values, "
        ".string=, smooth, rename, clear, hidden, decompose), HTML- and XML-flavoured; (d) parsed documents then edited "
        "the same way; (e) the same three kinds under builders with their own empty_element_tags (none; a few of the tree's own "
        "names; the HTML set without br/link/img), each rendering read back by a builder configured the same way, after the "
        "process has parsed an everyday page with unclosed void elements (no state may leak between parses).  Text and attribute values over an alphabet of & < > quotes, entity look-alikes, non-ASCII, "
        "two-code-point entity characters, control characters, whitespace and markup traps (-->, ]]>, </script>).  "
        "Each tree x formatter in {minimal, html} (plus html5 / None for the string tie only) x starting element "
        "(the root and a random inner tag).  Non-trivial: the rendering contains a character that needed escaping or a "
        "special string or >= 3 elements.  Distinct by (rendered text, formatter).")
ASSUMPTIONS = [
    "the standard-library tokenizer (html.parser) is not part of the repository: the round trip is proved on tokens "
    "(Model.Reparse.read_tokens) and the tokenizer's reading of each rendered string is compared with read_tokens on every "
    "case; for trees whose tokens are in Spec.RenderTok.toks_covered the step from the rendered STRING to those events is "
    "proved about Model/Tokenizer.v, the hand-written model of the installed tokenizer (tied by correspondence and pinned "
    "fingerprints in C18's check); C05_string_round_trip_partial's hypotheses (text_value (g s) = s; html.unescape "
    "(attr_inner (g s)) = s) and its conclusion are evaluated on every representable tree / every string met (commands "
    "5020, 5021; counts string_level_*), the html.unescape hypothesis against the real html.unescape",
    "entity substitution functions other than substitute_xml are parameters of the render model; in the correspondence "
    "they are passed as their recorded graph on the strings of the case (C09 proves them)",
    "CharsetMetaAttributeValue / ContentMetaAttributeValue.substitute_encoding results are recorded inputs (C08)",
    "the tree handed to the model is read from .contents (C01 ties .contents to the element chain decode() walks)",
]

FORMATTERS = ["minimal", "html"]
# empty_element_tags of the builders trees are also made and read back with: none at all; a few names of the tree's own;
# the HTML set without br / link / img
VOCABULARIES = [[], ["x-y", "b", "td"], sorted(set(G.HTMLTreeBuilder.DEFAULT_EMPTY_ELEMENT_TAGS) - {"br", "link", "img"})]
TIE_ONLY_FORMATTERS = ["html5", None]
CORPUS = os.path.join(os.path.dirname(os.path.dirname(os.path.dirname(os.path.abspath(__file__)))), "corpus", "C05")


def known_declaration(f):
    return f.get("tag") == "declaration-class"


def known_doctype_newline(f):
    return f.get("tag") == "doctype-newline"


KNOWN_MATCHERS = {"declaration_renders_as_pi": known_declaration,
                  "doctype_followed_by_text_gains_newline": known_doctype_newline}


def replay_known(ctx, k):
    """Does the listed finding's witness still fail on the current tree?"""
    if k.get("id") == "C05-doctype-newline-accumulates":
        with warnings.catch_warnings():
            warnings.simplefilter("ignore")
            out1 = G.parse(k["witness"]["markup"]).decode()
            out2 = G.parse(out1).decode()
            out3 = G.parse(out2).decode()
        return out3 != out2
    if k.get("id") == "C05-declaration-as-pi":
        with warnings.catch_warnings():
            warnings.simplefilter("ignore")
            soup = G.parse(k["witness"]["markup"])
            back = G.parse(soup.decode())
        return G.canon(back.contents) != G.normal(list(soup.contents))
    return False


def contains_cls(el, ids):
    return any((not isinstance(x, Tag)) and G.CLASS_ID[type(x)] in ids for x in G.all_elements(el))


class Batch:
    """Collects model commands with callbacks so that one modelrun call serves many cases."""

    def __init__(self, ctx):
        self.ctx = ctx
        self.cmds = []
        self.cbs = []

    def add(self, cmd, cb):
        self.cmds.append(cmd)
        self.cbs.append(cb)

    def flush(self):
        if self.cmds and self.ctx.build.model_ok:
            import common
            saved = common.enc
            common.enc = G.enc_iter           # same text, no recursion (deeply nested trees)
            try:
                res = self.ctx.model.run(self.cmds)
            finally:
                common.enc = saved
            for r, cb in zip(res, self.cbs):
                cb(r)
        self.cmds, self.cbs = [], []


def fmt_for(el, name):
    return el.formatter_for_name(name)


def describe(origin, el, fname, out):
    return {"origin": origin, "formatter": fname, "start": G.qname(el) if not isinstance(el, BeautifulSoup) else "[document]",
            "rendered": out}


def builder_kw(origin):
    """The builder configuration the tree was made with, to be used again for reading its rendering back."""
    return {"empty_element_tags": set(origin["void"])} if origin.get("void") is not None else {}


def check_tree(ctx, batch, origin, root, xml, parsed):
    """All checks for one tree. origin: dict describing how to rebuild it (markup / seed / builder configuration)."""
    rng = ctx.rng
    kw = builder_kw(origin)
    void = set(origin["void"]) if origin.get("void") is not None else G.HTML_VOID
    starts = [root]
    inner = [t for t in G.tags_of(root)[1:]]
    if inner:
        starts.append(rng.choice(inner))
    for el in starts:
        dumped = G.dump(el)
        texts = G.value_texts(el)
        # ---- _event_stream vs the model's loop (identity by path)
        iev = G.impl_events(el)
        for kind, p in iev:
            pass
        batch.add([5003, dumped], lambda r, iev=iev, origin=origin, el=el:
                  (r != iev) and ctx.disagree("Tag._event_stream ~ Model.Render.event_stream", describe(origin, el, None, None), iev, r))
        # an element with children is never announced (or spelled) as an empty-element tag
        ps = {tuple(p): k for k, p in iev}
        for fname in FORMATTERS + TIE_ONLY_FORMATTERS:
            try:
                f = fmt_for(el, fname)
            except KeyError:
                continue                       # the XML registry has no 'html5'
            out = el.decode(formatter=fname)
            case = describe(origin, el, fname, out)
            nontrivial = any(c in out for c in "&'\"") or "<!" in out or "<?" in out or out.count("<") >= 3
            ctx.case((out, fname), nontrivial=nontrivial)
            fe = G.enc_formatter(f, fname, texts)
            if isinstance(el, BeautifulSoup):
                # BeautifulSoup.decode: XML declaration first when the document is XML
                batch.add([5002, bool(el.is_xml), ["utf-8"], False, fe, True, [], dumped], lambda r, out=out, case=case:
                          (G_to_str(r) != out) and ctx.disagree("BeautifulSoup.decode ~ Model.Render.soup_decode", case, out, G_to_str(r)))
            else:
                batch.add([5000, fe, True, [], dumped], lambda r, out=out, case=case:
                          (G_to_str(r) != out) and ctx.disagree("Tag.decode ~ Model.Render.decode", case, out, G_to_str(r)))
            if el is root and rng.random() < 0.3:
                oc = el.decode_contents(formatter=fname)
                cmd = ([5002, bool(el.is_xml), ["utf-8"], True, fe, True, [], dumped] if isinstance(el, BeautifulSoup)
                       else [5001, fe, True, [], dumped])
                batch.add(cmd, lambda r, oc=oc, case=case:
                          (G_to_str(r) != oc) and ctx.disagree("decode_contents ~ Model.Render.decode_contents", case, oc, G_to_str(r)))
            if fname not in FORMATTERS:
                continue
            # ---------------- direct oracle
            oracle(ctx, case, el, fname, out, xml, parsed, kw, void)
            # ---------------- the token level: spelling, the reader, the promised tree
            body = out[len(XML_DECL):] if (isinstance(el, BeautifulSoup) and el.is_xml) else out
            batch.add([5009, fe, True, dumped], lambda r, body=body, case=case:
                      (G_to_str(r) != body) and ctx.disagree("rendering ~ spelled tokens (Model.Reparse.tokens / spell)", case, body, G_to_str(r)))
            py_rep = (not any(t.name in void and t.contents for t in G.tags_of(el))) if parsed else (G.representable(el, xml, void) is None)
            if py_rep:
                token_level(ctx, batch, case, el, fe, dumped, body, fname, kw, origin.get("void"))
    if len(ctx.samples) < 4 and root.contents:
        ctx.sample({"origin": origin, "rendered_minimal": root.decode()[:300]})


XML_DECL = '<?xml version="1.0" encoding="utf-8"?>\n'
CHECK = []


def token_level(ctx, batch, case, el, fe, dumped, body, fname, kw, void):
    if not CHECK:
        CHECK.append(G.startend_checks_closed())
    chk = CHECK[0]
    try:
        back, log = G.parse_logged(body, **kw)
    except G.ParserRejectedMarkup:
        return
    ctx.count("token_level_cases")
    want_ev = G.canon_events(log)
    if void is not None:
        custom_token_level(ctx, batch, case, fe, dumped, chk, sorted(void), want_ev, G.flat_impl(back))
        return
    batch.add([5005, fe, True, chk, dumped], lambda r, want_ev=want_ev, case=case:
              (G.canon_events(G.dec_model_events(r)) != want_ev) and
              ctx.disagree("html.parser's events on the rendering ~ Model.Reparse.read_tokens", case, want_ev[:12],
                           G.canon_events(G.dec_model_events(r))[:12]))
    flat = G.flat_impl(back)
    batch.add([5006, fe, True, dumped], lambda r, flat=flat, case=case:
              (G.dec_model_flat(r) != flat) and
              ctx.disagree("re-parsed tree ~ Spec.RoundTrip.norm", case, flat[:12], G.dec_model_flat(r)[:12]))
    batch.add([5008, fe, True, chk, dumped], lambda r, flat=flat, case=case:
              (G.dec_model_flat(r) != flat) and
              ctx.disagree("re-parsed tree ~ spec_run (read_tokens (tokens t)) (conclusion of roundtrip_tokens, evaluated)", case,
                           flat[:12], G.dec_model_flat(r)[:12]))
    try:
        flat2 = G.flat_impl(G.parse(back.decode(formatter=fname)))
    except G.ParserRejectedMarkup:
        flat2 = None
    if flat2 is not None:
        batch.add([5010, fe, True, dumped], lambda r, flat2=flat2, case=case:
                  (G.dec_model_flat(r) != flat2) and
                  ctx.disagree("tree after a second round trip ~ norm (doc (norm t))", case, flat2[:12], G.dec_model_flat(r)[:12]))
    # (only where the model has the substitution function itself or does not need it: a recorded graph does not
    #  cover the merged / whitespace-normalised texts of the re-parsed tree)
    if fe[0] == 1 or fe[3]:
      batch.add([5011, fe, True, chk, dumped], lambda r, case=case:
                (r != 1) and ctx.disagree("the re-parsed tree is representable content again (Spec.RoundTrip.representable_top (doc (norm t)), evaluated)",
                                          case, True, r))
    batch.add([5007, fe, chk, dumped], lambda r, case=case:
              (r != 1) and ctx.disagree("representable content (oracle's reading) => Spec.RoundTrip.representable_top", case, True, r))
    string_level(ctx, batch, case, el, fe, dumped, chk, flat)


STRING_NAME = ("Props.C05 C05_string_round_trip_partial, evaluated: for a tree whose tokens are in the covered sub-domain, "
               "spec_run (adapter (tokenizer (decode t))) = norm t = the tree the real parser builds from the rendering")
HYP_SEEN = set()
STRING_CALLS = [0]


def string_level(ctx, batch, case, el, fe, dumped, chk, flat):
    """The string-level round trip (tokenizer model on the rendered string): hypotheses and conclusion evaluated by the
    model on this tree (command 5020), and the theorem's hypotheses about the substitution function evaluated on every
    string of the tree (command 5021), the one about html.unescape also against the real html.unescape."""
    import html
    STRING_CALLS[0] += 1
    if ctx.thorough and STRING_CALLS[0] % 2:       # thorough tier: every second tree (the budget of the check)
        return

    def done(r):
        cov, rep, notrej, got, promised = r
        ctx.count("string_level_trees")
        if cov != 1:
            ctx.count("string_level_outside_subdomain")
            return
        ctx.count("string_level_covered")
        if rep != 1:
            return
        if notrej != 1 or got != promised or G.dec_model_flat(got) != flat:
            ctx.disagree(STRING_NAME, case, flat[:12], [notrej, G.dec_model_flat(got)[:12], G.dec_model_flat(promised)[:12]])
    batch.add([5020, fe, True, chk, dumped], done)
    if os.environ.get("TK_WHY"):          # development aid: why trees fall outside the sub-domain
        batch.add([5022, fe, True, chk, dumped], lambda w: [ctx.count("why_" + repr(x[:1] + [i for i, b in enumerate(x[1:]) if b == 0] if x[0] in (0, 1, 2) else x[:2] if x[0] == 4 else x[:1])) for x in w])
    texts = sorted(t for t in G.value_texts(el) if (fe[0], t) not in HYP_SEEN)[:40]
    if not texts or fe[0] == 0:
        return
    for t in texts:
        HYP_SEEN.add((fe[0], t))

    def hyps(r, texts=texts):
        for s, (rt_ok, ra_ok, inner) in zip(texts, r):
            ctx.count("string_level_hypotheses_evaluated")
            inner = "".join(map(chr, inner))
            real = html.unescape(inner) if inner else inner
            if rt_ok != 1:
                ctx.disagree("text_value (g s) = s (hypothesis of C05_string_round_trip_partial: what the parser makes of the "
                             "substituted text is the text)", dict(case, string=s), s, rt_ok)
            if (ra_ok == 1) != (real == s):
                ctx.disagree("html.unescape on attr_inner (g s) ~ the model's (hypothesis of C05_string_round_trip_partial)",
                             dict(case, string=s), real, ra_ok)
    batch.add([5021, fe, texts], hyps)


def custom_token_level(ctx, batch, case, fe, dumped, chk, void, want_ev, flat):
    """The token-level tie for a builder with its own empty-element tags (the theorems are parametric in them)."""
    batch.add([5012, void, fe, True, chk, dumped], lambda r:
              (G.canon_events(G.dec_model_events(r)) != want_ev) and
              ctx.disagree("html.parser's events on the rendering ~ Model.Reparse.read_tokens (builder's own empty-element tags)",
                           case, want_ev[:12], G.canon_events(G.dec_model_events(r))[:12]))
    batch.add([5013, void, fe, True, dumped], lambda r: (G.dec_model_flat(r) != flat) and
              ctx.disagree("re-parsed tree ~ Spec.RoundTrip.norm (builder's own empty-element tags)", case, flat[:12], G.dec_model_flat(r)[:12]))
    batch.add([5014, void, fe, True, chk, dumped], lambda r: (G.dec_model_flat(r) != flat) and
              ctx.disagree("re-parsed tree ~ spec_run (read_tokens (tokens t)) (builder's own empty-element tags)", case,
                           flat[:12], G.dec_model_flat(r)[:12]))


def G_to_str(r):
    if isinstance(r, tuple):
        return r
    return "".join(map(chr, r))


def oracle(ctx, case, el, fname, out, xml, parsed, kw={}, void=G.HTML_VOID):
    # (1) an element that has children is never rendered as an empty-element tag
    for t in G.tags_of(el):
        if t.contents and not t.hidden:
            s = t.decode(formatter=fname)
            if not s.endswith("</%s>" % G.qname(t)) or s.startswith("<%s/>" % G.qname(t)):
                ctx.fail(case, "an element with children is rendered without its end tag", s[:200], "...</%s>" % G.qname(t))
    for ev, x in el._event_stream():
        if ev is Tag.EMPTY_ELEMENT_EVENT and x.contents:
            ctx.fail(case, "an element with children is announced as an empty-element tag", G.qname(x), None)
    # (2) text inside script/style is emitted verbatim (HTML-flavoured trees)
    if not xml:
        for t in G.tags_of(el):
            if t.name in ("script", "style") and t.contents and all(
                    (not isinstance(c, Tag)) and G.CLASS_ID[type(c)] in G.TEXT_CLASSES for c in t.contents):
                want = "".join(str.__str__(c) for c in t.contents)
                got = t.decode_contents(formatter=fname)
                if got != want:
                    ctx.fail(case, "text inside <%s> is not emitted verbatim" % t.name, got, want)
    # (3) round trip
    if parsed:
        # a parsed tree is representable by construction, except that the unfixed C04 defect (<br> then <br/>)
        # can leave children under a void element
        why = "void element with children" if any(t.name in void and t.contents for t in G.tags_of(el)) else None
    else:
        why = G.representable(el, xml, void)
    if why is not None:
        ctx.count("not_representable")
        return
    tagged = None
    try:
        back = G.parse(out, **kw)          # read back by a builder configured like the one the tree came from
    except G.ParserRejectedMarkup as e:
        ctx.fail(case, "the rendering is rejected by the parser", repr(e)[:200], None)
        return
    lead = ()
    if isinstance(el, BeautifulSoup) and el.is_xml:
        # BeautifulSoup.decode puts the XML declaration in front; html.parser reads it back as a processing instruction
        lead = (("special", "ProcessingInstruction", 'xml version="1.0" encoding="utf-8"?'), "\n")
    want = G.normal(G.top_children(el), lead=lead)
    got = G.canon(back.contents)
    if got != want:
        if contains_cls(el, (5,)) and got == G.normal(G.top_children(el), lead=lead, declaration_as_pi=True):
            # known finding: a Declaration (html.parser's unknown_decl, e.g. <![if IE]>) is written as <?...?>
            # and comes back as a ProcessingInstruction; nothing else differs
            tagged = "declaration-class"
        ctx.fail(case, "re-parsing the rendering does not give the same tree back", got, want, tag=tagged)
        return
    # (4) a second round trip changes nothing
    out2 = back.decode(formatter=fname)
    back2 = G.parse(out2, **kw)
    out3 = back2.decode(formatter=fname)
    if out3 != out2:
        ctx.fail(case, "parse-then-render is not idempotent (text)", out3, out2,
                 tag="doctype-newline" if doctype_newline_only(back, out2, out3) else None)
    elif tuple(G.exact(c) for c in back2.contents) != tuple(G.exact(c) for c in back.contents):
        ctx.fail(case, "parse-then-render is not idempotent (tree)", [G.exact(c) for c in back2.contents],
                 [G.exact(c) for c in back.contents])


_DT = re.compile(r"(<!DOCTYPE [^>]*>)\n+")


def doctype_newline_only(back, out2, out3):
    """Known finding C05-doctype-newline-accumulates, exactly: the re-parsed tree has a Doctype immediately followed by
    a text node (NavigableString or a string container's class) that starts with a newline and is not a stable whitespace-only run (not whitespace-only,
    or inside a whitespace-preserving element where nothing collapses), and the two renderings differ in nothing but
    the number of newlines after doctypes."""
    def unstable(d):
        t = d.next_sibling
        if t is None or isinstance(t, Tag) or G.CLASS_ID.get(type(t)) not in G.TEXT_CLASSES or not t.startswith("\n"):
            return False
        ws_only = all(c in G.ASCII_WS for c in t)
        preserved = any(G.qname(a) in G.HTML_PW for a in d.parents if isinstance(a, Tag))
        return (not ws_only) or preserved
    has = any(isinstance(x, G.Doctype) and unstable(x) for x in G.all_elements(back))
    return has and _DT.sub(r"\1\n", out2) == _DT.sub(r"\1\n", out3)


def corpus_cases():
    out = []
    if os.path.isdir(CORPUS):
        for fn in sorted(os.listdir(CORPUS)):
            if fn.endswith(".json"):
                out.append(json.load(open(os.path.join(CORPUS, fn))))
    return out


def build_from_origin(origin):
    import random
    kind = origin["kind"]
    kw = builder_kw(origin)
    if kind in ("doc", "soup", "corpus-markup"):
        return G.parse(origin["markup"], **kw), False, True
    if kind == "api":
        rng = random.Random(origin["seed"])
        return G.gen_api_tree(rng, xml=origin["xml"], rich=origin.get("rich", True), void=origin.get("void")), origin["xml"], False
    if kind == "edit":
        rng = random.Random(origin["seed"])
        return G.gen_api_tree(rng, start=G.parse(origin["markup"], **kw), rich=origin.get("rich", True)), False, False
    raise ValueError(kind)


def run(ctx):
    rng = ctx.rng
    batch = Batch(ctx)
    with warnings.catch_warnings():
        warnings.simplefilter("ignore")
        G.warm_up()
        origins = []
        for c in corpus_cases():
            origins.append(c["origin"])
        n_doc, n_soup, n_api, n_edit = (8000, 4000, 16000, 5000) if ctx.thorough else (700, 400, 1400, 400)
        import random
        for _ in range(n_doc):
            origins.append({"kind": "doc", "markup": G.gen_doc(rng)})
        for _ in range(n_soup):
            origins.append({"kind": "soup", "markup": G.gen_soup(rng)})
        for i in range(n_api):
            origins.append({"kind": "api", "seed": rng.randrange(1 << 40), "xml": i % 3 == 0, "rich": i % 4 != 1})
        for _ in range(n_edit):
            origins.append({"kind": "edit", "markup": G.gen_doc(rng), "seed": rng.randrange(1 << 40), "rich": rng.random() < 0.5})
        # builders with their own empty-element tags (feed-like / XML-flavoured vocabularies handled by html.parser):
        # the rendering is read back by a builder configured the same way
        for i in range(n_api // 4):
            v = VOCABULARIES[i % len(VOCABULARIES)]
            origins.append({"kind": "api", "seed": rng.randrange(1 << 40), "xml": False, "rich": i % 3 != 1, "void": v})
        for i in range(n_doc // 4):
            v = VOCABULARIES[i % len(VOCABULARIES)]
            origins.append({"kind": "doc", "markup": G.gen_doc(rng), "void": v})
        for i in range(n_edit // 4):
            v = VOCABULARIES[i % len(VOCABULARIES)]
            origins.append({"kind": "edit", "markup": G.gen_doc(rng), "seed": rng.randrange(1 << 40), "rich": False, "void": v})
        for k, origin in enumerate(origins):
            try:
                root, xml, parsed = build_from_origin(origin)
            except G.ParserRejectedMarkup:
                ctx.count("rejected_by_parser")      # C06's subject
                continue
            ctx.count("trees_" + origin["kind"])
            check_tree(ctx, batch, origin, root, xml, parsed)
            if len(batch.cmds) > 4000:
                batch.flush()
        batch.flush()


def replay(ctx, data):
    class B:
        model_ok = os.path.exists(ctx.model.exe)
        proof_ok = True
    ctx.build = B()
    f = data.get("failure") or {}
    case = f.get("case") or ((data.get("disagreements") or [{}])[0].get("case"))
    if not case:
        print("nothing to replay")
        return 1
    origin = case["origin"]
    batch = Batch(ctx)
    with warnings.catch_warnings():
        warnings.simplefilter("ignore")
        G.warm_up()
        root, xml, parsed = build_from_origin(origin)
        import random
        ctx.rng = random.Random(0)
        for _ in range(8):
            check_tree(ctx, batch, origin, root, xml, parsed)
        batch.flush()
    for x in ctx.failures[:3]:
        print("FAIL", json.dumps(x, default=repr)[:1500])
    for x in ctx.disagreements[:3]:
        print("DISAGREE", json.dumps(x, default=repr)[:1500])
    return 1 if (ctx.failures or ctx.disagreements) else 0
