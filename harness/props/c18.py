"""C18 — sourceline / sourcepos give each tag's true position in the parsed text.

Direct oracle: the writer of harness/props/c04.py records the offset of every start tag's '<'; every tag's
(sourceline, sourcepos) must be the 1-based line / 0-based column of that offset (lines end at '\\n'), and None /
None with store_line_numbers=False.  For arbitrary (malformed) input the weaker, writer-free form is checked: the
text at the reported position is '<' + the tag's name, and positions increase in document order.
Correspondence: Model.Adapter.tag_positions on the recorded callbacks (the adapter hands getpos() on unchanged or
drops it), Model.Pos.true_pos (the property's notion) against the Python statement, and Model.Pos.updatepos against
the standard library's own position tracking on the recorded token slices.
"""
from bs4 import BeautifulSoup
import itertools, warnings
import common, tokrec
from props import c04

RULE = ("documents from the C04 writer (tags after multi-line text, comments, CDATA, references, other tags on the same "
        "line, inside pre/script, attributes containing newlines, \\r\\n, self-closing and void spellings) plus a "
        "newline-heavy generator; exhaustive: every concatenation of <= 5 (quick) / <= 6 (thorough) pieces of {<a>, "
        "<b/>, newline, x, <!--newline-->, &amp;, </a>}; token soup and mutations (position points at '<name', "
        "increasing); each with store_line_numbers=True, =False and not passed (default: on). Non-trivial: >= 2 tags and >= 1 newline. Distinct by "
        "(setting, markup).")
ASSUMPTIONS = [
    "the standard library's tokenizer (html/parser.py + _markupbase.py of the running interpreter, convert_charrefs=False, "
    "feed then close) is represented by the hand-written Model/Tokenizer.v; the tie is (a) correspondence on every input of "
    "this harness against both the plain HTMLParser and the BeautifulSoupHTMLParser object inside BeautifulSoup(...), "
    "(b) fingerprints of every pattern string and method source the model follows, pinned by a proof (Props/C18.v "
    "C18_tok_patterns_pinned / C18_tok_sources_pinned), (c) \\s and re.IGNORECASE tables measured over all code points",
    "html.unescape (attribute values) is a parameter of the tokenizer model: the harness applies Python's html.unescape to "
    "the model's raw attribute values before comparing",
    "str.lower() on tag / attribute names: the model lower-cases ASCII letters; the harness applies Python's lower() to the "
    "model's names before comparing (exact because lower(ascii_lower(s)) = lower(s); the translator checks that no "
    "non-ASCII character lower-cases to an ASCII letter the tokenizer compares with: script, style, doctype, marked-section keywords)",
    "input alphabet of the tokenizer correspondence: see coverage.tokenizer_model.alphabet; no input is skipped as unmodelled "
    "(the model covers every branch of goahead incl. AssertionError exits); lone surrogates are not generated",
    "Model.Pos.updatepos mirrors _markupbase.ParserBase.updatepos and is compared with the recorded token slices",
]

PIECES = ["<a>", "<b/>", "\n", "x", "<!--\n-->", "&amp;", "</a>"]
NL_ALPHA = ["\n", "\n\n", "x", " ", "<p>", "</p>", "<br>", "<br/>", "<i\nclass='a\nb'>", "</i>", "<!--a\nb-->",
            "<![CDATA[x\ny]]>", "&amp;", "&#10;", "\r\n", "\r", "<pre>\n", "</pre>", "<script>a\n\nb</script>", "<img alt=\"\n\">",
            "<?pi\n?>", "<!DOCTYPE\nhtml>", "text", "é", "\U0001f600", "<td\n>", "</td\n>", "\x0c", "\x0b", " ", "\x85"]


def tags_of(shape):
    return c04.positions(shape)


def offset_of(text, pos):
    """Offset of (line, col) in text, or None."""
    line, col = pos
    i = 0
    for _ in range(line - 1):
        j = text.find("\n", i)
        if j < 0:
            return None
        i = j + 1
    return i + col


TOK_NAME_BS4 = ("BeautifulSoupHTMLParser inside BeautifulSoup(...) (top-level callbacks with getpos(), consumed slices) ~ "
                "Model.Tokenizer.tokenize")


def check_batch(ctx, items):
    cmds_pos, cmds_lc, cmds_tok, rows = [], [], [], []
    tok_rows = []
    for c, markup, kind, tags in items:
        for setting in (True, False, None):           # None: the option is not passed (the builder's default: on)
            kwargs = dict(c["kwargs"])
            kwargs.pop("store_line_numbers", None)
            if setting is not None:
                kwargs["store_line_numbers"] = setting
            store = setting is not False
            cc = dict(c, store=store, kwargs=kwargs)
            plain = c04.parse_plain(markup, kwargs)
            if isinstance(plain, str):
                ctx.case((setting, markup), nontrivial=False)
                ctx.count("rejected_inputs")
                continue
            got = tags_of(c04.impl_shape(plain))
            case = {"config": c["name"], "store_line_numbers": setting, "markup": markup, "kind": kind}
            ctx.case((c["name"], setting, markup), nontrivial=len(got) >= 2 and "\n" in markup)
            ctx.count("kind_" + kind)
            if not store:
                bad = [(n, p) for n, p in got if p is not None]
                if bad:
                    ctx.fail(case, "store_line_numbers=False but a tag has a position", bad[:3], None, tag="store-off")
            else:
                if tags is not None:
                    exp = [(n, tuple(p)) for n, p in tags]
                    if got != exp:
                        ctx.fail(case, "sourceline/sourcepos differ from the offsets the writer recorded",
                                 c04.first_diff(got, exp), None, tag="writer-offset")
                last = -1
                for n, p in got:
                    off = None if p is None else offset_of(markup, p)
                    ok = (off is not None and markup[off:off + 1] == "<"
                          and markup[off + 1:off + 1 + len(n)].lower() == n and off > last)
                    if not ok:
                        ctx.fail(case, "a tag's position is not where its start tag's '<' appears", (n, p), None, tag="points-at")
                        break
                    last = off
            if setting is None:
                continue
            # correspondence with the model, on the recorded callbacks
            soup, log = c04.parse_logged(markup, kwargs)
            if isinstance(soup, str) or tags_of(c04.impl_shape(soup)) != got:
                ctx.disagree("recording parser ~ plain parser (positions)", case, None, None)
                continue
            cmds_pos.append([18002, c04.enc_acfg(cc), [c04.enc_hev(h) for h in log.hevs]])
            rows.append((case, got, log))
            if setting is True:
                tok_rows.append((case, markup, log))
            if store:
                offs = sorted({0, len(markup)} | {o for o in (offset_of(markup, p) for _, p in got if p is not None) if o is not None}
                              | {i for i, ch in enumerate(markup) if ch == "\n"} | {i + 1 for i, ch in enumerate(markup) if ch == "\n"})
                offs = [o for o in offs if o <= len(markup)][:60]
                cmds_lc.append(([18000, markup, offs], case, offs, markup))
                if "".join(t for t, _ in log.toks) == markup:
                    cmds_tok.append(([18001, [t for t, _ in log.toks] + [""]], case, log.toks))
                else:
                    ctx.count("token_slices_not_contiguous")
    if not ctx.build.model_ok:
        return
    # the tokenizer model against the real parser object bs4 drives (bs4's overrides on the path)
    for (case, markup, log), m in zip(tok_rows, ctx.model.run([[18003, r[1]] for r in tok_rows])):
        mod = tokrec.decode_model(m)
        ctx.count("tok_bs4_inputs")
        if mod["status"] != 0:
            ctx.disagree(TOK_NAME_BS4, case, "parsed", "model status %d" % mod["status"])
            continue
        a, b = tokrec.flatten_log(log.hevs), tokrec.flatten_model(mod)
        if a != b:
            ctx.disagree(TOK_NAME_BS4, case, c04.first_diff(a, b), None)
            continue
        sa = [[s, list(p)] for s, p in log.toks]
        sb = [[it[2], nxt] for it, nxt in zip(mod["items"], [x[1] for x in mod["items"][1:]] + [mod["pos"]])]
        if sa != sb:
            ctx.disagree(TOK_NAME_BS4 + " (slices)", case, c04.first_diff(sa, sb), None)
    for (case, got, log), m in zip(rows, ctx.model.run(cmds_pos)):
        mp = [(c04._s(n), tuple(p[0]) if p else None) for n, p in m[0]]
        if mp != got or m[1] != 1:
            ctx.disagree("Tag.sourceline/sourcepos ~ Model.Adapter.tag_positions (recorded getpos handed on)", case,
                         c04.first_diff(got, mp), None)
    for (cmd, case, offs, markup), m in zip(cmds_lc, ctx.model.run([x[0] for x in cmds_lc])):
        exp = [list(c04.linecol(markup, o)) for o in offs]
        if m != exp:
            ctx.disagree("line/column of an offset (Python statement) ~ Model.Pos.true_pos", case, exp[:5], m[:5])
    for (cmd, case, toks), m in zip(cmds_tok, ctx.model.run([x[0] for x in cmds_tok])):
        running, true = m
        after = [list(p) for _, p in toks]
        if running[1:] != after:
            ctx.disagree("_markupbase.updatepos (recorded getpos after each consumed slice) ~ Model.Pos.updatepos", case,
                         c04.first_diff(after, running[1:]), None)
        if running != true:
            ctx.disagree("Props.C18 compositionality, evaluated: running positions = true positions of the token offsets",
                         case, None, None)


def run(ctx):
    rng = ctx.rng
    items = []

    seen_markup = []

    def add(c, markup, kind, tags=None):
        items.append((c, markup, kind, tags))
        seen_markup.append(markup)
        if len(items) >= 1000:
            check_batch(ctx, items)
            del items[:]
    default = c04.CONFIG["default"]
    test_doc = "\n   <p>\n\n<sourceline>\n<b>text</b></sourceline><sourcepos></p>"      # the suite's own example
    add(default, test_doc, "corpus")
    add(default, "<a>\n<b/>\n\n\n\n<c>", "corpus")       # line == column cases
    L = 6 if ctx.thorough else 5
    for n in range(L + 1):
        for combo in itertools.product(PIECES, repeat=n):
            add(default, "".join(combo), "exhaustive")
    ctx.extra_cov["exhaustive"] = True
    ctx.extra_cov["exhaustive_scope"] = "all concatenations of <= %d pieces of %r, store_line_numbers on and off" % (L, PIECES)
    n_docs = 2500 if ctx.thorough else 220
    sampled = 0
    for i in range(n_docs):
        for c in c04.CONFIGS:
            if c["name"] in ("dup-replace", "dup-ignore", "mva-custom"):
                continue
            doc = c04.gen_doc(rng, c)
            markup, dn, tags = c04.write_doc(rng, c, doc)
            add(c, markup, "written", tags=tags)
            if sampled < 3 and markup.count("\n") >= 3 and len(tags) >= 3:
                sampled += 1
                ctx.sample({"markup": markup[:240], "tags": tags[:6]})
            if i % 3 == 0:
                add(c, c04.mutate(rng, markup), "mutated")
    for i in range(20000 if ctx.thorough else 1500):
        add(default, "".join(rng.choice(NL_ALPHA) for _ in range(rng.randint(1, 12))), "newlines")
    for i in range(10000 if ctx.thorough else 800):
        add(c04.CONFIGS[i % len(c04.CONFIGS)], c04.gen_soup(rng) + ("\n" if i % 2 else "") + c04.gen_soup(rng), "soup")
    check_batch(ctx, items)
    tokenizer_correspondence(ctx, rng, seen_markup)
    reused_builder(ctx, rng)
    builder_configurations(ctx, rng)
    decoded_text_positions(ctx, rng)


def tokenizer_correspondence(ctx, rng, seen_markup):
    """Model.Tokenizer (the model of the installed html/parser.py + _markupbase.py the C18 / C04 string-level theorems are
    about) against the plain standard-library parser, on: every markup of the main stream, the documented malformed
    stream (tokrec.ALPHA / tokrec.PIECES), and every string of length <= 4 (quick) / 5 (thorough) over tokrec.SMALL_ALPHA."""
    n = 5 if ctx.thorough else 4
    s1 = tokrec.run_correspondence(ctx, seen_markup, "docs")
    s2 = tokrec.run_correspondence(ctx, (tokrec.gen_random(rng) for _ in range(120000 if ctx.thorough else 8000)), "random")
    s3 = tokrec.run_correspondence(ctx, tokrec.exhaustive_small(n), "small")
    ctx.extra_cov["tokenizer_model"] = {
        "documents_of_main_stream": s1, "malformed_stream": s2, "exhaustive": s3,
        "exhaustive_scope": "every string of length <= %d over %r" % (n, tokrec.SMALL_ALPHA),
        "alphabet": "ASCII: every character the tokenizer's patterns mention, letters of both cases, digits, NUL, the "
                    "control characters \\t \\n \\x0b \\x0c \\r \\x1c; non-ASCII: plain (e-acute, snowman, an astral "
                    "character), Unicode whitespace (\\x85 \\xa0 U+2028 U+3000), characters re.IGNORECASE folds to ASCII "
                    "(U+017F U+0130 U+0131 U+212A), upper-case non-ASCII letters (E-acute, Sigma) and sharp s",
        "skipped_as_unmodelled": 0,
        "construct_counts": "see counts tok_<stream>_<construct>"}
    if not ctx.samples or len(ctx.samples) < 6:
        ctx.sample({"tokenizer_model_streams": {"docs": s1, "random": s2, "small": s3}})


def decoded_text_positions(ctx, rng):
    """Positions refer to the text that is parsed: a str starting with U+FEFF is parsed as it is, and bytes input is
    parsed as its decoding - nothing may be removed from or inserted into the text before the tokenizer sees it."""
    default = c04.CONFIG["default"]
    variants = 0
    for i in range(200 if ctx.thorough else 40):
        markup, dn, tags = c04.write_doc(rng, default, c04.gen_doc(rng, default))
        if not tags:
            continue
        cases = [("str with leading U+FEFF", "\ufeff" + markup, {}, None),
                 ("str with U+FEFF after a newline", "\n\ufeff" + markup, {}, None)]
        curly = "\u201c\u2014\u2026\u20ac" + markup
        try:
            cases.append(("windows-1252 bytes, from_encoding", curly, {"from_encoding": "windows-1252"}, curly.encode("windows-1252")))
            cases.append(("windows-1252 bytes, from_encoding=cp1252", curly, {"from_encoding": "cp1252"}, curly.encode("windows-1252")))
        except UnicodeEncodeError:
            pass
        try:
            cases.append(("utf-8 bytes", "\u201c\u00e9" + markup, {}, ("\u201c\u00e9" + markup).encode("utf-8")))
        except UnicodeEncodeError:
            pass
        for kind, text, kw, data in cases:
            soup = c04.parse_plain(text if data is None else data, kw)
            if isinstance(soup, str):
                continue
            got = tags_of(c04.impl_shape(soup))
            case = {"markup": text, "kind": kind, "config": "default", "store_line_numbers": None}
            ctx.case(("decoded", kind, text), nontrivial=len(got) >= 2)
            variants += 1
            last = -1
            for n, p in got:
                off = None if p is None else offset_of(text, p)
                if not (off is not None and text[off:off + 1] == "<" and text[off + 1:off + 1 + len(n)].lower() == n and off > last):
                    ctx.fail(case, "a tag's position is not where its start tag's '<' appears in the parsed text (%s)" % kind,
                             (n, p), None, tag="decoded-text")
                    break
                last = off
    ctx.count("decoded_text_position_cases", variants)


def builder_configurations(ctx, rng):
    """The two settings of store_line_numbers belong to the builder that parses the document, whatever route the setting
    took to it and whatever that builder or the caller's argument objects were used for before: a parser_kwargs dict shared
    between calls, a subclass of the builder (also one that declares is_xml), a builder instance used for a second document
    while the first is still alive, after a rejected document, and the builder of a document restored from a pickle."""
    import pickle
    from bs4.builder._htmlparser import HTMLParserTreeBuilder
    from bs4.exceptions import ParserRejectedMarkup
    default = c04.CONFIG["default"]

    class PlainSubclass(HTMLParserTreeBuilder):
        pass

    class XMLFlavoured(HTMLParserTreeBuilder):
        is_xml = True

    def positions_ok(case, soup, markup, stored, what):
        got = [(t.name, (t.sourceline, t.sourcepos)) for t in soup.find_all(True)]
        ctx.case(("builder-config", what, stored, markup), nontrivial=len(got) >= 2)
        last = -1
        for n, p in got:
            if not stored:
                if p != (None, None):
                    ctx.fail(case, "store_line_numbers=False but a tag carries a position (%s)" % what, (n, p), (None, None), tag="builder-config")
                    return
                continue
            off = None if p[0] is None or p[1] is None else offset_of(markup, p)
            if not (off is not None and markup[off:off + 1] == "<" and markup[off + 1:off + 1 + len(n)].lower() == n.lower() and off > last):
                ctx.fail(case, "a tag's position is not where its start tag's '<' appears (%s)" % what, (n, p), None, tag="builder-config")
                return
            last = off

    def doc():
        while True:
            markup, dn, tags = c04.write_doc(rng, default, c04.gen_doc(rng, default))
            if len(tags) >= 2:
                return "\n" * rng.randint(0, 2) + markup

    rejected = ["<p>x</p><![foo[ y ]]>"]
    n = 0
    with warnings.catch_warnings():
        warnings.simplefilter("ignore")
        for i in range(40 if ctx.thorough else 8):
            # a parser_kwargs dict shared between constructor calls
            for order in ((False, None, True), (True, False, None), (None, False, True, False)):
                shared = {"convert_charrefs": False}
                for j, st in enumerate(order):
                    m = doc()
                    kw = {} if st is None else {"store_line_numbers": st}
                    soup = BeautifulSoup(m, "html.parser", parser_kwargs=shared, **kw)
                    positions_ok({"markup": m, "kind": "shared parser_kwargs, call #%d of %r" % (j, order), "config": "default",
                                  "store_line_numbers": st}, soup, m, st is not False, "shared parser_kwargs dict")
                    n += 1
            # builder subclasses, given as class or as instance
            for cls in (HTMLParserTreeBuilder, PlainSubclass, XMLFlavoured):
                for st in (None, True, False):
                    kw = {} if st is None else {"store_line_numbers": st}
                    for route in ("class", "instance"):
                        for as_bytes in (False, True):
                            m = doc()
                            try:
                                data = m.encode("ascii") if as_bytes else m
                            except UnicodeEncodeError:
                                data = m
                            soup = BeautifulSoup(data, builder=cls, **kw) if route == "class" else BeautifulSoup(data, builder=cls(**kw))
                            positions_ok({"markup": m, "kind": "builder=%s (%s)%s" % (cls.__name__, route, ", bytes" if as_bytes else ""),
                                          "config": "default", "store_line_numbers": st}, soup, m, st is not False,
                                         "builder %s given as %s" % (cls.__name__, route))
                            n += 1
            # one builder instance across documents
            for st in (False, True):
                b = HTMLParserTreeBuilder(store_line_numbers=st)
                keep = []
                for j in range(4):
                    m = doc()
                    soup = BeautifulSoup(m, builder=b)
                    keep.append(soup)
                    positions_ok({"markup": m, "kind": "builder instance, document #%d while earlier ones are alive" % j, "config": "default",
                                  "store_line_numbers": st}, soup, m, st, "builder instance reused")
                    n += 1
                    if j == 1:
                        for bad in rejected:
                            try:
                                BeautifulSoup(bad, builder=b)
                            except ParserRejectedMarkup:
                                pass
                            except Exception:
                                pass
                m = doc()
                original = BeautifulSoup(m, "html.parser", store_line_numbers=st)
                restored = pickle.loads(pickle.dumps(original))
                m2 = doc()
                soup = BeautifulSoup(m2, builder=restored.builder)
                positions_ok({"markup": m2, "kind": "builder of an unpickled document", "config": "default", "store_line_numbers": st},
                             soup, m2, st, "builder of an unpickled document")
                n += 1
    ctx.count("builder_configuration_cases", n)


def reused_builder(ctx, rng):
    """One builder object used for several documents in a row (BeautifulSoup(doc, builder=b)): positions in every
    document must still be those of that document's own text (nothing carries over from the previous parse)."""
    from bs4.builder._htmlparser import HTMLParserTreeBuilder
    default = c04.CONFIG["default"]
    b = HTMLParserTreeBuilder()
    for i in range(300 if ctx.thorough else 60):
        markup, dn, tags = c04.write_doc(rng, default, c04.gen_doc(rng, default))
        if i % 2:
            markup = "\n" * rng.randint(0, 3) + markup
            tags = None
        with warnings.catch_warnings():
            warnings.simplefilter("ignore")
            try:
                soup = BeautifulSoup(markup, builder=b)
            except Exception as e:
                ctx.fail({"markup": markup, "kind": "reused-builder", "config": "default", "store_line_numbers": None},
                         "parsing with a reused builder raised %s" % type(e).__name__, None, None, tag="reused-builder")
                continue
        got = tags_of(c04.impl_shape(soup))
        fresh = c04.parse_plain(markup, {})
        exp = tags_of(c04.impl_shape(fresh)) if not isinstance(fresh, str) else None
        case = {"markup": markup, "kind": "reused-builder document #%d" % i, "config": "default", "store_line_numbers": None}
        ctx.case(("reused", i, markup), nontrivial=len(got) >= 2)
        last = -1
        for n, p in got:
            off = None if p is None else offset_of(markup, p)
            if not (off is not None and markup[off:off + 1] == "<" and markup[off + 1:off + 1 + len(n)].lower() == n and off > last):
                ctx.fail(case, "with a builder object reused for a second document, a tag's position is not where its start tag's '<' appears",
                         (n, p), None, tag="reused-builder")
                break
            last = off
        if exp is not None and got != exp:
            ctx.fail(case, "positions differ between a reused builder and a fresh one", c04.first_diff(got, exp), None, tag="reused-builder")


def replay(ctx, data):
    f = data.get("failure") or {}
    case = f.get("case") or (data.get("disagreements") or [{}])[0].get("case")
    if not case or "markup" not in case:
        print("nothing to replay")
        return 1
    c = c04.CONFIG.get(case.get("config"), c04.CONFIG["default"])
    kwargs = dict(c["kwargs"])
    kwargs.pop("store_line_numbers", None)
    if case.get("store_line_numbers") is not None:
        kwargs["store_line_numbers"] = case["store_line_numbers"]
    soup = c04.parse_plain(case["markup"], kwargs)
    if isinstance(soup, str):
        print("parser outcome:", soup)
        return 1
    markup = case["markup"]
    bad = 0
    print("markup:", repr(markup))
    last = -1
    for n, p in tags_of(c04.impl_shape(soup)):
        if kwargs.get("store_line_numbers") is False:
            ok = p is None
        else:
            off = None if p is None else offset_of(markup, p)
            ok = off is not None and markup[off:off + 1] == "<" and markup[off + 1:off + 1 + len(n)].lower() == n and off > last
            last = off if off is not None else last
        print(" ", n, p, "ok" if ok else "WRONG")
        bad |= not ok
    print("VIOLATION reproduced" if bad else "no violation on the current tree")
    return 1 if bad else 0
