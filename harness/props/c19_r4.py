"""C19, round 4: the ways a caller can say which conversion is wanted. The documented signature is
UnicodeDammit(markup, known_definite_encodings, smart_quotes_to, is_html, exclude_encodings, user_encodings, override_encodings):
the conversion mode given positionally, by keyword, or through BeautifulSoup-free helper spellings must select the same
conversion, and every carrier spelling the library itself lists as a smart-quote encoding must be converted."""
import warnings
from bs4.dammit import UnicodeDammit
from props import c19


def extra(ctx):
    body = b"".join(b"<i>" + bytes([b]) + b"</i>" for b in range(0x80, 0xa0))
    n = 0
    for carrier in c19.CARRIERS:
        for mode in c19.MODES:
            ref, enc = c19.dammit(body, carrier, mode)              # keyword spelling, swept against the model elsewhere
            spellings = {
                "positional: UnicodeDammit(data, [carrier], mode)": lambda: UnicodeDammit(body, [carrier], mode),
                "positional with is_html: UnicodeDammit(data, [carrier], mode, False)": lambda: UnicodeDammit(body, [carrier], mode, False),
                "positional with is_html=True": lambda: UnicodeDammit(body, [carrier], mode, True),
                "tuple of encodings": lambda: UnicodeDammit(body, (carrier,), smart_quotes_to=mode),
                "carrier in upper case": lambda: UnicodeDammit(body, [carrier.upper()], smart_quotes_to=mode),
            }
            if enc is not None and enc.lower() == carrier.lower() and not (mode is None and carrier == "windows-1252"):
                # the carrier is reached only after another candidate has been tried and has failed (the bytes are not UTF-8)
                spellings["carrier tried second: known_definite_encodings=['utf-8', carrier]"] = \
                    lambda: UnicodeDammit(body, known_definite_encodings=["utf-8", carrier], smart_quotes_to=mode)
                spellings["carrier tried second: known_definite_encodings=['utf-8'], user_encodings=[carrier]"] = \
                    lambda: UnicodeDammit(body, known_definite_encodings=["utf-8"], user_encodings=[carrier], smart_quotes_to=mode)
                spellings["carrier tried third: ['ascii', 'utf-8', carrier]"] = \
                    lambda: UnicodeDammit(body, ["ascii", "utf-8", carrier], smart_quotes_to=mode)
                if carrier == "windows-1252":
                    spellings["no encoding named at all (utf-8 fails, windows-1252 is the fallback)"] = \
                        lambda: UnicodeDammit(body, smart_quotes_to=mode)
            for name, call in spellings.items():
                with warnings.catch_warnings():
                    warnings.simplefilter("ignore")
                    try:
                        d = call()
                        got = d.unicode_markup
                    except Exception as e:
                        got = "EXC:" + type(e).__name__
                ctx.case(("sq-spelling", carrier, mode, name))
                n += 1
                if got != ref:
                    ctx.fail({"document": "every byte 0x80-0x9f once, in <i> elements", "mode": mode, "carrier": carrier, "call": name},
                             "the same request spelled differently converts differently", got[:100] if isinstance(got, str) else got,
                             ref[:100] if isinstance(ref, str) else ref, tag="call-spelling")
    ctx.count("call_spelling_cases", n)
