"""C17 — attribute values. Correspondence with coq/Model/Attrs.v; direct oracle in Python."""
import itertools, re, warnings
from bs4 import BeautifulSoup
from bs4.builder import HTMLTreeBuilder
from bs4.builder._htmlparser import HTMLParserTreeBuilder
from bs4.element import (HTMLAttributeDict, XMLAttributeDict, AttributeDict, AttributeValueList,
                         NamespacedAttribute, Tag)

RULE = ("split: every string of length <=3 (quick) / <=4 (thorough) over {a, b, each of the 29 Unicode whitespace "
        "code points} capped by sampling, plus seeded random longer strings; table: attribute x element names in and "
        "around the multi-valued table under default / None / empty / custom maps; coercions: all value kinds "
        "(str, list, True, False, None, ints incl. 0 and negatives and big, floats incl. 0.0/-0.0/1e300) through "
        "HTMLAttributeDict, XMLAttributeDict and the plain dict, in sequences; duplicates: attribute lists with "
        "repeats under replace / ignore / callable, through the real parser. Non-trivial: contains whitespace / a "
        "table attribute / a non-str value / a repeated name. Distinct by input.")
ASSUMPTIONS = ["Python float formatting (str(float)) is taken from the interpreter",
               "tag names in the generator are ASCII (str.lower modelled on ASCII letters)",
               "re \\s set generated from the interpreter (Gen/Stdlib.v)"]

WS = [9, 10, 11, 12, 13, 28, 29, 30, 31, 32, 133, 160, 5760, 8192, 8193, 8194, 8195, 8196, 8197, 8198, 8199, 8200,
      8201, 8202, 8232, 8233, 8239, 8287, 12288]


def enc_val(v):
    if v is None:
        return [5]
    if isinstance(v, bool):
        return [2, v]
    if isinstance(v, int):
        return [3, v]
    if isinstance(v, float):
        return [4, str(v)]
    if isinstance(v, str):
        return [0, v]
    if isinstance(v, (list, tuple)):
        return [1, list(v)]
    raise TypeError(v)


def dec_val(m):
    t = m[0]
    if t == 0:
        return "".join(map(chr, m[1]))
    if t == 1:
        return ["".join(map(chr, x)) for x in m[1]]
    if t == 2:
        return bool(m[1])
    if t == 3:
        return m[1]
    if t == 4:
        return "FLOAT:" + "".join(map(chr, m[1]))
    return None


def dec_dict(m):
    return [("".join(map(chr, k)), dec_val(v)) for k, v in m]


def enc_key(k):
    if isinstance(k, NamespacedAttribute):
        return [str(k), [k.name] if k.name is not None else []]
    return [k, []]


def split_cases(ctx):
    rng = ctx.rng
    builder = HTMLParserTreeBuilder()
    alpha = ["a", "b"] + [chr(c) for c in WS]
    L = 4 if ctx.thorough else 3
    strings = []
    for n in range(L + 1):
        for combo in itertools.product(alpha, repeat=n):
            strings.append("".join(combo))
    if len(strings) > (200000 if ctx.thorough else 30000):
        strings = strings[:1000] + rng.sample(strings, 200000 if ctx.thorough else 30000)
    for _ in range(3000 if ctx.thorough else 600):
        strings.append("".join(rng.choice(["a", "bc", "é", "x-1", " ", " ", "  ", "\n", "\t", chr(rng.choice(WS)), "​", "&", "<"])
                               for _ in range(rng.randint(0, 12))))
    cmds = []
    impl = []
    for s in strings:
        got = builder._replace_cdata_list_attribute_values("p", {"class": s})["class"]
        impl.append(got)
        ctx.case(("split", s), nontrivial=any(ord(c) in WS for c in s))
        exp = s.split()           # independent: str.split() on the same whitespace notion
        if list(got) != exp or not isinstance(got, list):
            ctx.fail({"attribute": "class", "value": s}, "multi-valued attribute not stored as its whitespace-separated tokens",
                     repr(got), repr(exp))
        cmds.append([170, s])
    ctx.sample({"split_input": strings[len(strings) // 3], "stored": list(impl[len(strings) // 3])})
    if ctx.build.model_ok:
        for s, got, mv in zip(strings, impl, ctx.model.run(cmds)):
            m = ["".join(map(chr, t)) for t in mv]
            if list(got) != m:
                ctx.disagree("nonwhitespace_re.findall ~ Model.Attrs.split_ws", {"value": s}, list(got), m)
    # write-back: joined by single spaces, and that re-parses to the same list
    for toks in ([], ["a"], ["a", "b"], ["x-1", "é", "b"], ["a"] * 5):
        t = Tag(name="p", attrs={"class": list(toks)})
        out = t.decode()
        exp = '<p class="%s"></p>' % " ".join(toks)
        ctx.case(("join", tuple(toks)))
        if out != exp:
            ctx.fail({"class": toks}, "list value not written back joined by single spaces", out, exp)
        back = BeautifulSoup(out, "html.parser").p.get("class")
        if list(back or []) != toks and toks:
            ctx.fail({"class": toks}, "written-back multi-valued attribute does not re-parse to the same list", back, toks)


def table_cases(ctx):
    tags = ["a", "A", "link", "td", "th", "TD", "form", "object", "area", "icon", "iframe", "output", "div", "p",
            "tr", "base", "x", "*"]
    attrs = ["class", "accesskey", "dropzone", "rel", "rev", "headers", "accept-charset", "archive", "sizes",
             "sandbox", "for", "id", "href", "Class", "CLASS", "style", "rel2", "header", "data-x", "*"]
    documented = {"*": {"class", "accesskey", "dropzone"}, "a": {"rel", "rev"}, "link": {"rel", "rev"},
                  "td": {"headers"}, "th": {"headers"}, "form": {"accept-charset"}, "object": {"archive"},
                  "area": {"rel"}, "icon": {"sizes"}, "iframe": {"sandbox"}, "output": {"for"}}
    custom = {"*": {"id"}, "p": {"data-x", "class"}, "x": set()}
    configs = [("default", "USE_DEFAULT", documented), ("none", None, {}), ("empty", {}, {}), ("custom", custom, custom)]
    cmds, cases = [], []
    for cname, arg, expect in configs:
        b = HTMLParserTreeBuilder() if arg == "USE_DEFAULT" else HTMLParserTreeBuilder(multi_valued_attributes=arg)
        table = b.cdata_list_attributes
        for tag in tags:
            for a in attrs:
                for val in ("x  y\tz", ["p", "q"]):
                    d = {a: val, "zz": " keep  me "}
                    got = b._replace_cdata_list_attribute_values(tag, dict(d))
                    multi = a in expect.get("*", set()) or a in expect.get(tag.lower(), set())
                    exp = {a: (val.split() if (multi and isinstance(val, str)) else val), "zz": " keep  me "}
                    case = {"config": cname, "tag": tag, "attr": a, "value": val}
                    ctx.case(("tbl", cname, tag, a, repr(val)), nontrivial=multi)
                    if {k: (list(v) if isinstance(v, list) else v) for k, v in got.items()} != exp:
                        ctx.fail(case, "wrong set of attributes treated as multi-valued", repr(got), repr(exp))
                    tenc = [] if not table and table is None else [[[k, sorted(v)] for k, v in sorted(table.items())]] if table is not None else []
                    cmds.append([172, tenc, tag, [[enc_key(k), enc_val(v)] for k, v in d.items()]])
                    cases.append((case, [(k, list(v) if isinstance(v, list) else v) for k, v in got.items()]))
    # several multi-valued attributes in one tag, one of them already holding a list: every attribute is decided on its own
    for cname, arg, expect in configs:
        b = HTMLParserTreeBuilder() if arg == "USE_DEFAULT" else HTMLParserTreeBuilder(multi_valued_attributes=arg)
        table = b.cdata_list_attributes
        for tag in ("a", "td", "p"):
            for a1, a2 in itertools.permutations(["class", "rel", "headers", "id", "accesskey"], 2):
                d = {a1: ["p", "q"], a2: "x  y\tz", "zz": " keep  me "}
                got = b._replace_cdata_list_attribute_values(tag, dict(d))
                is_multi = lambda a: a in expect.get("*", set()) or a in expect.get(tag.lower(), set())
                exp = {a1: ["p", "q"], a2: ("x  y\tz".split() if is_multi(a2) else "x  y\tz"), "zz": " keep  me "}
                case = {"config": cname, "tag": tag, "attrs": [a1, a2], "first_value_is_a_list": True}
                ctx.case(("tbl2", cname, tag, a1, a2), nontrivial=is_multi(a2))
                if {k: (list(v) if isinstance(v, list) else v) for k, v in got.items()} != exp:
                    ctx.fail(case, "an attribute that already held a list changed how the other attributes of the tag are treated",
                             repr(got), repr(exp))
                tenc = [] if not table and table is None else [[[k, sorted(v)] for k, v in sorted(table.items())]] if table is not None else []
                cmds.append([172, tenc, tag, [[enc_key(k), enc_val(v)] for k, v in d.items()]])
                cases.append((case, [(k, list(v) if isinstance(v, list) else v) for k, v in got.items()]))
    ctx.sample({"table_case": cases[5][0], "stored": cases[5][1]})
    if ctx.build.model_ok:
        for (case, got), mv in zip(cases, ctx.model.run(cmds)):
            if dec_dict(mv) != got:
                ctx.disagree("_replace_cdata_list_attribute_values ~ Model.Attrs.replace_cdata_list", case, got, dec_dict(mv))
    # through the parser, with custom list / dict classes
    class MyList(AttributeValueList):
        pass
    class MyDict(HTMLAttributeDict):
        pass
    soup = BeautifulSoup('<a class="x  y" rel=" n " id="i  j" headers="h g"></a><td headers="h  g" class=""></td>', "html.parser",
                         attribute_value_list_class=MyList, attribute_dict_class=MyDict)
    a, td = soup.a, soup.td
    ctx.case(("parse-custom-classes",))
    obs = (type(a["class"]).__name__, list(a["class"]), list(a["rel"]), a["id"], a["headers"], list(td["headers"]),
           list(td["class"]), type(a.attrs).__name__)
    exp = ("MyList", ["x", "y"], ["n"], "i  j", "h g", ["h", "g"], [], "MyDict")
    if obs != exp:
        ctx.fail({"markup": "custom attribute classes"}, "parser does not apply multi-valued rules / custom classes", obs, exp)
    # ... and writes them back joined by single spaces, whatever list class holds them
    class PlainSub(list):
        pass
    a["data-k"] = PlainSub(["u", "v"])
    a["data-t"] = ("s", "t")
    out = a.decode()
    ctx.case(("render-custom-list-classes",))
    for piece in ('class="x y"', 'rel="n"', 'data-k="u v"', 'data-t="s t"'):
        if piece not in out:
            ctx.fail({"markup": "custom attribute classes", "rendered": out},
                     "a list-valued attribute (custom list class / list subclass / tuple) is not written joined by single spaces",
                     out, piece)
    soup = BeautifulSoup('<a class="x  y" rel=" n "></a>', "html.parser", multi_valued_attributes=None)
    ctx.case(("parse-mva-none",))
    if (soup.a["class"], soup.a["rel"]) != ("x  y", " n "):
        ctx.fail({"multi_valued_attributes": None}, "values not stored verbatim", (soup.a["class"], soup.a["rel"]), ("x  y", " n "))


VALUES = ["", "v", "0", ["a", "b"], [], True, False, None, 0, 1, -1, 7, 10 ** 18, -(10 ** 17), 0.0, -0.0, 1.5, -2.25, 1e300, 100.0]


def norm_val(v):
    if isinstance(v, float):
        return "FLOAT:" + str(v)
    if isinstance(v, list):
        return list(v)
    return v


def expected_coercion(kind, key, v):
    """The property's wording. Returns ('del',) or ('set', value)."""
    if kind == "plain":
        return ("set", v)
    if isinstance(v, bool):
        if kind == "html":
            return ("set", key.name if isinstance(key, NamespacedAttribute) else key) if v else ("del",)
        return ("set", v)
    if v is None:
        return ("del",) if kind == "html" else ("set", "")
    if isinstance(v, (int, float)):
        return ("set", str(v))
    return ("set", v)


def coercion_cases(ctx):
    rng = ctx.rng
    kinds = {"html": (HTMLAttributeDict, 0), "xml": (XMLAttributeDict, 1), "plain": (AttributeDict, 2)}
    keys = ["x", "y", "disabled", NamespacedAttribute("xlink", "href"), NamespacedAttribute("xml", "lang")]
    seqs = []
    for k in keys[:4]:
        for v in VALUES:
            seqs.append([(k, v)])
            seqs.append([(k, "old"), (k, v)])
            seqs.append([("other", "o"), (k, v), ("other", v)])
    for _ in range(4000 if ctx.thorough else 600):
        seqs.append([(rng.choice(keys), rng.choice(VALUES)) for _ in range(rng.randint(1, 6))])
    cmds, cases = [], []
    for kname, (cls, kid) in kinds.items():
        for seq in seqs:
            d = cls()
            ref = {}
            for k, v in seq:
                try:
                    d[k] = v
                except Exception as e:
                    d = "EXC:" + type(e).__name__
                    break
                e = expected_coercion(kname, k, v)
                if e[0] == "del":
                    ref.pop(str(k), None)
                else:
                    ref[str(k)] = e[1]
            case = {"container": kname, "assignments": [(str(k), repr(v)) for k, v in seq]}
            ctx.case(("coerce", kname, repr(seq)), nontrivial=any(not isinstance(v, str) for _, v in seq))
            got = d if isinstance(d, str) else [(str(k), norm_val(v)) for k, v in d.items()]
            if isinstance(d, str) or {str(k): v for k, v in d.items()} != ref or \
                    any(type(a) is not type(b) for a, b in zip([v for _, v in sorted((str(k), v) for k, v in d.items())],
                                                                [v for _, v in sorted(ref.items())])):
                ctx.fail(case, "container coercion differs from the documented rule", repr(got), repr(ref))
            cmds.append([173, kid, [[enc_key(k), enc_val(v)] for k, v in seq]])
            cases.append((case, got))
    ctx.sample({"coercion_case": cases[41][0], "stored": cases[41][1]})
    if ctx.build.model_ok:
        for (case, got), mv in zip(cases, ctx.model.run(cmds)):
            if dec_dict(mv) != got:
                ctx.disagree("AttributeDict.__setitem__ ~ Model.Attrs.*_setitem", case, got, dec_dict(mv))
    # through the Tag API: a Tag made without a builder uses the HTML (or, is_xml=True, the XML) container
    a = Tag(name="a")
    a["n"] = 0; a["z"] = 0.0; a["t"] = True; a["f"] = False; a["q"] = "s"; a["q"] = None
    ctx.case(("tag-api-html",))
    if dict(a.attrs) != {"n": "0", "z": "0.0", "t": "t"} or not isinstance(a.attrs, HTMLAttributeDict):
        ctx.fail({"assign": "Tag(name='a'): ['n']=0; ['z']=0.0; ['t']=True; ['f']=False; ['q']='s'; ['q']=None"},
                 "HTML container coercion through the Tag API wrong", repr(a.attrs), "{'n': '0', 'z': '0.0', 't': 't'}")
    x = Tag(name="a", is_xml=True)
    x["n"] = 0; x["t"] = True; x["q"] = None
    ctx.case(("tag-api-xml",))
    if dict(x.attrs) != {"n": "0", "t": True, "q": ""} or not isinstance(x.attrs, XMLAttributeDict):
        ctx.fail({"assign": "Tag(name='a', is_xml=True): ['n']=0; ['t']=True; ['q']=None"},
                 "XML container coercion through the Tag API wrong", repr(x.attrs), "{'n': '0', 't': True, 'q': ''}")


def construction_and_sharing(ctx):
    """(a) attribute values given when a Tag is constructed go through the same container coercions as assigned ones;
    (b) a copy of a document keeps its builder's attribute configuration; (c) every tag owns its attribute value lists:
    an in-place edit of one tag's list changes no other tag, no later new_tag() and no later parse."""
    import copy as _copy
    for kind, kw in (("html", {}), ("xml", {"is_xml": True})):
        for v in VALUES:
            if isinstance(v, list):
                continue
            try:
                t = Tag(name="a", attrs={"x": v, "keep": "k"}, **kw)
                got = ("set", norm_val(t.attrs["x"])) if "x" in t.attrs else ("del",)
            except Exception as e:
                got = ("EXC", type(e).__name__)
            exp = expected_coercion(kind, "x", v)
            exp = (exp[0], norm_val(exp[1])) if exp[0] == "set" else exp
            ctx.case(("ctor-coercion", kind, repr(v)))
            if got != exp:
                ctx.fail({"construct": "Tag(name='a', attrs={'x': %r}%s)" % (v, ", is_xml=True" if kw else "")},
                         "a value given at construction is not coerced like an assigned one (%s container)" % kind, got, exp,
                         tag="ctor-coercion")
    for cname, kw in (("mva-none", {"multi_valued_attributes": None}), ("mva-custom", {"multi_valued_attributes": {"*": {"data-x"}}}),
                      ("default", {})):
        soup = BeautifulSoup('<a class="p q" data-x="r s"></a>', "html.parser", **kw)
        c = _copy.copy(soup)
        ctx.case(("copy-config", cname))
        for what, mk in (("original", soup), ("copy", c)):
            t = mk.new_tag("b", attrs={"class": "u v", "data-x": "w z"})
            exp_class = ["u", "v"] if cname == "default" else "u v"
            exp_dx = ["w", "z"] if cname == "mva-custom" else "w z"
            got = (list(t["class"]) if isinstance(t["class"], list) else t["class"],
                   list(t["data-x"]) if isinstance(t["data-x"], list) else t["data-x"])
            if got != (exp_class, exp_dx):
                ctx.fail({"config": cname, "new_tag_from": what}, "new_tag() of a %s does not apply the builder's multi-valued configuration" % what,
                         got, (exp_class, exp_dx), tag="copy-config")
    soup = BeautifulSoup('<a class="x y" rel="n m"></a><b class="x y"></b><link rel="n m">', "html.parser")
    soup.a["class"].append("zz"); soup.a["rel"].clear()
    later = BeautifulSoup('<i class="x y"></i><a rel="n m"></a>', "html.parser")
    fresh = soup.new_tag("u", attrs={"class": "x y"})
    obs = (list(soup.b["class"]), list(soup.link["rel"]), list(later.i["class"]), list(later.a["rel"]), list(fresh["class"]))
    # ... and a copy owns its lists too, whatever kind of list the value is (AttributeValueList from a parse, a plain Python list
    # assigned by the caller, a list given to new_tag)
    import copy as _cp
    for how in ("parsed", "assigned-plain-list", "new_tag-attrs", "assigned-tuple-free"):
        if how == "parsed":
            t = BeautifulSoup('<p class="a b"><i class="c d"></i></p>', "html.parser").p
        elif how == "assigned-plain-list":
            t = BeautifulSoup("<p><i></i></p>", "html.parser").p
            t["class"] = ["a", "b"]; t.i["class"] = ["c", "d"]
        elif how == "new_tag-attrs":
            sp = BeautifulSoup("", "html.parser")
            t = sp.new_tag("p", attrs={"class": ["a", "b"]}); t.append(sp.new_tag("i", attrs={"class": ["c", "d"]}))
        else:
            t = BeautifulSoup("<p><i></i></p>", "html.parser").p
            t.attrs["class"] = ["a", "b"]; t.i.attrs["class"] = ["c", "d"]
        for cname, mk in (("copy.copy", _cp.copy), ("copy.deepcopy", _cp.deepcopy)):
            c = mk(t)
            c["class"].append("zz"); c.i["class"].clear()
            obs2 = (list(t["class"]), list(t.i["class"]), t.decode())
            ctx.case(("list-ownership-copy", how, cname))
            if obs2[:2] != (["a", "b"], ["c", "d"]) or 'zz' in obs2[2]:
                ctx.fail({"values": how, "copied_with": cname, "edit": "copy['class'].append('zz'); copy.i['class'].clear()"},
                         "an in-place edit of a copy's attribute value list shows in the original", obs2, (["a", "b"], ["c", "d"]),
                         tag="list-ownership")
    ctx.case(("list-ownership",))
    if obs != (["x", "y"], ["n", "m"], ["x", "y"], ["n", "m"], ["x", "y"]):
        ctx.fail({"edit": "a['class'].append('zz'); a['rel'].clear() on one of several tags with textually identical values"},
                 "attribute value lists are shared between tags / parses", obs, "every other list unchanged", tag="list-ownership")


def dup_cases(ctx):
    rng = ctx.rng
    names = ["x", "y", "z"]
    lists = []
    for n in range(0, 5):
        for combo in itertools.product(names[:2], repeat=n):
            lists.append([(k, "v%d" % i) for i, k in enumerate(combo)])
    for _ in range(1500 if ctx.thorough else 300):
        lists.append([(rng.choice(names), rng.choice(["v%d" % i, None, "", "a b"])) for i in range(rng.randint(1, 7))])

    def concat(d, k, v):
        # the builder hands every callable a string (a valueless attribute is the empty string)
        d[k] = "%s,%s" % (d[k], "<None>" if v is None else v)
    policies = [("replace", "replace", 0), ("default", None, 0), ("ignore", "ignore", 1), ("callable", concat, 2)]
    cmds, cases = [], []
    for pname, pol, pid in policies:
        for al in lists:
            markup = "<a " + " ".join(k if v is None else '%s="%s"' % (k, v) for k, v in al) + "></a>"
            kw = {} if pname == "default" else {"on_duplicate_attribute": pol}
            # the policy combined with the other parser options a caller may give at the same time (the caller's dict is his own)
            combo = len(cmds) % 4
            caller_kwargs = {"convert_charrefs": False}
            if combo == 1:
                kw["parser_kwargs"] = caller_kwargs
            elif combo == 2:
                kw["parser_kwargs"] = {}
            elif combo == 3:
                kw["parser_args"] = []
                kw["store_line_numbers"] = False
            try:
                soup = BeautifulSoup(markup, "html.parser", multi_valued_attributes=None, **kw)
                if combo == 1 and len(al) >= 2 and len(cmds) % 3 == 0:
                    # the caller uses his dict again, this time without naming a policy: the documented default (replace) applies
                    again = BeautifulSoup(markup, "html.parser", multi_valued_attributes=None, parser_kwargs=caller_kwargs)
                    last = {}
                    for k, v in al:
                        last[k] = "" if v is None else v
                    ctx.case(("dup-shared-kwargs", pname, repr(al)))
                    if dict(again.a.attrs) != last:
                        ctx.fail({"policy_of_the_earlier_parse": pname, "attributes": al,
                                  "calls": "BeautifulSoup(m, 'html.parser', parser_kwargs=d, on_duplicate_attribute=P); BeautifulSoup(m, 'html.parser', parser_kwargs=d)"},
                                 "a later parse that names no policy does not use the default: the earlier parse's policy travelled in the caller's parser_kwargs dict",
                                 dict(again.a.attrs), last, tag="shared-parser-kwargs")
                got = list(soup.a.attrs.items())
            except Exception as e:
                got = "EXC:" + type(e).__name__
            case = {"policy": pname, "attributes": al}
            ctx.case(("dup", pname, repr(al)), nontrivial=len({k for k, _ in al}) < len(al))
            vals = {}
            order = []
            for k, v in al:
                v = "" if v is None else v
                if k in vals:
                    if pid == 0:
                        vals[k] = v
                    elif pid == 2:
                        vals[k] = vals[k] + "," + v
                else:
                    vals[k] = v
                    order.append(k)
            exp = [(k, vals[k]) for k in order]
            if got != exp:
                ctx.fail(case, "on_duplicate_attribute policy not honoured", got, exp)
            cmds.append([174, pid, [[enc_key(k), [] if v is None else [v]] for k, v in al]])
            cases.append((case, got))
    # a builder object configured once and used for several documents keeps its policy
    from bs4.builder._htmlparser import HTMLParserTreeBuilder as _HPTB
    for pname, pol, pid in policies:
        if pname == "default":
            continue
        b = _HPTB(on_duplicate_attribute=pol, multi_valued_attributes=None)
        for round_ in range(3):
            try:
                soup = BeautifulSoup('<a x="1" y="2" x="3" x="4"></a>', builder=b)
                got = list(soup.a.attrs.items())
            except Exception as e:
                got = "EXC:" + type(e).__name__
            exp = {0: [("x", "4"), ("y", "2")], 1: [("x", "1"), ("y", "2")], 2: [("x", "1,3,4"), ("y", "2")]}[pid]
            ctx.case(("dup-reused-builder", pname, round_))
            if got != exp:
                ctx.fail({"policy": pname, "reused_builder_document": round_ + 1, "attributes": [["x", "1"], ["y", "2"], ["x", "3"], ["x", "4"]]},
                         "on_duplicate_attribute policy not honoured for a later document parsed with the same builder object", got, exp)
    ctx.sample({"dup_case": cases[33][0], "attrs": cases[33][1]})
    if ctx.build.model_ok:
        for (case, got), mv in zip(cases, ctx.model.run(cmds)):
            if dec_dict(mv) != got:
                ctx.disagree("handle_starttag duplicate handling ~ Model.Attrs.collect_attrs", case, got, dec_dict(mv))


def run(ctx):
    with warnings.catch_warnings():
        warnings.simplefilter("ignore")
        split_cases(ctx)
        table_cases(ctx)
        coercion_cases(ctx)
        construction_and_sharing(ctx)
        dup_cases(ctx)


def replay(ctx, data):
    print(data.get("failure"))
    return 1
