"""C06 — any input yields a tree or ParserRejectedMarkup, never another failure; a rejected attempt leaves nothing.

Direct oracle (independent of the model): exception class of the constructor, then the C01 link walker and
render / search / copy on the result, the parser state of the finished object; for injected rejections the
result must be indistinguishable from a construction that never saw the rejected attempts, and none of the
objects the rejected attempts created may be reachable from it.
Correspondence: coq/Model/Construct.v (commands 6000-6004) on the same cases."""
import copy, itertools, json, os, warnings
from collections import Counter
from html.parser import HTMLParser

import bs4
from bs4 import BeautifulSoup, MarkupResemblesLocatorWarning
from bs4.builder import TreeBuilder
from bs4.builder._htmlparser import HTMLParserTreeBuilder
from bs4.dammit import UnicodeDammit
from bs4.exceptions import ParserRejectedMarkup
import treeimpl as T

RULE = ("(a) retry loop through a harness TreeBuilder whose prepare_markup yields k+1 strategies: every rejected event "
        "prefix of length <=3 (quick) / <=4 (thorough) over 8 symbols (start a/pre/script/br, end a, data 'x'/' ', "
        "end-of-data Comment) x 12 accepted probe sequences chosen to expose each parser-state field (k=1, exhaustive), "
        "seeded samples for k=2,3 and for longer random sequences, all-rejected lists, an empty strategy list, a "
        "generator that raises; (b) hostile inputs through the html.parser builder, str and bytes: stored witnesses of "
        "repaired defects, numeric references (every value 0..300 decimal and hexadecimal, boundary values around 256, the "
        "surrogates, 0x10FFFF/0x110000, 2^31, 2^63, digit counts around the interpreter's int() limit, leading zeros, in "
        "text and in attribute values), every truncation of 16 constructs (tags, comments, declarations, marked "
        "sections, processing instructions, CDATA, references) alone and followed by 4 continuations, as str and as "
        "UTF-8/UTF-16 bytes, seeded token soup with lone surrogates / NULs / byte mutations / BOMs / declared charsets "
        "(bogus, python-specific, with NUL) x from_encoding x exclude_encodings from a 45-name list, and the nothing-usable class: both "
        "fall-back encodings excluded (5 spellings / containers) x 12 bodies (BOMs, declared charsets, references) x 11 from_encoding values "
        "(excluded, unknown, non-text, NUL, ascii); (c) the two "
        "heuristics on every string of <=3 symbols over a 14-symbol alphabet (extensions, ':', '/', ' ', 'http:', a lone "
        "surrogate, NUL, non-ASCII) as str and bytes, and around the 256 threshold. Nesting depth stays below 60 "
        "(deep documents are C11's subject). Non-trivial: the retry case has a non-empty rejected prefix / the input "
        "contains markup, a reference, a non-ASCII byte or an encoding argument. Distinct by input.")
ASSUMPTIONS = [
    "the standard library's html.parser tokenizer is not modelled: its callbacks and the way it ended (returned / "
    "AssertionError / other) are recorded by an independent HTMLParser subclass on the same text and handed to the model",
    "UnicodeDammit's result (text, original_encoding, declared_html_encoding, contains_replacement_characters, or nothing) "
    "is a recorded input of the model (the precedence logic is C07's subject)",
    "bytearray([n]).decode(original_encoding) raises nothing but UnicodeDecodeError (measured over every codec the "
    "interpreter knows on every run; the table of the document's codec is handed to the model)",
    "int() accepts at most sys.get_int_max_str_digits() decimal digits (value read from the interpreter); chr() raises "
    "ValueError below 2^31 and OverflowError above",
    "attribute values are unescaped by the standard library (html.unescape), not by the repository",
    "str.upper() in unknown_decl is modelled on ASCII letters",
]

HERE = os.path.dirname(os.path.dirname(os.path.dirname(os.path.abspath(__file__))))
CFG = T.HTML_CFG


# ------------------------------------------------------------------------------------------------ helpers
def jmarkup(m):
    """JSON-safe description of a str / bytes input (lone surrogates survive)."""
    codes = list(m) if isinstance(m, bytes) else [ord(c) for c in m]
    kind = "bytes" if isinstance(m, bytes) else "str"
    if len(codes) <= 300:
        return {"kind": kind, "codes": codes}
    rle = []                      # long inputs are runs of one character: run-length encoded
    for c in codes:
        if rle and rle[-1][0] == c:
            rle[-1][1] += 1
        else:
            rle.append([c, 1])
    return {"kind": kind, "rle": rle}


def unj(j):
    codes = j["codes"] if "codes" in j else [c for c, n in j["rle"] for _ in range(n)]
    return bytes(codes) if j["kind"] == "bytes" else "".join(chr(c) for c in codes)


def short(m, n=80):
    r = ascii(m)
    return r if len(r) <= n else r[:n - 20] + "...(%d)..." % len(m) + r[-12:]


def exc_class(e):
    if isinstance(e, ParserRejectedMarkup):
        return "ParserRejectedMarkup"
    return type(e).__name__


def finished_state_problems(soup):
    """What `never leaves the object half-built` means for an object the constructor returned."""
    bad = []
    if len(soup.tagStack) != 1 or soup.tagStack[0] is not soup:
        bad.append("tagStack is not [root] (%d entries)" % len(soup.tagStack))
    if soup.currentTag is not soup:
        bad.append("currentTag is not the root")
    if soup.current_data:
        bad.append("current_data not empty")
    if soup.preserve_whitespace_tag_stack or soup.string_container_stack:
        bad.append("an auxiliary stack is not empty")
    if any(v != 0 for v in soup.open_tag_counter.values()):
        bad.append("open_tag_counter has a non-zero entry")
    if soup.markup is not None:
        bad.append("markup not cleared")
    if soup.builder is not None and getattr(soup.builder, "soup", None) is not None:
        bad.append("builder still refers to the object")
    if soup.parent is not None or soup.next_sibling is not None or soup.previous_sibling is not None:
        bad.append("root has a parent or siblings")
    return bad


def post_checks(soup):
    """Walker + render / search / copy. Returns a list of (what, detail)."""
    bad = []
    try:
        w = T.walk_check(T.Forest(soup))
        if w:
            bad.append(("tree is not consistently linked", w[:3]))
    except Exception as e:
        bad.append(("link walker raised", type(e).__name__ + ": " + str(e)[:80]))
    try:
        for p in finished_state_problems(soup):
            bad.append(("object left half-built", p))
    except Exception as e:
        bad.append(("inspecting the parser state raised %s" % type(e).__name__, str(e)[:100]))
    out = None
    for name, f in (("decode", lambda: soup.decode()), ("get_text", lambda: soup.get_text()),
                    ("prettify", lambda: soup.prettify()), ("encode('ascii')", lambda: soup.encode("ascii")),
                    ("encode()", lambda: soup.encode()), ("find_all(True)", lambda: soup.find_all(True)),
                    ("find_all(string=True)", lambda: soup.find_all(string=True)),
                    ("copy.copy", lambda: copy.copy(soup))):
        try:
            r = f()
        except Exception as e:
            bad.append(("%s raised %s" % (name, type(e).__name__), str(e)[:100]))
            continue
        if name == "decode":
            out = r
        elif name == "find_all(True)":
            n = sum(1 for x in T.preorder(soup) if isinstance(x, T.Tag)) - 1
            if len(r) != n:
                bad.append(("find_all(True) does not return every tag", (len(r), n)))
        elif name == "copy.copy":
            try:
                if out is not None and r.decode() != out:
                    bad.append(("copy renders differently", (r.decode()[:60], out[:60])))
                w = T.walk_check(T.Forest(r))
                if w:
                    bad.append(("copy is not consistently linked", w[:3]))
            except Exception as e:
                bad.append(("inspecting the copy raised %s" % type(e).__name__, str(e)[:100]))
    return bad


def model_shape(cells, pays):
    def go(i):
        c = cells[i]
        p = pays[i]
        name = "".join(map(chr, p[0]))
        if c[0] in (1, 2):
            return ("str", p[2], name)
        pref = "".join(map(chr, p[1][0])) if p[1] else None
        return ("root" if c[0] == 3 else "tag", name, pref, tuple(go(k) for k in c[3]))
    return go(0)


def dec_exn(x):
    return "ParserRejectedMarkup" if x[0] == 0 else "EXC#%d" % x[1]


EXC_NUM = {"ValueError": 3, "AssertionError": 4, "OverflowError": 5, "UnicodeDecodeError": 6, "LookupError": 7,
           "NotImplementedError": 9, "UnicodeEncodeError": 11, "UnicodeError": 12, "KeyError": 14, "IndexError": 15,
           "AttributeError": 16, "RuntimeError": 17, "TypeError": 2}


# ------------------------------------------------------------------------------------------------ (a) retry
class RetryBuilder(TreeBuilder):
    """prepare_markup yields one strategy per entry of `plan`; feed replays the entry's events and then returns,
    raises ParserRejectedMarkup, or lets the generator raise at the end."""
    NAME = "verif-retry"
    features = []
    is_xml = False

    def __init__(self, plan, tail, cfg):
        self.plan = plan              # [(meta, kind, events, msg)]
        self.tail = tail              # None | message: the generator raises ParserRejectedMarkup after the last strategy
        self.garbage = []             # objects created by rejected attempts (kept alive on purpose)
        self.attempts = 0
        super().__init__(multi_valued_attributes=None, preserve_whitespace_tags=set(cfg["pw"]),
                         string_containers={k: T.CLASSES[v] for k, v in cfg["containers"].items()},
                         empty_element_tags=None if cfg["void"] is None else set(cfg["void"]))

    def prepare_markup(self, markup, user_specified_encoding=None, document_declared_encoding=None, exclude_encodings=None):
        if markup == "":          # copy_self() builds an empty object with the same builder: nothing to replay
            yield ("", None, None, False)
            return
        for i, (meta, kind, events, msg) in enumerate(self.plan):
            yield (str(i), meta[0], meta[1], meta[2])
        if self.tail is not None:
            raise ParserRejectedMarkup(self.tail)

    def feed(self, markup):
        if markup == "":
            return
        self.attempts += 1
        meta, kind, events, msg = self.plan[int(markup)]
        soup = self.soup
        for ev in events:
            if ev[0] == "s":
                soup.handle_starttag(ev[1], None, ev[2], dict(ev[3]))
            elif ev[0] == "e":
                soup.handle_endtag(ev[1], ev[2])
            elif ev[0] == "d":
                soup.handle_data(ev[1])
            else:
                soup.endData(None if ev[1] is None else T.CLASSES[ev[1]])
        if kind == 1:
            self.garbage.extend(T.preorder(soup)[1:])
            if soup._most_recent_element is not None:
                self.garbage.append(soup._most_recent_element)
            raise ParserRejectedMarkup(msg)


def reachable_objects(soup):
    """Everything one can get to from the finished object (tree, element chain, parser state)."""
    seen = {}
    todo = [soup]
    while todo:
        x = todo.pop()
        if x is None or id(x) in seen:
            continue
        seen[id(x)] = x
        if isinstance(x, T.PageElement):
            todo += [x.parent, x.next_element, x.previous_element, x.next_sibling, x.previous_sibling]
            if isinstance(x, T.Tag):
                todo += list(x.contents)
    todo2 = list(soup.tagStack) + list(soup.preserve_whitespace_tag_stack) + list(soup.string_container_stack) + \
        [soup._most_recent_element, soup.currentTag]
    for x in todo2:
        if x is not None and id(x) not in seen:
            seen[id(x)] = x
    return seen


def full_dump(soup):
    f = T.Forest(soup)
    return {"cells": f.dump(), "classes": [T.CLASS_ID.get(type(o), -1) if not isinstance(o, T.Tag) else 0 for o in f.objs],
            "counter": sorted((k, v) for k, v in soup.open_tag_counter.items()),
            "mre": f.oid(soup._most_recent_element), "stack": [f.oid(t) for t in soup.tagStack],
            "cur": f.oid(soup.currentTag), "data": list(soup.current_data),
            "pws": [f.oid(t) for t in soup.preserve_whitespace_tag_stack],
            "scs": [f.oid(t) for t in soup.string_container_stack],
            "meta": (soup.original_encoding, soup.declared_html_encoding, soup.contains_replacement_characters)}


def run_plan(plan, tail, cfg):
    b = RetryBuilder(plan, tail, cfg)
    with warnings.catch_warnings():
        warnings.simplefilter("ignore")
        try:
            soup = BeautifulSoup("<ignored>", builder=b)
            return soup, b, None
        except Exception as e:
            return None, b, e


R_ALPHA = [("s", "a", None, []), ("e", "a", None), ("s", "pre", None, []), ("s", "script", None, []),
           ("s", "br", None, []), ("d", "x"), ("d", " "), ("x", 4)]
PROBES = [[], [("d", " \n ")], [("d", "x")], [("s", "a", None, []), ("d", "x")], [("e", "a", None)],
          [("s", "pre", None, []), ("d", " ")], [("x", 4)], [("d", "x"), ("x", 4)],
          [("s", "script", None, []), ("d", "y"), ("e", "script", None), ("d", "z")], [("s", "br", None, []), ("d", "q")],
          [("s", "a", None, []), ("s", "b", None, [("k", "v")]), ("e", "a", None), ("d", "q")],
          [("d", " "), ("s", "a", None, []), ("e", "a", None), ("e", "a", None)]]
METAS = [(None, None, False), ("utf-8", None, False), ("windows-1252", "latin1", True), ("ascii", "ascii", False)]


def enc_plan(plan, tail, cfg, pre=()):
    ss = []
    for meta, kind, events, msg in plan:
        ss.append([[T_opt(meta[0]), T_opt(meta[1]), bool(meta[2])], kind, [T.enc_event(e) for e in events], msg])
    return [6000, T.enc_cfg(cfg), [T.enc_event(e) for e in pre], ss, [] if tail is None else [tail]]


def T_opt(x):
    return [] if x is None else [x]



def retry_cases(ctx):
    rng = ctx.rng
    L = 4 if ctx.thorough else 3
    prefixes = [list(c) for n in range(L + 1) for c in itertools.product(R_ALPHA, repeat=n)]
    plans = []
    # k = 1, exhaustive
    for pi, pre in enumerate(prefixes):
        for qi, acc in enumerate(PROBES):
            plans.append(([(METAS[(pi + 1) % 4], 1, pre, "r0"), (METAS[qi % 4], 0, acc, "")], None))
    # k = 2, 3: samples
    from props import c03 as C3  # the C03 alphabet for longer random sequences
    big = C3.ALPHA + C3.EXTRA
    for k, n in ((2, 20000 if ctx.thorough else 2000), (3, 20000 if ctx.thorough else 1200)):
        for _ in range(n):
            plan = [(rng.choice(METAS), 1, rng.choice(prefixes), "r%d" % i) for i in range(k)]
            plan.append((rng.choice(METAS), 0, rng.choice(PROBES), ""))
            if rng.random() < 0.2:
                plan.append((rng.choice(METAS), rng.choice([0, 1]), rng.choice(prefixes), "after"))   # never reached
            plans.append((plan, None))
    for _ in range(6000 if ctx.thorough else 700):
        k = rng.randint(1, 4)
        plan = [(rng.choice(METAS), 1, [rng.choice(big) for _ in range(rng.randint(0, 9))], "r%d" % i) for i in range(k)]
        plan.append((rng.choice(METAS), 0, [rng.choice(big) for _ in range(rng.randint(0, 12))], ""))
        plans.append((plan, None))
    # all rejected / empty / generator raises
    plans.append(([], None))
    plans.append(([], "gen"))
    for k in range(1, 5):
        for _ in range(40 if ctx.thorough else 12):
            plan = [(rng.choice(METAS), 1, rng.choice(prefixes), "msg%d" % i) for i in range(k)]
            plans.append((plan, None))
            plans.append((plan, "gen-after-%d" % k))
    ctx.count("retry_plans", len(plans))
    fresh_cache = {}
    cmds = []
    results = []
    for plan, tail in plans:
        case = {"retry_plan": [[list(m), k, [list(e) for e in evs], msg] for m, k, evs, msg in plan], "generator_raises": tail}
        nrej = 0
        for m, k, evs, msg in plan:
            if k == 0:
                break
            nrej += 1
        accepted = plan[nrej] if nrej < len(plan) else None
        ctx.case(("retry", repr(plan), tail), nontrivial=any(evs for _, k, evs, _ in plan[:nrej]))
        soup, b, err = run_plan(plan, tail, CFG)
        impl = None
        try:
            impl = inspect_retry(ctx, case, plan, tail, nrej, accepted, soup, b, err, fresh_cache)
        except Exception as e:      # the object is too broken to be inspected: that is a finding, not a harness error
            ctx.fail(case, "inspecting the constructed object raised %s" % type(e).__name__, str(e)[:120], None, tag="retry")
            impl = ("raise", "uninspectable")
        cmds.append(enc_plan(plan, tail, CFG))
        results.append((case, impl))
    finish_retry(ctx, plans, prefixes, cmds, results, L)


def inspect_retry(ctx, case, plan, tail, nrej, accepted, soup, b, err, fresh_cache):
        impl = None
        if accepted is None:
            # nothing accepts: the only admissible outcome is ParserRejectedMarkup
            if err is None:
                ctx.fail(case, "every strategy was rejected but the constructor returned an object", "returned", "ParserRejectedMarkup", tag="retry")
            elif not isinstance(err, ParserRejectedMarkup):
                ctx.fail(case, "every strategy was rejected but the constructor raised another exception", exc_class(err), "ParserRejectedMarkup", tag="retry")
            else:
                text = str(err)
                pos = 0
                if tail is None:
                    for m, k, evs, msg in plan:
                        j = text.find(msg, pos)
                        if j < 0:
                            ctx.fail(case, "a rejection is not reported (in order) by the final ParserRejectedMarkup", text[-120:], msg, tag="retry")
                            break
                        pos = j + len(msg)
                if b.attempts != len(plan):
                    ctx.fail(case, "not every strategy was tried", b.attempts, len(plan), tag="retry")
            impl = ("raise", exc_class(err) if err is not None else None)
        else:
            if err is not None:
                ctx.fail(case, "a later strategy accepts but the constructor raised", exc_class(err) + ": " + str(err)[:80], "an object", tag="retry")
                impl = ("raise", exc_class(err))
            else:
                key = (repr(accepted[2]), accepted[0])
                if key not in fresh_cache:
                    fs, _, ferr = run_plan([accepted], None, CFG)
                    fresh_cache[key] = full_dump(fs)
                got = full_dump(soup)
                if got != fresh_cache[key]:
                    diff = [k for k in got if got[k] != fresh_cache[key][k]]
                    ctx.fail(case, "the object differs from one built without the rejected attempts (" + ", ".join(diff) + ")",
                             {k: got[k] for k in diff[:2]}, {k: fresh_cache[key][k] for k in diff[:2]}, tag="retry")
                reach = reachable_objects(soup)
                leaked = [g for g in b.garbage if id(g) in reach]
                if leaked:
                    ctx.fail(case, "an object created by a rejected attempt is reachable from the result", T.label_of(leaked[0]), None, tag="retry")
                for what, detail in post_checks(soup):
                    ctx.fail(case, what, detail, None, tag="retry")
                if b.attempts != nrej + 1:
                    ctx.fail(case, "strategies after the accepting one were tried (or some were skipped)", b.attempts, nrej + 1, tag="retry")
                impl = ("ok", got)
        return impl


def finish_retry(ctx, plans, prefixes, cmds, results, L):
    rng = ctx.rng
    ctx.sample({"retry_case": results[len(results) // 3][0]})
    if ctx.build.model_ok:
        for (case, impl), m in zip(results, ctx.model.run(cmds)):
            compare_cres("retry loop ~ Model.Construct.construct", ctx, case, impl, m)
        # the object handed to the loop may itself be dirty: same answers from a used object
        dirty = [enc_plan(plan, tail, CFG, pre=rng.choice(prefixes[1:])) for plan, tail in plans[:: max(1, len(plans) // 400)]]
        base = [enc_plan(plan, tail, CFG) for plan, tail in plans[:: max(1, len(plans) // 400)]]
        for a, b_ in zip(ctx.model.run(dirty), ctx.model.run(base)):
            if a != b_:
                ctx.disagree("Model.Construct.construct does not depend on the prior state of the object (retry_clean, evaluated)",
                             {"cmd": "6000 with pre-events"}, b_, a)
                break
    ctx.extra_cov["exhaustive"] = True
    ctx.extra_cov["exhaustive_scope"] = ("retry: every rejected prefix of length <=%d over %d symbols x %d accepted probes (k=1); "
                                         % (L, len(R_ALPHA), len(PROBES)))


def compare_cres(name, ctx, case, impl, m, check_tree=True):
    """impl: ('raise', class) | ('ok', full_dump); m: model cres."""
    if isinstance(m, tuple):
        ctx.disagree(name, case, impl[0], "model error")
        return
    if m[0] == 1:
        mcls = dec_exn(m[1])
        if impl[0] != "raise" or impl[1] != mcls:
            ctx.disagree(name + " (outcome class)", case, impl[0] if impl[0] == "ok" else impl[1], mcls)
        return
    if impl[0] != "ok":
        ctx.disagree(name + " (outcome class)", case, impl[1], "object")
        return
    if not check_tree:
        return
    got = impl[1]
    st, meta = m[1], m[2]
    cells, pays, stack, counter, pws, scs, data, mre, cur, consistent = st
    if consistent != 1:
        ctx.disagree(name + " (model state fails the representation check of Spec/Tree.v)", case, None, consistent)
        return
    d = compare_cells(got["cells"], cells)
    if d:
        ctx.disagree(name + " (links)", case, d[:3], None)
        return
    mcls = [0 if c[0] in (0, 3) else p[2] for c, p in zip(cells, pays)]
    if mcls != got["classes"]:
        ctx.disagree(name + " (string classes)", case, got["classes"], mcls)
        return
    mstate = {"counter": sorted(("".join(map(chr, k)), v) for k, v in counter), "mre": T_un(mre), "stack": stack,
              "cur": T_un(cur), "data": ["".join(map(chr, x)) for x in data], "pws": pws, "scs": scs,
              "meta": (None if not meta[0] else "".join(map(chr, meta[0][0])), None if not meta[1] else "".join(map(chr, meta[1][0])), bool(meta[2]))}
    for k, v in mstate.items():
        if got[k] != v:
            ctx.disagree(name + " (%s)" % k, case, got[k], v)
            return


def T_un(l):
    return l[0] if l else None


def compare_cells(impl_cells, model_cells):
    diffs = []
    if len(impl_cells) != len(model_cells):
        return [(-1, "number of elements", len(impl_cells), len(model_cells))]
    names = ["kind", "dead", "parent", "contents", "previous_sibling", "next_sibling", "previous_element", "next_element", "label"]
    for i, (a, m) in enumerate(zip(impl_cells, model_cells)):
        for k in range(9):
            if a[k] != m[k]:
                diffs.append((i, names[k], a[k], m[k]))
    return diffs


# ------------------------------------------------------------------------------------------------ (b) hostile inputs
class Recorder(HTMLParser):
    """The callbacks the standard-library tokenizer makes on a text (independent of bs4's subclass)."""

    def __init__(self):
        HTMLParser.__init__(self, convert_charrefs=False)
        self.cbs = []

    def handle_starttag(self, tag, attrs):
        self.cbs.append([0, tag, [[k, T_opt(v)] for k, v in attrs]])

    def handle_startendtag(self, tag, attrs):
        self.cbs.append([1, tag, [[k, T_opt(v)] for k, v in attrs]])

    def handle_endtag(self, tag):
        self.cbs.append([2, tag])

    def handle_data(self, data):
        self.cbs.append([3, data])

    def handle_charref(self, name):
        self.cbs.append([4, name])

    def handle_entityref(self, name):
        self.cbs.append([5, name])

    def handle_comment(self, data):
        self.cbs.append([6, data])

    def handle_decl(self, data):
        self.cbs.append([7, data])

    def unknown_decl(self, data):
        self.cbs.append([8, data])

    def handle_pi(self, data):
        self.cbs.append([9, data])


def record(text):
    r = Recorder()
    fin = [0]
    try:
        r.feed(text)
        r.close()
    except Exception as e:
        fin = [1, EXC_NUM.get(type(e).__name__, 99), ""]
    return r.cbs, fin


def c04_quirk(cbs):
    """True when <x/> follows an unclosed void <x> (was C04's defect, repaired in the library: no longer used to skip the comparison)."""
    void = set(CFG["void"])
    closed = []
    for cb in cbs:
        if cb[0] == 0 and cb[1] in void:
            closed.append(cb[1])
        elif cb[0] == 1 and cb[1] in closed:
            return True
        elif cb[0] == 2 and cb[1] in closed:
            closed.remove(cb[1])
    return False


_DEC_TABLES = {}


def decoder_table(enc):
    """bytearray([n]).decode(enc) for n in 0..255: text, None (UnicodeDecodeError) or the name of another exception."""
    if enc not in _DEC_TABLES:
        t = []
        for n in range(256):
            try:
                t.append(bytearray([n]).decode(enc))
            except UnicodeDecodeError:
                t.append(None)
            except Exception as e:
                t.append(("EXC", type(e).__name__))
        _DEC_TABLES[enc] = t
    return _DEC_TABLES[enc]


def construct(markup, kw):
    """Run the real constructor. Returns (soup | None, exception | None, warning kinds)."""
    with warnings.catch_warnings(record=True) as ws:
        warnings.simplefilter("always")
        try:
            soup = BeautifulSoup(markup, "html.parser", **kw)
            err = None
        except Exception as e:
            soup, err = None, e
    kinds = []
    for w in ws:
        if issubclass(w.category, MarkupResemblesLocatorWarning):
            kinds.append(0 if "URL" in str(w.message) else 1)
    return soup, err, kinds


def hostile_case(ctx, markup, kw, cmds, pending, tag=None):
    case = {"markup": jmarkup(markup), "short": short(markup), "kwargs": kw}
    nontrivial = bool(kw) or (isinstance(markup, bytes) and any(b >= 0x80 for b in markup)) or \
        any(ch in markup for ch in (("<", "&") if isinstance(markup, str) else (b"<", b"&")))
    ctx.case(("in", markup if len(markup) < 600 else hash(markup), repr(kw)), nontrivial=nontrivial)
    soup, err, wkinds = construct(markup, kw)
    if err is not None and not isinstance(err, ParserRejectedMarkup):
        ctx.fail(case, "the constructor raised %s (only ParserRejectedMarkup is allowed)" % exc_class(err),
                 exc_class(err) + ": " + str(err)[:120], "a tree or ParserRejectedMarkup", tag=tag or "exception-class")
    if soup is not None:
        for what, detail in post_checks(soup):
            ctx.fail(case, what, detail, None, tag=tag or "post-check")
    ctx.count("outcome_" + ("ok" if soup is not None else exc_class(err)))
    if not ctx.build.model_ok:
        return
    # ---- recorded inputs of the model, and the two oracles that need them.  The implementation's objects are read here
    # (UnicodeDammit's attributes, the returned tree): a change that breaks them must surface as a finding, never as a harness error.
    try:
        record_for_model(ctx, case, markup, kw, soup, err, wkinds, cmds, pending, tag)
    except Exception as e:
        ctx.count("recording_failed")
        what = "%s: %s" % (type(e).__name__, str(e)[:120])
        if err is None or isinstance(err, ParserRejectedMarkup):
            # the constructor looked fine but its collaborators cannot be inspected: the tie is broken on this input
            ctx.disagree("recording the model's inputs (UnicodeDammit result / callbacks / codec table) raised", case, what, None)
        else:
            ctx.notes.append("model inputs could not be recorded for a failing case (%s)" % what) if len(ctx.notes) < 5 else None


def record_for_model(ctx, case, markup, kw, soup, err, wkinds, cmds, pending, tag):
    fe = kw.get("from_encoding")
    if isinstance(markup, str):
        text, dm, orig = markup, [], None
    else:
        try:
            with warnings.catch_warnings():
                warnings.simplefilter("ignore")
                d = UnicodeDammit(markup, known_definite_encodings=[fe] if fe else [], user_encodings=[], is_html=True,
                                  exclude_encodings=kw.get("exclude_encodings"))
        except Exception as e:
            return      # UnicodeDammit itself failed: reported above through the constructor
        missing = [a for a in ("unicode_markup", "original_encoding", "contains_replacement_characters") if not hasattr(d, a)]
        if missing:
            ctx.fail(case, "UnicodeDammit finished without setting %s (prepare_markup reads it)" % ", ".join(missing),
                     exc_class(err) if err is not None else "constructor returned", "an attribute holding text or None",
                     tag=tag or "dammit-incomplete")
            return
        text = d.unicode_markup
        if text is None:
            dm, orig = [], None
        else:
            dm = [[T_opt(d.original_encoding), T_opt(d.declared_html_encoding), bool(d.contains_replacement_characters)]]
            orig = d.original_encoding
    if text is None:
        cbs, fin = [], [0]
    else:
        cbs, fin = record(text)
    table = []
    if orig:
        t = decoder_table(orig)
        if any(isinstance(x, tuple) for x in t):
            ctx.count("codec_raises_other_than_UnicodeDecodeError")
        table = [[[0, x] if isinstance(x, str) else [1, 6] if x is None else [1, EXC_NUM.get(x[1], 99)] for x in t]]
    # a rejection must be the parser's: either nothing could be decoded, or the standard-library tokenizer itself failed on the text
    if isinstance(err, ParserRejectedMarkup) and text is not None and fin == [0]:
        ctx.fail(case, "ParserRejectedMarkup although the text was decoded and html.parser accepts it", str(err)[-100:],
                 "a tree", tag=tag or "spurious-rejection")
    if soup is not None and text is None:
        ctx.fail(case, "an object was returned although the input could not be converted to text at all", ascii(soup.decode())[:60],
                 "ParserRejectedMarkup", tag=tag or "undecodable-accepted")
    m_in = [0, markup] if isinstance(markup, str) else [1, markup]
    if soup is not None:
        try:
            impl = ("ok", full_dump(soup))
        except Exception as e:
            ctx.fail(case, "inspecting the constructed object raised %s" % type(e).__name__, str(e)[:120], None, tag=tag or "post-check")
            impl = ("raise", "uninspectable")
    else:
        impl = ("raise", exc_class(err))
    cmds.append([6003, T.enc_cfg(CFG), m_in, dm, table, cbs, fin])
    pending.append((case, impl, wkinds, True))
    if BYTES_LEVEL_TIE and isinstance(markup, bytes) and bytes_level_ok(markup, kw):
        # bytes within the concrete codecs of Model/Codecs.v: C07's concrete prepare_markup, then the string-level pipeline
        bq = ctx.__dict__.setdefault("_c06_bytes", ([], []))
        bq[0].append([6006, T.enc_cfg(CFG), markup, T_opt(kw.get("from_encoding")), list(kw.get("exclude_encodings") or [])])
        bq[1].append((case, impl, wkinds))
    if isinstance(markup, str) and not kw and len(markup) > STR_LEVEL_MAX:
        ctx.count("string_level_skipped_long_inputs")
    if isinstance(markup, str) and not kw and len(markup) <= STR_LEVEL_MAX:
        # the same input through the string-level model: tokenizer model -> adapter -> feed() -> retry loop, nothing recorded
        sq = ctx.__dict__.setdefault("_c06_str", ([], []))
        sq[0].append([6005, T.enc_cfg(CFG), markup])
        sq[1].append((case, impl, wkinds, fin != [0]))


STR_LEVEL_MAX = 1500       # longer inputs (deep nesting, numeric references of thousands of digits - on which the extracted model takes minutes) go through the recorded-callback route only; counted in the evidence


def lower_tag_labels(res):
    """html.parser lower-cases tag names with str.lower(); the tokenizer model does it for ASCII letters only."""
    if isinstance(res, list) and res and res[0] == 0:
        for c in res[1][0]:
            if c[0] == 0:
                c[8] = [ord(ch) for ch in "".join(map(chr, c[8])).lower()]
    return res


SAFE_CODECS = ("utf-8", "ascii", "latin-1", "windows-1252", "iso-8859-1")
BYTES_LEVEL_TIE = os.environ.get("C06_BYTES_TIE", "0") == "1"   # off by default: with it a quick run did not finish in 25 min (C07's concrete prepare_markup model is slow on some inputs); command 6006 stays available
BYTES_LEVEL_MAX = 160        # the declared-encoding scanner of C07's model is slow on long inputs


def bytes_level_ok(markup, kw):
    """The detection stays within the codecs the model has: no declared charset, only modelled names as arguments."""
    if len(markup) > BYTES_LEVEL_MAX or set(kw) - {"from_encoding", "exclude_encodings"}:
        return False
    if kw.get("from_encoding") is not None and kw["from_encoding"] not in SAFE_CODECS:
        return False
    if any(e not in SAFE_CODECS for e in (kw.get("exclude_encodings") or [])):
        return False
    low = markup.lower().replace(b"\x00", b"")
    return b"charset" not in low and b"encoding" not in low


def flush_bytes_level(ctx):
    bq = ctx.__dict__.get("_c06_bytes")
    if not bq or not bq[0]:
        return
    cmds, pending = bq
    for (case, impl, wkinds), m in zip(pending, ctx.model.run(cmds)):
        ctx.count("bytes_level_cases")
        if isinstance(m, tuple):
            ctx.disagree("constructor on bytes ~ Model.ConstructBytes.construct_bytes", case, impl[0], m[1][:80])
            continue
        res, mw = m
        if sorted(mw) != sorted(wkinds):
            ctx.disagree("pre-parse heuristics (warnings issued) ~ Model.ConstructBytes.construct_bytes", case, wkinds, mw)
        compare_cres("constructor on bytes ~ Model.ConstructBytes.construct_bytes (concrete codecs, tokenizer model, nothing recorded)",
                     ctx, case, impl, lower_tag_labels(res))
    del cmds[:]
    del pending[:]


def flush_str_level(ctx):
    import time as _t, sys as _s
    _t0 = _t.time()
    try:
        return _flush_str_level(ctx)
    finally:
        ctx.__dict__["_c06_str_secs"] = ctx.__dict__.get("_c06_str_secs", 0.0) + _t.time() - _t0
        print("flush_str_level total %.1fs" % ctx.__dict__["_c06_str_secs"], file=_s.stderr)


def _flush_str_level(ctx):
    flush_bytes_level(ctx)
    sq = ctx.__dict__.get("_c06_str")
    if not sq or not sq[0]:
        return
    cmds, pending = sq
    for (case, impl, wkinds, recorder_failed), m in zip(pending, ctx.model.run(cmds)):
        ctx.count("string_level_cases")
        if isinstance(m, tuple):
            ctx.disagree("constructor on a str ~ Model.ConstructStr.construct_str", case, impl[0], m[1][:80])
            continue
        res, mw, refused, unesc_failed = m
        if sorted(mw) != sorted(wkinds):
            ctx.disagree("pre-parse heuristics (warnings issued) ~ Model.ConstructStr.construct_str", case, wkinds, mw)
        if bool(refused) != recorder_failed:
            ctx.disagree("html.parser refuses the text (AssertionError / ValueError) ~ Model.ConstructStr.str_rejects", case,
                         recorder_failed, bool(refused))
        if refused:
            ctx.count("string_level_refused")
        if unesc_failed:
            ctx.count("string_level_unescape_failed")
        compare_cres("constructor on a str ~ Model.ConstructStr.construct_str (tokenizer model, nothing recorded)", ctx, case, impl,
                     lower_tag_labels(res))
    del cmds[:]
    del pending[:]


def flush_model(ctx, cmds, pending):
    flush_str_level(ctx)
    if not cmds:
        return
    for (case, impl, wkinds, tree_ok), m in zip(pending, ctx.model.run(cmds)):
        if isinstance(m, tuple):
            ctx.disagree("constructor ~ Model.Construct.construct_htmlparser", case, impl[0], m[1][:80])
            continue
        res, mw = m
        if sorted(mw) != sorted(wkinds):
            ctx.disagree("pre-parse heuristics (warnings issued) ~ Model.Construct.preparse", case, wkinds, mw)
        compare_cres("constructor (html.parser) ~ Model.Construct.construct_htmlparser on the recorded callbacks", ctx, case, impl, res,
                     check_tree=tree_ok)
    del cmds[:]
    del pending[:]


WITNESSES = [
    (b"a&#33;-", {"from_encoding": "punycode"}, "C06-charref-unicodeerror"),
    ("&#" + "9" * 5000 + ";", {}, "C06-charref-digit-limit"),
    ("<p>&#" + "0" * 5000 + "65;</p>", {}, "C06-charref-digit-limit"),
    ("a\ud800", {}, "C06-filename-surrogate"),
    ("caf\udce9.html", {}, "C06-filename-surrogate"),
    ('<a b="&#' + "9" * 5000 + ';">x</a>', {}, "C06-unescape-digit-limit"),
    ('<a b="&#' + "0" * 5000 + '65;">', {}, "C06-unescape-digit-limit"),
]

ENCS = ["utf-8", "ascii", "latin-1", "windows-1252", "utf-16", "utf-16le", "utf-16be", "utf-32", "utf-7", "cp037", "shift-jis",
        "euc-jp", "gb18030", "big5", "koi8-r", "idna", "punycode", "undefined", "base64", "rot13", "hex", "zlib", "bz2", "uu",
        "quopri", "unicode_escape", "raw_unicode_escape", "mbcs", "oem", "bogus", "", "a\x00b", "UTF_8", "x-sjis", "macintosh",
        "utf8", "u8", "iso-8859-8-i", " utf-8 ", "ISO-8859-1\n", "utf-8-sig", "utf_16_le", "\ud800", "é", "charmap"]
TOK = ["<a>", "</a>", "<b c='d'>", "</b>", "<br>", "<br/>", "</br>", "<p", "<!--", "-->", "<!", "<!DOCTYPE html>", "<!DOCTYPE", "<![CDATA[",
       "]]>", "<?", "?>", "<?xml version='1.0' encoding='%s'?>", "<meta charset='%s'>",
       "<meta http-equiv='Content-Type' content='text/html; charset=%s'>", "&", "&#", "&#x", "&amp", "&amp;", "&#65;", "&#x41;",
       "&#0;", "&#255;", "&#256;", "&#150;", "&#129;", "&#1114112;", "&#x110000;", "&#55296;", "&#xdfff;", "&bogus;", "&#4294967296;",
       "<script>", "</script>", "<style>", "</style>", "<textarea>", "</textarea>", "<pre>", "\n", "</pre>", " ", "x", "\x00", "\ud800",
       "\udfff", "\ufffd", "\U0010ffff", "é", "'", '"', "=", "/", ">", "<", "[", "]", "<![", "<![if", "<![endif]>", "<!ELEMENT",
       "<!ATTLIST", "<!ENTITY", "<!NOTATION", "%", "<!x", "<!-", "--!>", "<a b=&#", "<a b='&#65;'>", "<a b='&#x110000;'>", "<title>",
       "</title>", "<plaintext>", "<svg>", "<math>", "\r", "\x0c", "\x0b", "\x1f", "\x85", "\u2028", "<img/>", "<input>", "</input>",
       "<rt>", "<template>", "<![temp[", "<![include[", "<![foo[", "]>", "<A B=C>", "&AMP;", "&lt", "&#X41;", "&#x;", "&#;", "&#xg;"]
CONSTRUCTS = ['<a href="x" class=\'y z\'>t</a>', "<!-- c -- d -->", '<!DOCTYPE html PUBLIC "-//W3C//DTD XHTML 1.0 Strict//EN" "http://x/y.dtd">',
              "<![CDATA[x]]>", '<?xml version="1.0" encoding="utf-8"?>', "<script>if (a<b) {}</script>", "<![if IE]>x<![endif]>",
              '<!DOCTYPE html [<!ENTITY x "y"> <!ELEMENT a (b)> <!ATTLIST a b CDATA #IMPLIED> <!NOTATION n SYSTEM "s">]>',
              "&amp;&#65;&#x41;&bogus;", "<textarea>&lt;</textarea>", "<br/><br></br>", "<p a=b c d='e'/>", "<!ELEMENT br EMPTY>",
              "<![temp[x]]>", "<style>a{}</style></style>", "<title>&amp;</title>"]
CONTINUATIONS = ["", ">", "<b>x</b>", "-->", "]]>"]


def charref_docs():
    vals = list(range(0, 301)) + [0xD7FF, 0xD800, 0xDBFF, 0xDC00, 0xDFFF, 0xE000, 0xFFFD, 0xFFFE, 0xFFFF, 0x10000, 0x10FFFF, 0x110000,
                                  0x110001, 9999999, 10000000, 2 ** 31 - 1, 2 ** 31, 2 ** 32, 2 ** 63 - 1, 2 ** 63, 2 ** 64, 10 ** 30]
    out = []
    for v in vals:
        out.append("&#%d;" % v)
        out.append("<p>&#x%x;&#X%X;</p>" % (v, v))
    for v in (0, 65, 150, 255, 256, 1114111, 1114112):
        for z in (1, 7, 8, 30):
            out.append("&#%s%d;" % ("0" * z, v))
            out.append("&#x%s%x;" % ("0" * z, v))
            out.append('<a t="&#%s%d;">' % ("0" * z, v))
    try:
        import sys
        lim = sys.get_int_max_str_digits()
    except Exception:
        lim = 4300
    for n in sorted({7, 8, 100, lim - 1, lim, lim + 1, lim + 700, 2 * lim + 3} - {0, -1}):
        if n <= 0:
            continue
        for d in ("9", "1", "0"):
            out.append("&#" + d * n + ";")
            out.append("x&#" + d * n + "65;y")
            out.append('<a t="&#' + d * n + ';">')
            out.append('<a t="&#' + d * n + '65;">z</a>')
        out.append("&#x" + "f" * n + ";")
        out.append("&#X" + "0" * n + "41;")
        out.append('<a t="&#x' + "f" * n + ';">')
        out.append("&#" + "9" * n)          # no semicolon
    return out


def gen_token_soup(rng):
    n = rng.randint(0, 12)
    out = []
    for _ in range(n):
        t = rng.choice(TOK)
        out.append(t.replace("%s", rng.choice(ENCS)) if "%s" in t else t)
    return "".join(out)


def to_bytes(rng, s):
    enc = rng.choice(["utf-8", "latin-1", "utf-16", "utf-16le", "utf-16be", "utf-32", "cp1252", "shift-jis", "utf-8-sig", "utf-8"])
    b = s.encode(enc, "surrogatepass" if enc.startswith("utf") else "replace")
    if rng.random() < 0.3:
        b = rng.choice([b"\xef\xbb\xbf", b"\xff\xfe", b"\xfe\xff", b"\x00\x00\xfe\xff", b"\xff\xfe\x00\x00"]) + b
    if rng.random() < 0.4:
        b = bytearray(b)
        for _ in range(rng.randint(1, 4)):
            if b:
                i = rng.randrange(len(b))
                op = rng.random()
                if op < 0.4:
                    b[i] = rng.randrange(256)
                elif op < 0.7:
                    del b[i]
                else:
                    b.insert(i, rng.choice([0, 0x80, 0xff, 0xc0, 0xed, 0xa0, 0xfe]))
        b = bytes(b)
    return b


def hostile_inputs(ctx):
    rng = ctx.rng
    cmds, pending = [], []

    def go(markup, kw, tag=None):
        hostile_case(ctx, markup, kw, cmds, pending, tag)
        if len(cmds) >= 1500:
            flush_model(ctx, cmds, pending)

    # stored witnesses of repaired defects (corpus) first
    corpus = list(WITNESSES)
    cdir = os.path.join(HERE, "corpus", "C06")
    if os.path.isdir(cdir):
        for fn in sorted(os.listdir(cdir)):
            if fn.endswith(".json"):
                for e in json.load(open(os.path.join(cdir, fn))):
                    corpus.append((unj(e["markup"]), e.get("kwargs", {}), e.get("id")))
    for m, kw, fid in corpus:
        go(m, kw, tag=fid)
    ctx.count("corpus", len(corpus))
    # nothing usable: both fall-backs (utf-8, windows-1252) excluded, in any spelling / container, and every other candidate
    # (from_encoding, BOM, declared charset) excluded, unknown, not a text codec, or unable to decode the bytes.  The only
    # admissible outcome is ParserRejectedMarkup.
    n_nu = 0
    excl_sets = [["utf-8", "windows-1252"], ("UTF-8", "Windows-1252"), ["Utf-8", "WINDOWS-1252", "ascii"],
                 ["utf-8", "windows-1252", "utf-16le", "utf-16be", "utf-32le", "utf-32be", "latin-1", "iso-8859-1"],
                 ("windows-1252", "utf-8", "bogus", "")]
    bodies = [b"<p>x</p>", b"<p>\xe9</p>", b"", b"\xef\xbb\xbf<p>x</p>", b"\xff\xfe<\x00p\x00>\x00", b"\xfe\xff\x00<\x00p\x00>",
              b"<meta charset='utf-8'><p>\xc3\xa9</p>", b"<meta charset='windows-1252'>\x93x\x94", b"<meta charset='bogus'>x",
              b"<?xml version='1.0' encoding='UTF-8'?><a/>", b"&#65;&#200;<b>", b"\x00\x00\xfe\xff\x00\x00\x00<"]
    for ex in excl_sets:
        lowered = {e.lower() for e in ex}
        for body in bodies:
            for fe in (None, "utf-8", "UTF-8", "windows-1252", "bogus", "rot13", "hex", "undefined", "a\x00b", "ascii", ""):
                if fe == "ascii" and (all(c < 0x80 for c in body) and "ascii" not in lowered):
                    continue                      # ascii could decode this body: not a nothing-usable configuration
                if body[:2] in (b"\xff\xfe", b"\xfe\xff") or body[:4] == b"\x00\x00\xfe\xff":
                    if not ({"utf-16le", "utf-16be", "utf-32be"} <= lowered):
                        continue                  # the BOM's encoding is still a candidate
                if rng.random() < (1.0 if ctx.thorough else 0.45) or n_nu < 12:
                    kw = {"exclude_encodings": ex}
                    if fe is not None:
                        kw["from_encoding"] = fe
                    go(body, kw, tag="nothing-usable")
                    n_nu += 1
    ctx.count("nothing_usable", n_nu)
    # numeric references
    docs = charref_docs()
    for dct in docs:
        go(dct, {})
    for dct in docs[:: (1 if ctx.thorough else 5)]:
        go(dct.encode("utf-8"), {"from_encoding": rng.choice(["utf-8", "latin-1", "utf-16", "cp037", "koi8-r", "shift-jis", "idna"])})
    ctx.sample({"charref_doc": short(docs[rng.randrange(len(docs))])})
    # deep nesting under elements that put the parser into a special mode (whitespace-preserving, string containers):
    # the constructor must not fail (RecursionError is "another failure") however deep the document is
    for outer in ("pre", "textarea", "template", "rt", "rp", "div"):
        for n in ((400, 1300) if ctx.thorough else (450,)):
            go("<%s>" % outer + "<a>" * n + "x", {}, tag="deep-nesting")
            go("<%s>" % outer + "<b><i>" * (n // 2) + "x" + "</i></b>" * (n // 2) + "</%s>y" % outer, {}, tag="deep-nesting")
    ctx.count("deep_nesting_docs", 12)
    # every truncation of the constructs
    n_tr = 0
    for c in CONSTRUCTS:
        for i in range(len(c) + 1):
            for cont in (CONTINUATIONS if ctx.thorough or i % 2 == 0 else CONTINUATIONS[:2]):
                go(c[:i] + cont, {})
                n_tr += 1
            if ctx.thorough or i % 3 == 0:
                go(c[:i].encode("utf-8"), {})
                go(b"\xff\xfe" + c[:i].encode("utf-16le"), {})
                go(c[:i].encode("utf-16be"), {"from_encoding": "utf-16be"})
    ctx.count("truncations", n_tr)
    # every codec the interpreter knows, as from_encoding and as a declared charset, on a document with small references
    import encodings.aliases, pkgutil, encodings
    names = sorted(set(encodings.aliases.aliases.values()) | {m.name for m in pkgutil.iter_modules(encodings.__path__)})
    bad_codecs = []
    for nme in names:
        try:
            t = decoder_table(nme)
        except Exception:
            continue
        if any(isinstance(x, tuple) and x[1] not in ("LookupError",) for x in t):
            bad_codecs.append(nme)
        go(b"&#200;&#65;&#150;&#0;&#255;&#129;<b>\xe9</b>", {"from_encoding": nme})
        if ctx.thorough:
            go(("<meta charset='%s'>&#200;&#92;&#43;" % nme).encode("ascii", "replace"), {})
            go(b"", {"from_encoding": nme})
    ctx.count("codecs", len(names))
    if bad_codecs:
        ctx.notes.append("codecs raising something other than UnicodeDecodeError/LookupError on a single byte: %s" % bad_codecs[:8])
    # token soup
    for it in range(120000 if ctx.thorough else 3600):
        s = gen_token_soup(rng)
        kw = {}
        if rng.random() < 0.5:
            m = to_bytes(rng, s)
            if rng.random() < 0.5:
                kw["from_encoding"] = rng.choice(ENCS)
            if rng.random() < 0.4:
                kw["exclude_encodings"] = [rng.choice(ENCS) for _ in range(rng.randint(0, 3))]
        else:
            m = s
            if rng.random() < 0.5 and m:
                m = m[:rng.randrange(len(m) + 1)]
            if rng.random() < 0.1:
                kw["from_encoding"] = rng.choice(ENCS)
        go(m, kw)
        if it == 17:
            ctx.sample({"token_soup": short(m), "kwargs": kw})
    # both last-resort candidates excluded: nothing can be decoded
    for ex in (["utf-8", "windows-1252"], ["UTF-8", "Windows-1252", "ascii"]):
        go(b"<p>\xe9</p>", {"exclude_encodings": ex})
        go(b"", {"exclude_encodings": ex})
        go(b"\xef\xbb\xbf<p>x</p>", {"exclude_encodings": ex})
    flush_model(ctx, cmds, pending)


# ------------------------------------------------------------------------------------------------ (c) heuristics
H_ALPHA = ["a", ".html", ".HTM", ".txt", ":", "/", " ", "http:", "https:", "\ud800", "\x00", "é", "?", "C"]


def heuristic_cases(ctx):
    rng = ctx.rng
    strings = ["".join(c) for n in range(0, 4) for c in itertools.product(H_ALPHA, repeat=n)]
    strings += ["x" * 250 + ".html", "x" * 251 + ".html", "x" * 252 + ".html", "é" * 126 + ".xml", "é" * 251 + ".txt", "http:" + "y" * 251,
                "http:" + "y" * 252, "c:\\dir\\file.xhtml", "C:/a.xml", "ab:c.txt", ":a.txt", "a.txt:", "\udfff" * 3 + ".htm", "a|b.txt",
                "a;b.html", "a.html ", "a  b.html", "a//b.html", "ftp://x/y.html", "HTTP:x", "https://example.com/", "http: //x",
                "\U0010ffff.html", "\ud800\udc00.xml", "&.html", "$.txt", "*.htm", "#.xml", ">.txt"]
    for _ in range(3000 if ctx.thorough else 300):
        strings.append("".join(rng.choice(H_ALPHA + ["b", ".xml", ".xhtml", "\\", ">", "#", "|", "  ", "//"]) for _ in range(rng.randint(0, 8))))
    cmds, cases = [], []
    for s in strings:
        variants = [s]
        try:
            variants.append(s.encode("utf-8"))
        except UnicodeEncodeError:
            variants.append(s.encode("utf-8", "surrogatepass"))
        variants.append(s.encode("latin-1", "replace"))
        for m in variants:
            case = {"markup": jmarkup(m), "short": short(m)}
            ctx.case(("heur", m), nontrivial=len(m) > 0)
            obs = []
            for fn in (BeautifulSoup._markup_is_url, BeautifulSoup._markup_resembles_filename):
                with warnings.catch_warnings(record=True) as ws:
                    warnings.simplefilter("always")
                    try:
                        r = bool(fn(m))
                    except Exception as e:
                        ctx.fail(case, "%s raised %s" % (fn.__name__, type(e).__name__), str(e)[:100], "a bool", tag="heuristic")
                        r = "EXC:" + type(e).__name__
                if r is True and not any(issubclass(w.category, MarkupResemblesLocatorWarning) for w in ws):
                    ctx.fail(case, "%s returned True without issuing its warning" % fn.__name__, None, None, tag="heuristic")
                obs.append(r)
            cmds.append([6001, [0, m] if isinstance(m, str) else [1, m]])
            cases.append((case, obs, m))
    ctx.sample({"heuristic_case": cases[len(cases) // 2][0]["short"], "is_url, resembles_filename": cases[len(cases) // 2][1]})
    if ctx.build.model_ok:
        for (case, obs, m), r in zip(cases, ctx.model.run(cmds)):
            is_url, fname, pre = r
            mobs = [bool(is_url), bool(fname[1]) if fname[0] == 0 else "EXC#%d" % fname[1][1]]
            mobs[1] = mobs[1] if fname[0] == 0 else "EXC"
            o2 = [obs[0], obs[1] if isinstance(obs[1], bool) else "EXC"]
            if o2 != mobs:
                ctx.disagree("_markup_is_url / _markup_resembles_filename ~ Model.Construct", case, obs, mobs)
    # str.encode('utf8', errors) as the model states it
    if ctx.build.model_ok:
        enc_cases = [s for s in strings if len(s) <= 12][:: 7]
        cmds = []
        for s in enc_cases:
            for ei, errs in enumerate(("strict", "surrogatepass", "replace", "ignore")):
                cmds.append([6004, ei, s])
        res = ctx.model.run(cmds)
        k = 0
        for s in enc_cases:
            for ei, errs in enumerate(("strict", "surrogatepass", "replace", "ignore")):
                try:
                    exp = [0, list(s.encode("utf8", errs))]
                except UnicodeEncodeError:
                    exp = [1, [1, 11]]
                if res[k] != exp:
                    ctx.disagree("str.encode('utf8', %r) ~ Model.Construct.utf8_encode" % errs, {"text": jmarkup(s)}, exp, res[k])
                k += 1
                ctx.case(("utf8", s, errs), nontrivial=False)


# ------------------------------------------------------------------------------------------------ entry points
def run(ctx):
    ctx.extra_cov.pop("exhaustive_scope", None)
    if ctx.build is not None and not ctx.build.tables_ok:
        # fail-closed translator: the source no longer has the shape the model was aligned with
        ctx.disagree("translator/gen_c06.py could not read the constructor path (tie broken)", {"translator": ctx.build.tables_msg[-300:]}, None, None)
    heuristic_cases(ctx)
    retry_cases(ctx)
    hostile_inputs(ctx)
    ctx.extra_cov["exhaustive_scope"] = ctx.extra_cov.get("exhaustive_scope", "") + (
        "heuristics: every string of <=3 symbols over %d symbols as str / UTF-8 bytes / Latin-1 bytes; numeric references: every "
        "value 0..300 in decimal and both hexadecimal spellings; every truncation of %d constructs; every codec known to the "
        "interpreter as from_encoding" % (len(H_ALPHA), len(CONSTRUCTS)))


def replay(ctx, data):
    f = data.get("failure") or {}
    case = f.get("case") or ((data.get("disagreements") or [{}])[0].get("case")) or {}
    print("what:", f.get("what"), "| observed:", f.get("observed"))
    if "markup" in case and "kwargs" in case:
        m = unj(case["markup"])
        soup, err, _ = construct(m, case.get("kwargs") or {})
        print("input:", short(m, 200), case.get("kwargs"))
        if err is not None:
            print("constructor raised", exc_class(err), str(err)[:200])
            return 0 if isinstance(err, ParserRejectedMarkup) else 1
        bad = post_checks(soup)
        print("post-checks:", bad or "ok")
        return 1 if bad else 0
    if "markup" in case:
        m = unj(case["markup"])
        rc = 0
        for fn in (BeautifulSoup._markup_is_url, BeautifulSoup._markup_resembles_filename):
            try:
                with warnings.catch_warnings():
                    warnings.simplefilter("ignore")
                    print(fn.__name__, fn(m))
            except Exception as e:
                print(fn.__name__, "raised", type(e).__name__, e)
                rc = 1
        return rc
    if "retry_plan" in case:
        plan = [(tuple(m), k, [tuple(e[:3]) + ([tuple(a) for a in e[3]],) if e[0] == "s" else tuple(e) for e in evs], msg)
                for m, k, evs, msg in case["retry_plan"]]
        plan = [(m, k, [(e[0], e[1], e[2], list(e[3])) if e[0] == "s" else e for e in evs], msg) for m, k, evs, msg in plan]
        soup, b, err = run_plan(plan, case.get("generator_raises"), CFG)
        print("plan:", plan)
        if err is not None:
            print("constructor raised", exc_class(err), str(err)[:200])
            return 0 if isinstance(err, ParserRejectedMarkup) and all(k == 1 for _, k, _, _ in plan) else 1
        nrej = next(i for i, p in enumerate(plan) if p[1] == 0)
        fs, _, _ = run_plan([plan[nrej]], None, CFG)
        a, c = full_dump(soup), full_dump(fs)
        print("with rejections:", a["cells"], a["counter"], a["meta"])
        print("without       :", c["cells"], c["counter"], c["meta"])
        return 0 if a == c else 1
    print("nothing to replay")
    return 1
